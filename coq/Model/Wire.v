(* Model of the replication wire format (C09).

   bobocep/cep/event/{event,simple,complex,action,factory,history}.py,
   bobocep/cep/engine/decider/runserial.py: to_json_dict / to_json_str / from_json_str / from_json_dict,
   bobocep/dist/tcp.py: _OutgoingJSONEncoder, _IncomingJSONDecoder, _outgoing_to_json, _incoming_from_json,
   the header formatting of _tcp_send, _split_plaintext.

   Strings are lists of character codes (Z).  CPython's json.dumps / json.loads (default options, the values
   that occur) and the crypto pair are Section variables: the functions below take them as parameters.
   No proofs in this file. *)
From Bobo Require Import Base.Prelude Model.IdGen.

Definition str := list Z.
Definition SP : Z := 32.
Definition NUL : Z := 0.
Definition RBRACE : Z := 125.

(* ---------------------------------------------------------------- JSON values as Python holds them
   None | bool | int | float (IEEE-754 bit pattern, opaque) | str | list | dict (insertion ordered). *)
Inductive json :=
| JNull
| JBool (b : bool)
| JInt (z : Z)
| JFloat (bits : Z)
| JStr (s : str)
| JArr (l : list json)
| JObj (kv : list (str * json)).

(* ---------------------------------------------------------------- run state *)
Inductive event :=
| Simple (id : str) (ts : Z) (data : json)
| Complex (id : str) (ts : Z) (data : json) (phen pat : str) (hist : list (str * list event))
| Action (id : str) (ts : Z) (data : json) (phen pat act : str) (success : bool).

(* BoboHistory._events: group name -> events, insertion ordered.  A dict has no duplicate keys and the
   constructor never creates an empty group (wf_history below). *)
Definition history := list (str * list event).

Record rserial := mkRS { rs_id : str; rs_phen : str; rs_pat : str; rs_idx : Z; rs_hist : history }.

(* the three lists of one SYNC / RESYNC message: completed, halted, updated *)
Definition msg := (list rserial * list rserial * list rserial)%type.

(* ---------------------------------------------------------------- dictionary keys and type tags *)
Definition k_event_type : str := [101; 118; 101; 110; 116; 95; 116; 121; 112; 101].  (* "event_type" *)
Definition k_event_id : str := [101; 118; 101; 110; 116; 95; 105; 100].  (* "event_id" *)
Definition k_timestamp : str := [116; 105; 109; 101; 115; 116; 97; 109; 112].  (* "timestamp" *)
Definition k_data : str := [100; 97; 116; 97].  (* "data" *)
Definition k_phenomenon_name : str :=
  [112; 104; 101; 110; 111; 109; 101; 110; 111; 110; 95; 110; 97; 109; 101].  (* "phenomenon_name" *)
Definition k_pattern_name : str := [112; 97; 116; 116; 101; 114; 110; 95; 110; 97; 109; 101].  (* "pattern_name" *)
Definition k_history : str := [104; 105; 115; 116; 111; 114; 121].  (* "history" *)
Definition k_action_name : str := [97; 99; 116; 105; 111; 110; 95; 110; 97; 109; 101].  (* "action_name" *)
Definition k_success : str := [115; 117; 99; 99; 101; 115; 115].  (* "success" *)
Definition k_run_id : str := [114; 117; 110; 95; 105; 100].  (* "run_id" *)
Definition k_block_index : str := [98; 108; 111; 99; 107; 95; 105; 110; 100; 101; 120].  (* "block_index" *)
Definition k_completed : str := [99; 111; 109; 112; 108; 101; 116; 101; 100].  (* "completed" *)
Definition k_halted : str := [104; 97; 108; 116; 101; 100].  (* "halted" *)
Definition k_updated : str := [117; 112; 100; 97; 116; 101; 100].  (* "updated" *)
Definition t_simple : str := [116; 121; 112; 101; 95; 115; 105; 109; 112; 108; 101].  (* "type_simple" *)
Definition t_complex : str := [116; 121; 112; 101; 95; 99; 111; 109; 112; 108; 101; 120].  (* "type_complex" *)
Definition t_action : str := [116; 121; 112; 101; 95; 97; 99; 116; 105; 111; 110].  (* "type_action" *)

(* ---------------------------------------------------------------- small helpers *)
(* d[k]; None = KeyError *)
Fixpoint jget (k : str) (kv : list (str * json)) : option json :=
  match kv with
  | [] => None
  | p :: t => if zlist_eqb k (fst p) then Some (snd p) else jget k t
  end.

Definition get_str (k : str) (kv : list (str * json)) : option str :=
  match jget k kv with Some (JStr s) => Some s | _ => None end.

(* a string field whose constructor check is len(x) == 0 -> raise *)
Definition get_nestr (k : str) (kv : list (str * json)) : option str :=
  match get_str k kv with Some (c :: s) => Some (c :: s) | _ => None end.

Definition get_int (k : str) (kv : list (str * json)) : option Z :=
  match jget k kv with Some (JInt z) => Some z | _ => None end.

Definition get_bool (k : str) (kv : list (str * json)) : option bool :=
  match jget k kv with Some (JBool b) => Some b | _ => None end.

(* value == "literal" *)
Definition jeq_str (j : json) (s : str) : bool :=
  match j with JStr s' => zlist_eqb s' s | _ => false end.

Fixpoint mapM {A B} (f : A -> option B) (l : list A) : option (list B) :=
  match l with
  | [] => Some []
  | a :: t => match f a with
              | Some b => match mapM f t with Some bs => Some (b :: bs) | None => None end
              | None => None
              end
  end.

Definition nonempty {A} (l : list A) : bool := match l with [] => false | _ => true end.

(* BoboHistory.__init__ over a dict: a group appears only once it receives an event, so groups whose list is
   empty vanish; order of the others is kept. *)
Definition hist_ctor (h : history) : history := filter (fun g => nonempty (snd g)) h.

(* BoboHistory.size() *)
Definition hsize (h : history) : nat := fold_right (fun g a => (length (snd g) + a)%nat) 0%nat h.

(* nesting depth: the number of Python-level recursive from_json_str activations an event needs *)
Fixpoint ev_depth (e : event) : nat :=
  match e with
  | Complex _ _ _ _ _ h => S (list_max (map (fun g => list_max (map ev_depth (snd g))) h))
  | _ => 1%nat
  end.
Definition hist_depth (h : history) : nat := list_max (map (fun g => list_max (map ev_depth (snd g))) h).
Definition rs_depth (r : rserial) : nat := hist_depth (rs_hist r).
Definition msg_depth (m : msg) : nat :=
  let '(c, h, u) := m in list_max (map rs_depth (c ++ h ++ u)).

(* ---------------------------------------------------------------- validity: what the constructors accept
   and what a Python value can be *)
(* a character of a Python str that UTF-8 can carry: a Unicode scalar value *)
Definition chr_ok (c : Z) : bool :=
  (0 <=? c) && (c <? 1114112) && negb ((55296 <=? c) && (c <=? 57343)).
Definition str_ok (s : str) : bool := forallb chr_ok s.
Definition nestr_ok (s : str) : bool := nonempty s && str_ok s.
(* a finite binary64 (NaN and the infinities are not JSON) *)
Definition float_ok (b : Z) : bool :=
  (0 <=? b) && (b <? 18446744073709551616) && negb ((b / 4503599627370496) mod 2048 =? 2047).

Fixpoint nodupb (l : list str) : bool :=
  match l with
  | [] => true
  | a :: t => negb (existsb (zlist_eqb a) t) && nodupb t
  end.

(* j is a JSON value as Python holds it: dict keys distinct, strings are text, floats finite *)
Fixpoint jvalid (j : json) : bool :=
  match j with
  | JNull | JBool _ | JInt _ => true
  | JFloat b => float_ok b
  | JStr s => str_ok s
  | JArr l => forallb jvalid l
  | JObj kv => nodupb (map fst kv) && forallb (fun p => str_ok (fst p) && jvalid (snd p)) kv
  end.

Fixpoint wf_event (e : event) : bool :=
  match e with
  | Simple id ts d => nestr_ok id && jvalid d
  | Complex id ts d ph pa h =>
      nestr_ok id && jvalid d && nestr_ok ph && nestr_ok pa &&
      nodupb (map fst h) &&
      forallb (fun g => str_ok (fst g) && nonempty (snd g) && forallb wf_event (snd g)) h
  | Action id ts d ph pa ac ok => nestr_ok id && jvalid d && nestr_ok ph && nestr_ok pa && nestr_ok ac
  end.

Definition wf_history (h : history) : bool :=
  nodupb (map fst h) &&
  forallb (fun g => str_ok (fst g) && nonempty (snd g) && forallb wf_event (snd g)) h.

(* BoboRunSerial.__init__: run_id, phenomenon_name non-empty, block_index >= 1, history.size() >= 1
   (pattern_name is not checked) *)
Definition wf_rserial (r : rserial) : bool :=
  nestr_ok (rs_id r) && nestr_ok (rs_phen r) && str_ok (rs_pat r) && (1 <=? rs_idx r) &&
  (1 <=? hsize (rs_hist r))%nat && wf_history (rs_hist r).

Definition wf_msg (m : msg) : bool :=
  let '(c, h, u) := m in forallb wf_rserial c && forallb wf_rserial h && forallb wf_rserial u.

(* ---------------------------------------------------------------- header: "{} {} {} {} {}".format(...) *)
Definition format (urn key : str) (ty fl : Z) (payload : str) : str :=
  urn ++ SP :: key ++ SP :: dec ty ++ SP :: dec fl ++ SP :: payload.

(* int(s) on what str(int) produces: optional '-', then one or more ASCII digits *)
Fixpoint parse_digits (acc : Z) (s : str) : option Z :=
  match s with
  | [] => Some acc
  | c :: t => if (48 <=? c) && (c <=? 57) then parse_digits (acc * 10 + (c - 48)) t else None
  end.
Definition parse_nat (s : str) : option Z :=
  match s with [] => None | _ => parse_digits 0 s end.
Definition parse_int (s : str) : option Z :=
  match s with
  | [] => None
  | c :: t => if c =? 45 then option_map Z.opp (parse_nat t) else parse_nat s
  end.

(* _split_plaintext: indices of the first `need` spaces, scanning from index i *)
Fixpoint space_ix (s : str) (need i : nat) : list nat :=
  match s with
  | [] => []
  | c :: t =>
      match need with
      | O => []
      | S n => if c =? SP then i :: space_ix t n (S i) else space_ix t need (S i)
      end
  end.

(* s[a:b] *)
Definition slice (a b : nat) (s : str) : str := firstn (b - a) (skipn a s).

Definition split_plaintext (s : str) : option (str * str * Z * Z * str) :=
  match space_ix s 4 0 with
  | [i0; i1; i2; i3] =>
      match parse_int (slice (i1 + 1) i2 s), parse_int (slice (i2 + 1) i3 s) with
      | Some ty, Some fl => Some (firstn i0 s, slice (i0 + 1) i1 s, ty, fl, skipn (i3 + 1) s)
      | _, _ => None                    (* ValueError from int() *)
      end
  | _ => None                            (* BoboDistributedError: fewer than four spaces *)
  end.

(* str.rstrip("\0") *)
Definition ends_nul (s : str) : bool := match rev s with c :: _ => c =? NUL | [] => false end.

(* ---------------------------------------------------------------- serialisation *)
Section Codec.
  Variable dumps : json -> str.           (* json.dumps(x) on a JSON value *)
  Variable loads : str -> option json.    (* json.loads(s); None = it raised *)
  Variable encrypt : str -> str -> list Z. (* crypto.encrypt with the nonce drawn (first argument) *)
  Variable decrypt : list Z -> option str.

  (* to_json_str: dumps(self.to_json_dict(), default=lambda o: o.to_json_str()) -- a nested BoboJSONable
     becomes a JSON *string* holding that object's own JSON text. *)
  Fixpoint event_to_json (e : event) : json :=
    match e with
    | Simple id ts d =>
        JObj [(k_event_type, JStr t_simple); (k_event_id, JStr id); (k_timestamp, JInt ts); (k_data, d)]
    | Complex id ts d ph pa h =>
        JObj [(k_event_type, JStr t_complex); (k_event_id, JStr id); (k_timestamp, JInt ts); (k_data, d);
              (k_phenomenon_name, JStr ph); (k_pattern_name, JStr pa);
              (k_history,
               JStr (dumps (JObj (map (fun g => (fst g, JArr (map (fun e' => JStr (dumps (event_to_json e')))
                                                                 (snd g)))) h))))]
    | Action id ts d ph pa ac ok =>
        JObj [(k_event_type, JStr t_action); (k_event_id, JStr id); (k_timestamp, JInt ts); (k_data, d);
              (k_phenomenon_name, JStr ph); (k_pattern_name, JStr pa); (k_action_name, JStr ac);
              (k_success, JBool ok)]
    end.

  Definition event_to_str (e : event) : str := dumps (event_to_json e).

  (* BoboHistory.to_json_dict: {group: [event, ...]} ; every event becomes a string *)
  Definition history_to_json (h : history) : json :=
    JObj (map (fun g => (fst g, JArr (map (fun e => JStr (event_to_str e)) (snd g)))) h).
  Definition history_to_str (h : history) : str := dumps (history_to_json h).

  Definition runserial_to_json (r : rserial) : json :=
    JObj [(k_run_id, JStr (rs_id r)); (k_phenomenon_name, JStr (rs_phen r)); (k_pattern_name, JStr (rs_pat r));
          (k_block_index, JInt (rs_idx r)); (k_history, JStr (history_to_str (rs_hist r)))].
  Definition runserial_to_str (r : rserial) : str := dumps (runserial_to_json r).

  (* _outgoing_to_json: dumps({completed: [...], halted: [...], updated: [...]}, cls=_OutgoingJSONEncoder);
     the encoder's default() returns obj.to_json_str(), so every run record is a string *)
  Definition msg_to_json (m : msg) : json :=
    let '(c, h, u) := m in
    JObj [(k_completed, JArr (map (fun r => JStr (runserial_to_str r)) c));
          (k_halted, JArr (map (fun r => JStr (runserial_to_str r)) h));
          (k_updated, JArr (map (fun r => JStr (runserial_to_str r)) u))].
  Definition msg_to_str (m : msg) : str := dumps (msg_to_json m).

  (* ---- decoding.  None stands for any exception.  Fields are read at their annotated types (str, int,
     bool); the code itself does not check them. *)
  Definition simple_from_kv (kv : list (str * json)) : option event :=
    match get_nestr k_event_id kv, get_int k_timestamp kv, jget k_data kv with
    | Some id, Some ts, Some d => Some (Simple id ts d)
    | _, _, _ => None
    end.

  Definition action_from_kv (kv : list (str * json)) : option event :=
    match get_nestr k_event_id kv, get_int k_timestamp kv, jget k_data kv,
          get_nestr k_phenomenon_name kv, get_nestr k_pattern_name kv, get_nestr k_action_name kv,
          get_bool k_success kv with
    | Some id, Some ts, Some d, Some ph, Some pa, Some ac, Some ok => Some (Action id ts d ph pa ac ok)
    | _, _, _, _, _, _, _ => None
    end.

  Definition complex_from_kv (hist_of_str : str -> option history) (kv : list (str * json)) : option event :=
    match get_nestr k_event_id kv, get_int k_timestamp kv, jget k_data kv,
          get_nestr k_phenomenon_name kv, get_nestr k_pattern_name kv, get_str k_history kv with
    | Some id, Some ts, Some d, Some ph, Some pa, Some hs =>
        match hist_of_str hs with
        | Some h => Some (Complex id ts d ph pa h)
        | None => None
        end
    | _, _, _, _, _, _ => None
    end.

  (* BoboEventFactory.from_json_str(e) for one element of a group list *)
  Definition event_of_str (ev : json -> option event) (x : json) : option event :=
    match x with
    | JStr s => match loads s with Some j => ev j | None => None end
    | _ => None
    end.

  Definition group_from_json (ev : json -> option event) (g : str * json) : option (str * list event) :=
    match snd g with
    | JArr l => match mapM (event_of_str ev) l with Some es => Some (fst g, es) | None => None end
    | _ => None
    end.

  (* BoboHistory.from_json_dict followed by the constructor *)
  Definition history_from_json_with (ev : json -> option event) (j : json) : option history :=
    match j with
    | JObj gkv => match mapM (group_from_json ev) gkv with Some h => Some (hist_ctor h) | None => None end
    | _ => None
    end.

  (* BoboHistory.from_json_str *)
  Definition history_from_str_with (ev : json -> option event) (s : str) : option history :=
    match loads s with Some j => history_from_json_with ev j | None => None end.

  (* BoboEventFactory dispatch on d["event_type"], then <Kind>.from_json_dict.  fuel = how many nested
     Python-level activations are still allowed (the interpreter's recursion limit: RecursionError). *)
  Fixpoint event_from_json (fuel : nat) (j : json) : option event :=
    match fuel with
    | O => None
    | S f =>
        match j with
        | JObj kv =>
            match jget k_event_type kv with
            | None => None                                   (* Missing key 'event_type' *)
            | Some t =>
                if jeq_str t t_simple then simple_from_kv kv
                else if jeq_str t t_complex then complex_from_kv (history_from_str_with (event_from_json f)) kv
                else if jeq_str t t_action then action_from_kv kv
                else None                                    (* Unknown event type *)
            end
        | _ => None
        end
    end.

  Definition history_from_json (fuel : nat) : json -> option history :=
    history_from_json_with (event_from_json fuel).
  Definition history_from_str (fuel : nat) : str -> option history :=
    history_from_str_with (event_from_json fuel).

  (* BoboRunSerial.from_json_dict + constructor checks *)
  Definition runserial_from_json (fuel : nat) (j : json) : option rserial :=
    match j with
    | JObj kv =>
        match get_nestr k_run_id kv, get_nestr k_phenomenon_name kv, get_str k_pattern_name kv,
              get_int k_block_index kv, get_str k_history kv with
        | Some id, Some ph, Some pa, Some ix, Some hs =>
            match history_from_str fuel hs with
            | Some h => if (1 <=? ix) && (1 <=? hsize h)%nat then Some (mkRS id ph pa ix h) else None
            | None => None
            end
        | _, _, _, _, _ => None
        end
    | _ => None
    end.

  (* BoboRunSerial.from_json_str *)
  Definition runserial_from_str (fuel : nat) (s : str) : option rserial :=
    match loads s with Some j => runserial_from_json fuel j | None => None end.

  Definition rs_of_json (fuel : nat) (x : json) : option rserial :=
    match x with JStr s => runserial_from_str fuel s | _ => None end.

  Definition get_rs_list (fuel : nat) (k : str) (kv : list (str * json)) : option (list rserial) :=
    match jget k kv with Some (JArr l) => mapM (rs_of_json fuel) l | _ => None end.

  (* _IncomingJSONDecoder.object_hook on the (only) dictionary of the message text; the three keys are then
     read by _update *)
  Definition msg_from_json (fuel : nat) (j : json) : option msg :=
    match j with
    | JObj kv =>
        match get_rs_list fuel k_completed kv, get_rs_list fuel k_halted kv, get_rs_list fuel k_updated kv with
        | Some c, Some h, Some u => Some (c, h, u)
        | _, _, _ => None
        end
    | _ => None
    end.

  (* _incoming_from_json *)
  Definition msg_from_str (fuel : nat) (s : str) : option msg :=
    match loads s with Some j => msg_from_json fuel j | None => None end.

  (* ---- the whole path: _outgoing_to_json, header, encrypt | decrypt, _split_plaintext, _incoming_from_json *)
  Definition send (nonce urn key : str) (ty fl : Z) (m : msg) : list Z :=
    encrypt nonce (format urn key ty fl (msg_to_str m)).

  Definition receive (fuel : nat) (bytes : list Z) : option (str * str * Z * Z * msg) :=
    match decrypt bytes with
    | Some pt =>
        match split_plaintext pt with
        | Some (u, k, ty, fl, p) =>
            match msg_from_str fuel p with
            | Some m => Some (u, k, ty, fl, m)
            | None => None
            end
        | None => None
        end
    | None => None
    end.
End Codec.

(* ---------------------------------------------------------------- a concrete codec
   Used to run the model (correspondence) and to show that the laws assumed of json.dumps / json.loads are
   satisfiable.  Prefix code, ASCII only apart from the characters of the strings themselves:
     n | t | f | i<int>; | d<bits>; | s<len>;<chars> | a<len>;<items> | o<len>;(<keylen>;<key><value>)*}        *)
Definition num (z : Z) : str := dec z ++ [59].
Definition len_num {A} (l : list A) : str := num (Z.of_nat (length l)).

Fixpoint tdumps (j : json) : str :=
  match j with
  | JNull => [110]
  | JBool b => [if b then 116 else 102]
  | JInt z => 105 :: num z
  | JFloat b => 100 :: num b
  | JStr s => 115 :: len_num s ++ s
  | JArr l => 97 :: len_num l ++ flat_map tdumps l
  | JObj kv => 111 :: len_num kv ++ flat_map (fun p => len_num (fst p) ++ fst p ++ tdumps (snd p)) kv ++ [RBRACE]
  end.

Fixpoint cut_at (c : Z) (s : str) : option (str * str) :=
  match s with
  | [] => None
  | x :: t => if x =? c then Some ([], t)
              else match cut_at c t with Some (a, b) => Some (x :: a, b) | None => None end
  end.

Definition take_num (s : str) : option (Z * str) :=
  match cut_at 59 s with
  | Some (a, b) => match parse_int a with Some z => Some (z, b) | None => None end
  | None => None
  end.

Definition take_len (s : str) : option (nat * str) :=
  match take_num s with
  | Some (z, r) => if z <? 0 then None else Some (Z.to_nat z, r)
  | None => None
  end.

Definition take_n (n : nat) (s : str) : option (str * str) :=
  if (n <=? length s)%nat then Some (firstn n s, skipn n s) else None.

Fixpoint rep {A} (p : str -> option (A * str)) (n : nat) (s : str) : option (list A * str) :=
  match n with
  | O => Some ([], s)
  | S n' => match p s with
            | Some (a, r) => match rep p n' r with Some (l, r') => Some (a :: l, r') | None => None end
            | None => None
            end
  end.

Definition tentry (p : str -> option (json * str)) (s : str) : option ((str * json) * str) :=
  match take_len s with
  | Some (n, r) =>
      match take_n n r with
      | Some (k, r') => match p r' with Some (v, r'') => Some ((k, v), r'') | None => None end
      | None => None
      end
  | None => None
  end.

Fixpoint tparse (fuel : nat) (s : str) : option (json * str) :=
  match fuel with
  | O => None
  | S f =>
      match s with
      | [] => None
      | c :: r =>
          if c =? 110 then Some (JNull, r)
          else if c =? 116 then Some (JBool true, r)
          else if c =? 102 then Some (JBool false, r)
          else if c =? 105 then match take_num r with Some (z, r') => Some (JInt z, r') | None => None end
          else if c =? 100 then match take_num r with Some (z, r') => Some (JFloat z, r') | None => None end
          else if c =? 115 then
            match take_len r with
            | Some (n, r') => match take_n n r' with Some (x, r'') => Some (JStr x, r'') | None => None end
            | None => None
            end
          else if c =? 97 then
            match take_len r with
            | Some (n, r') => match rep (tparse f) n r' with Some (l, r'') => Some (JArr l, r'') | None => None end
            | None => None
            end
          else if c =? 111 then
            match take_len r with
            | Some (n, r') =>
                match rep (tentry (tparse f)) n r' with
                | Some (kv, c' :: r3) => if c' =? RBRACE then Some (JObj kv, r3) else None
                | _ => None
                end
            | None => None
            end
          else None
      end
  end.

Definition tloads (s : str) : option json :=
  match tparse (S (length s)) s with
  | Some (j, []) => Some j
  | _ => None
  end.

(* a "cipher" with the one behaviour of the real one that matters here: decrypt strips trailing NULs *)
Fixpoint strip_front_nul (s : str) : str :=
  match s with c :: t => if c =? NUL then strip_front_nul t else s | [] => [] end.
Definition rstrip_nul (s : str) : str := rev (strip_front_nul (rev s)).
Definition tencrypt (nonce s : str) : list Z := s.
Definition tdecrypt (b : list Z) : option str := Some (rstrip_nul b).

(* ---------------------------------------------------------------- correspondence entry points *)
(* input: ((urn, id_key, type, flags), (completed, halted, updated)).
   output: the plaintext the model puts on the wire with the concrete codec above
           ++ [-1; round trip through the model's own receive path gives the same message (0/1);
                   wf_msg (0/1)] *)
Definition run_C09 (inp : (str * str * Z * Z) * msg) : list Z :=
  let '((urn, key, ty, fl), m) := inp in
  let payload := msg_to_str tdumps m in
  let bytes := send tdumps tencrypt [] urn key ty fl m in
  let ok :=
    match receive tloads tdecrypt (S (msg_depth m)) bytes with
    | Some (u, k, t, f, m') =>
        zlist_eqb u urn && zlist_eqb k key && (t =? ty) && (f =? fl) &&
        zlist_eqb (msg_to_str tdumps m') payload
    | None => false
    end in
  bytes ++ [-1; b2z ok; b2z (wf_msg m)].

(* input: a run record as the caller would hand it to the constructors (possibly rejected by them).
   output: [wf_rserial] *)
Definition run_C09_wf (r : rserial) : list Z := [b2z (wf_rserial r)].
