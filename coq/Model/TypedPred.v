(* Model of BoboPredicateCallType.evaluate (predicate.py): type check, optional cast, then the call.
   D = event data; the callee sees a datum, the original event is never passed on modified. *)
From Bobo Require Import Base.Prelude.

Section Typed.
  Variable D : Type.
  Variable is_type : D -> bool.          (* isinstance(data, dtype)           *)
  Variable is_exact : D -> bool.         (* type(data) == dtype               *)
  Variable cast : D -> option D.         (* dtype(data): None = TypeError / ValueError *)
  Variable call : D -> pres.             (* the user function, by the datum it is given *)

  Inductive seen := NotCalled | CalledWith (d : D).

  (* result and what the callee saw *)
  Definition typed_eval (subtype castflag : bool) (d : D) : pres * seen :=
    let ok := if subtype then is_type d else is_exact d in
    if ok then (call d, CalledWith d)
    else if castflag then
      match cast d with
      | Some d' => (call d', CalledWith d')
      | None => (PFalse, NotCalled)
      end
    else (PFalse, NotCalled).
End Typed.
Arguments NotCalled {D}. Arguments CalledWith {D}.
