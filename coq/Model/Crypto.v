(* Model of bobocep/dist/crypto/aes.py: BoboDistributedCryptoAES (constructor check, min_length,
   end_bytes, encrypt, decrypt).  Characters (code points) and bytes are Z; str / bytes are list Z.

   External to the model (Section variables; their assumed laws are hypotheses in
   Proofs/CryptoProofs.v, never axioms):
     utf8, utf8_dec  : str.encode("UTF-8") / bytes.decode("UTF-8")
     gcm_enc         : AES.new(key, MODE_GCM, nonce=, mac_len=).encrypt_and_digest(pt) = (ct, tag)
     gcm_dec         : AES.new(key, MODE_GCM, nonce=, mac_len=).decrypt_and_verify(ct, tag), None = ValueError
   get_random_bytes(nonce_length) is an explicit input (the oracle's draw), one per encrypt call.
   A result None stands for "ValueError raised" (AES.new argument checks, MAC check failed,
   UnicodeDecodeError/UnicodeEncodeError are all ValueError).

   Concrete instances (strict UTF-8 codec, a toy xor/checksum cipher) are defined at the end ONLY so that
   the padding / layout / slicing code can be executed inside Coq for the correspondence check. *)
From Bobo Require Import Base.Prelude.

Definition len (l : list Z) : Z := Z.of_nat (length l).

(* ------------------------------------------------------------------ Python slicing s[lo:hi] *)
(* PySlice_AdjustIndices for step 1: a negative index gets len added and is clipped at 0,
   a non-negative one is clipped at len; an empty range when hi <= lo. *)
Definition py_norm (L i : Z) : Z := if i <? 0 then Z.max (i + L) 0 else Z.min i L.

Definition py_slice (lo hi : option Z) (s : list Z) : list Z :=
  let L := len s in
  let a := match lo with None => 0 | Some i => py_norm L i end in
  let b := match hi with None => L | Some i => py_norm L i end in
  firstn (Z.to_nat (b - a)) (skipn (Z.to_nat a) s).

(* ------------------------------------------------------------------ constants of aes.py *)
Definition MARKER : list Z := [66; 79; 66; 79].       (* _END_BYTES = "BOBO".encode("UTF-8") *)
Definition LEN_END : Z := 4.                           (* _LEN_END_BYTES *)
Definition PAD_MODULO : Z := 16.
Definition PAD_CHAR : Z := 0.                          (* '\0' *)

Record config := mkCfg { c_key : list Z (* aes_key : str *); c_nonce_len : Z; c_mac_len : Z }.

(* __init__: len(aes_key) (characters!) must be 16, 24 or 32, else BoboDistributedCryptoError *)
Definition ctor_ok (cfg : config) : bool :=
  let k := len (c_key cfg) in (k =? 16) || (k =? 24) || (k =? 32).

Definition min_length (cfg : config) : Z := PAD_MODULO + c_nonce_len cfg + c_mac_len cfg + LEN_END.

(* msg_str + '\0' * (16 - len % 16) when len % 16 != 0; len counts characters *)
Definition pad_chars (s : list Z) : list Z :=
  let l := len s in
  if l mod PAD_MODULO =? 0 then s
  else s ++ repeat PAD_CHAR (Z.to_nat (PAD_MODULO - l mod PAD_MODULO)).

Definition is_nil (l : list Z) : bool := match l with [] => true | _ => false end.

(* str.rstrip('\0') *)
Fixpoint rstrip0 (s : list Z) : list Z :=
  match s with
  | [] => []
  | x :: t => let t' := rstrip0 t in if (x =? PAD_CHAR) && is_nil t' then [] else x :: t'
  end.

(* argument checks of Crypto.Cipher.AES.new(key, MODE_GCM, nonce=, mac_len=): ValueError otherwise *)
Definition gcm_valid (keyb nonce : list Z) (maclen : Z) : bool :=
  let k := len keyb in
  ((k =? 16) || (k =? 24) || (k =? 32)) && (1 <=? len nonce) && (4 <=? maclen) && (maclen <=? 16).

(* code points that str.encode("UTF-8") accepts: Unicode scalar values *)
Definition is_scalar (c : Z) : bool :=
  ((0 <=? c) && (c <? 55296)) || ((57343 <? c) && (c <=? 1114111)).

Section AES.
  Variable utf8 : list Z -> list Z.
  Variable utf8_dec : list Z -> option (list Z).
  Variable gcm_enc : list Z -> list Z -> Z -> list Z -> list Z * list Z.           (* key nonce mac_len pt *)
  Variable gcm_dec : list Z -> list Z -> Z -> list Z -> list Z -> option (list Z). (* key nonce mac_len ct tag *)

  (* encrypt(msg_str); draw = get_random_bytes(self._nonce_length) *)
  Definition encrypt (cfg : config) (draw : list Z) (s : list Z) : option (list Z) :=
    let keyb := utf8 (c_key cfg) in
    if gcm_valid keyb draw (c_mac_len cfg) then
      let '(ct, tag) := gcm_enc keyb draw (c_mac_len cfg) (utf8 (pad_chars s)) in
      Some (ct ++ draw ++ tag ++ MARKER)
    else None.

  (* the three slices of decrypt *)
  Definition slice_ct (cfg : config) (msg : list Z) : list Z :=
    py_slice None (Some (- (c_nonce_len cfg + c_mac_len cfg + LEN_END))) msg.
  Definition slice_nonce (cfg : config) (msg : list Z) : list Z :=
    py_slice (Some (- (c_nonce_len cfg + c_mac_len cfg + LEN_END))) (Some (- (c_mac_len cfg + LEN_END))) msg.
  Definition slice_tag (cfg : config) (msg : list Z) : list Z :=
    py_slice (Some (- (c_mac_len cfg + LEN_END))) (Some (- LEN_END)) msg.
  Definition slice_trailer (msg : list Z) : list Z := py_slice (Some (- LEN_END)) None msg.

  (* decrypt with the cipher built for tag length maclen_used *)
  Definition decrypt_with (maclen_used : Z) (cfg : config) (msg : list Z) : option (list Z) :=
    let keyb := utf8 (c_key cfg) in
    let ct := slice_ct cfg msg in
    let nonce := slice_nonce cfg msg in
    let tag := slice_tag cfg msg in
    if gcm_valid keyb nonce maclen_used then
      match gcm_dec keyb nonce maclen_used ct tag with
      | None => None
      | Some pt => match utf8_dec pt with
                   | None => None
                   | Some s => Some (rstrip0 s)
                   end
      end
    else None.

  (* the code with the fix for D13: AES.new(..., nonce=nonce, mac_len=self._mac_length) *)
  Definition decrypt (cfg : config) : list Z -> option (list Z) := decrypt_with (c_mac_len cfg) cfg.
  (* the code at the pinned commit: AES.new(..., nonce=nonce), i.e. PyCryptodome's default mac_len=16 *)
  Definition decrypt_unfixed (cfg : config) : list Z -> option (list Z) := decrypt_with 16 cfg.

  (* consecutive encrypt calls: the i-th call consumes the i-th draw of the random source *)
  Definition encrypt_all (cfg : config) (calls : list (list Z * list Z)) : list (option (list Z)) :=
    map (fun c => encrypt cfg (fst c) (snd c)) calls.
End AES.

(* the nonce field of an encrypt result, as decrypt reads it *)
Definition nonce_of (cfg : config) (o : option (list Z)) : list Z :=
  match o with Some out => slice_nonce cfg out | None => [] end.

(* ------------------------------------------------------------------ concrete UTF-8 (strict, as CPython) *)
Definition utf8_cp (c : Z) : list Z :=
  if c <? 128 then [c]
  else if c <? 2048 then [192 + c / 64; 128 + c mod 64]
  else if c <? 65536 then [224 + c / 4096; 128 + (c / 64) mod 64; 128 + c mod 64]
  else [240 + c / 262144; 128 + (c / 4096) mod 64; 128 + (c / 64) mod 64; 128 + c mod 64].

Definition utf8c (s : list Z) : list Z := flat_map utf8_cp s.

Definition is_cont (b : Z) : bool := (128 <=? b) && (b <? 192).

Definition ocons (c : Z) (o : option (list Z)) : option (list Z) :=
  match o with Some l => Some (c :: l) | None => None end.

Fixpoint utf8c_dec (l : list Z) : option (list Z) :=
  match l with
  | [] => Some []
  | b0 :: t0 =>
      if (0 <=? b0) && (b0 <? 128) then ocons b0 (utf8c_dec t0)
      else match t0 with
      | [] => None
      | b1 :: t1 =>
          if (192 <=? b0) && (b0 <? 224) then
            let c := (b0 - 192) * 64 + (b1 - 128) in
            if is_cont b1 && (128 <=? c) then ocons c (utf8c_dec t1) else None
          else match t1 with
          | [] => None
          | b2 :: t2 =>
              if (224 <=? b0) && (b0 <? 240) then
                let c := (b0 - 224) * 4096 + (b1 - 128) * 64 + (b2 - 128) in
                if is_cont b1 && is_cont b2 && (2048 <=? c) && is_scalar c
                then ocons c (utf8c_dec t2) else None
              else match t2 with
              | [] => None
              | b3 :: t3 =>
                  if (240 <=? b0) && (b0 <? 248) then
                    let c := (b0 - 240) * 262144 + (b1 - 128) * 4096 + (b2 - 128) * 64 + (b3 - 128) in
                    if is_cont b1 && is_cont b2 && is_cont b3 && (65536 <=? c) && (c <=? 1114111)
                    then ocons c (utf8c_dec t3) else None
                  else None
              end
          end
      end
  end.

(* ------------------------------------------------------------------ toy cipher (NOT AES; executable stand-in) *)
Definition zsum (l : list Z) : Z := fold_right Z.add 0 l.
Fixpoint wsum (i : Z) (l : list Z) : Z :=
  match l with [] => 0 | x :: t => i * x + wsum (i + 1) t end.
Definition toy_seed (key nonce : list Z) : Z := zsum key + 31 * wsum 1 nonce.
Fixpoint toy_xor (seed i : Z) (l : list Z) : list Z :=
  match l with
  | [] => []
  | x :: t => Z.lxor x ((seed + 7 * i) mod 256) :: toy_xor seed (i + 1) t
  end.
Definition toy_tag (key nonce : list Z) (m : Z) (ct : list Z) : list Z :=
  let base := toy_seed key nonce + wsum 1 ct + len ct in
  map (fun j => (base + 13 * Z.of_nat j) mod 256) (seq 0 (Z.to_nat m)).
Definition toy_enc (key nonce : list Z) (m : Z) (pt : list Z) : list Z * list Z :=
  let ct := toy_xor (toy_seed key nonce) 0 pt in (ct, toy_tag key nonce m ct).
Definition toy_dec (key nonce : list Z) (m : Z) (ct tag : list Z) : option (list Z) :=
  if zlist_eqb tag (toy_tag key nonce m ct) then Some (toy_xor (toy_seed key nonce) 0 ct) else None.

Definition t_encrypt := encrypt utf8c toy_enc.
Definition t_decrypt := decrypt utf8c utf8c_dec toy_dec.
Definition t_decrypt_unfixed := decrypt_unfixed utf8c utf8c_dec toy_dec.

(* ------------------------------------------------------------------ correspondence entry points *)
Definition SEP : Z := -2.
Definition enc_opt (o : option (list Z)) : list Z :=
  match o with None => [-1] | Some l => 1 :: l end.

Definition the (o : option (list Z)) : list Z := match o with Some l => l | None => [] end.

Definition case_input : Type := (list Z * (Z * Z) * list Z * list Z)%type.

(* (key chars, (nonce_length, mac_length), draw, plaintext chars), cipher = toy:
   constructor check, min_length, encrypt result, decrypt (encrypt result) *)
Definition run_C17_toy (inp : case_input) : list Z :=
  let '(key, (n, m), draw, s) := inp in
  let cfg := mkCfg key n m in
  if ctor_ok cfg then
    1 :: min_length cfg ::
    match t_encrypt cfg draw s with
    | None => [-1]
    | Some out => 1 :: out ++ SEP :: enc_opt (t_decrypt cfg out)
    end
  else [0].

(* (key chars, (nonce_length, mac_length), message bytes, -), cipher = toy: decrypt of arbitrary bytes *)
Definition run_C17_toydec (inp : case_input) : list Z :=
  let '(key, (n, m), msg, _) := inp in
  enc_opt (t_decrypt (mkCfg key n m) msg).

(* (key chars, (nonce_length, mac_length), plaintext chars, the implementation's encrypt output with the
   real AES): what the model says was fed to the cipher, the advertised minimum, the length, and the model's
   slicing of the implementation's bytes; then the decrypt result predicted by theorem
   C17_roundtrip_general.  [-1] when AES.new rejects the configuration. *)
Definition run_C17_layout (inp : case_input) : list Z :=
  let '(key, (n, m), s, out) := inp in
  let cfg := mkCfg key n m in
  if gcm_valid (utf8c key) (repeat 0 (Z.to_nat n)) m then
    let pt := utf8c (pad_chars s) in
    [len (pad_chars s); min_length cfg; len pt + n + m + LEN_END; b2z (len out >=? min_length cfg)] ++
    pt ++ SEP :: slice_ct cfg out ++ SEP :: slice_nonce cfg out ++ SEP :: slice_tag cfg out ++
    SEP :: slice_trailer out ++ SEP :: 1 :: rstrip0 s
  else [-1].

(* (-, (nonce_length, mac_length), arbitrary message bytes, -): decrypt's three slices and the tag length
   the cipher is built for *)
Definition run_C17_slices (inp : case_input) : list Z :=
  let '(_, (n, m), msg, _) := inp in
  let cfg := mkCfg [] n m in
  slice_ct cfg msg ++ SEP :: slice_nonce cfg msg ++ SEP :: slice_tag cfg msg ++ [SEP; m].

(* (bytes, -, -, -): strict UTF-8 decoding of arbitrary bytes (the codec used by the toy runs) *)
Definition run_C17_utf8 (inp : case_input) : list Z :=
  let '(b, _, _, _) := inp in enc_opt (utf8c_dec b).

(* (key chars, (nonce_length, mac_length), draw1 ++ draw2, plaintext chars), cipher = toy: two consecutive
   encrypt calls of ONE instance on the same text; the i-th call consumes the i-th draw *)
Definition run_C17_seq (inp : case_input) : list Z :=
  let '(key, (n, m), draws, s) := inp in
  let cfg := mkCfg key n m in
  let d1 := firstn (Z.to_nat n) draws in
  let d2 := skipn (Z.to_nat n) draws in
  concat (map (fun o => enc_opt o ++ [SEP]) (encrypt_all utf8c toy_enc cfg [(d1, s); (d2, s)])).

(* one entry point for the harness: (kind, input) *)
Definition run_C17 (ki : Z * case_input) : list Z :=
  let '(k, inp) := ki in
  if k =? 0 then run_C17_toy inp
  else if k =? 1 then run_C17_toydec inp
  else if k =? 2 then run_C17_layout inp
  else if k =? 3 then run_C17_slices inp
  else if k =? 5 then run_C17_seq inp
  else run_C17_utf8 inp.
