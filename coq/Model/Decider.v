(* Model of bobocep/cep/engine/decider/decider.py: BoboDecider.update (one event),
   on_distributed_update, snapshot.  Dicts are insertion-ordered association lists.
   No proofs here. *)
From Bobo Require Import Base.Prelude Base.History Model.Pattern Model.Run.

Section Decider.
  Variable E : Type.
  Notation pattern := (pattern E).
  Notation history := (history E).
  Notation run := (run E).

  Record rserial := mkSer { s_id : Z; s_ph : Z; s_pat : Z; s_idx : nat; s_hist : history }.
  Record note := mkNote { n_comp : list rserial; n_halt : list rserial; n_upd : list rserial }.

  (* phenomenon name -> pattern name -> runs (each carrying its id), insertion-ordered *)
  Definition runtab := list (Z * list (Z * list run)).

  Record config := mkCfg {
    c_phen : list (Z * list pattern);   (* phenomena in constructor order, each with its patterns *)
    c_maxcache : nat;                   (* 0 = caching disabled *)
    c_genid : nat -> Z }.               (* k-th identifier produced by gen_run_id *)

  Record dstate := mkD {
    d_runs : runtab;
    d_cc : list rserial;                (* _cache_completed, oldest first *)
    d_ch : list rserial;                (* _cache_halted *)
    d_next : nat }.                     (* number of run ids drawn so far *)

  Definition d_init : dstate := mkD [] [] [] 0.

  Definition ser (r : run) : rserial :=
    mkSer (r_id r) (r_ph r) (p_name (r_pat r)) (r_idx r) (r_hist r).

  (* ---------- association lists ---------- *)
  Fixpoint al_get {V} (k : Z) (l : list (Z * V)) : option V :=
    match l with
    | [] => None
    | (k', v) :: l' => if Z.eqb k k' then Some v else al_get k l'
    end.

  (* update the value under k (creating the key at the end if missing) *)
  Fixpoint al_upd {V} (k : Z) (f : option V -> V) (l : list (Z * V)) : list (Z * V) :=
    match l with
    | [] => [(k, f None)]
    | (k', v) :: l' => if Z.eqb k k' then (k', f (Some v)) :: l' else (k', v) :: al_upd k f l'
    end.

  Definition odflt {V} (d : V) (o : option V) : V := match o with Some v => v | None => d end.

  (* ---------- run table ---------- *)
  Definition bucket (ph pat : Z) (rt : runtab) : list run :=
    match al_get ph rt with
    | Some m => odflt [] (al_get pat m)
    | None => []
    end.

  Definition rt_all (rt : runtab) : list run :=
    concat (map (fun pm => concat (map snd (snd pm))) rt).

  Definition run_at (ph pat id : Z) (rt : runtab) : option run :=
    find (fun r => Z.eqb (r_id r) id) (bucket ph pat rt).

  (* _add_run: keys are created on demand; duplicate id in the bucket raises *)
  Definition rt_add (ph pat : Z) (r : run) (rt : runtab) : res runtab :=
    match run_at ph pat (r_id r) rt with
    | Some _ => Exn EDupRun
    | None => Ok (al_upd ph (fun om => al_upd pat (fun ors => odflt [] ors ++ [r]) (odflt [] om)) rt)
    end.

  (* _remove_run (quiet or present): never creates keys *)
  Definition rt_remove (ph pat id : Z) (rt : runtab) : runtab :=
    map (fun pm => if Z.eqb (fst pm) ph
                   then (fst pm, map (fun pr => if Z.eqb (fst pr) pat
                                                then (fst pr, filter (fun r => negb (Z.eqb (r_id r) id)) (snd pr))
                                                else pr) (snd pm))
                   else pm) rt.

  Definition rt_filter_map (f : run -> option run) (rt : runtab) : runtab :=
    map (fun pm => (fst pm, map (fun pr => (fst pr, flat_map (fun r => match f r with Some r' => [r'] | None => [] end) (snd pr)))
                                (snd pm))) rt.

  (* replace the run with this id in the bucket *)
  Definition rt_replace (ph pat : Z) (r' : run) (rt : runtab) : runtab :=
    map (fun pm => if Z.eqb (fst pm) ph
                   then (fst pm, map (fun pr => if Z.eqb (fst pr) pat
                                                then (fst pr, map (fun r => if Z.eqb (r_id r) (r_id r') then r' else r) (snd pr))
                                                else pr) (snd pm))
                   else pm) rt.

  (* ---------- _check_against_runs ---------- *)
  Inductive kind := KComp | KHalt | KUpd.

  Definition kind_of (r' : run) : kind :=
    if r_halted r' then (if is_complete r' then KComp else KHalt) else KUpd.

  (* what an existing run contributes to the three lists; an exception is swallowed *)
  Definition run_event (e : E) (r : run) : list (run * kind) :=
    match process r e with
    | Ok (r', true) => [(r', kind_of r')]
    | _ => []
    end.

  (* the run afterwards: removed when it finished on this event *)
  Definition after_event (e : E) (r : run) : option run :=
    match process r e with
    | Ok (r', true) => if r_halted r' then None else Some r'
    | _ => Some r
    end.

  Definition sel (k : kind) (l : list (run * kind)) : list run :=
    flat_map (fun rk => match snd rk, k with
                        | KComp, KComp | KHalt, KHalt | KUpd, KUpd => [fst rk]
                        | _, _ => [] end) l.

  (* ---------- _check_against_patterns ---------- *)
  (* first block's predicates against the empty history, exceptions swallowed per predicate *)
  Fixpoint any_swallow (ps : list (pred E)) (e : E) : bool :=
    match ps with
    | [] => false
    | p :: ps' => match p e [] with PTrue => true | _ => any_swallow ps' e end
    end.

  Definition first_match (p : pattern) (e : E) : bool :=
    match p_blocks p with b0 :: _ => any_swallow (b_preds b0) e | [] => false end.

  Definition cfg_pats (cfg : config) : list (Z * pattern) :=
    flat_map (fun pp => map (fun p => (fst pp, p)) (snd pp)) (c_phen cfg).

  Fixpoint start_runs (cfg : config) (e : E) (pps : list (Z * pattern)) (rt : runtab) (next : nat)
    : res (runtab * nat * list run * list run) :=
    match pps with
    | [] => Ok (rt, next, [], [])
    | (ph, p) :: rest =>
      if first_match p e then
        let nr := new_run (c_genid cfg next) ph p e in     (* the id is drawn before the singleton gate *)
        if r_halted nr && is_complete nr then
          match start_runs cfg e rest rt (S next) with
          | Ok (rt', n', c, u) => Ok (rt', n', nr :: c, u)
          | Exn k => Exn k
          end
        else if negb (p_single p) || Nat.eqb (length (bucket ph (p_name p) rt)) 0 then
          match rt_add ph (p_name p) nr rt with
          | Exn k => Exn k
          | Ok rt1 =>
            match start_runs cfg e rest rt1 (S next) with
            | Ok (rt', n', c, u) => Ok (rt', n', c, nr :: u)
            | Exn k => Exn k
            end
          end
        else start_runs cfg e rest rt (S next)
      else start_runs cfg e rest rt next
    end.

  (* ---------- caches: deque(maxlen) ---------- *)
  Definition dq_push (maxlen : nat) (x : rserial) (l : list rserial) : list rserial :=
    match maxlen with
    | O => l                                   (* caching disabled *)
    | _ => let l' := l ++ [x] in skipn (length l' - maxlen) l'
    end.

  Definition cache_push (cfg : config) (l : list rserial) (xs : list rserial) : list rserial :=
    fold_left (fun l x => dq_push (c_maxcache cfg) x l) xs l.

  (* ---------- update(): one event taken from the queue ---------- *)
  Definition local_step (cfg : config) (s : dstate) (e : E) : res (dstate * note) :=
    let ks := flat_map (run_event e) (rt_all (d_runs s)) in
    let rt1 := rt_filter_map (after_event e) (d_runs s) in
    match start_runs cfg e (cfg_pats cfg) rt1 (d_next s) with
    | Exn k => Exn k
    | Ok (rt2, n2, pc, pu) =>
      let comp := map ser (sel KComp ks ++ pc) in
      let hlt := map ser (sel KHalt ks) in
      let upd := map ser (sel KUpd ks ++ pu) in
      Ok (mkD rt2 (cache_push cfg (d_cc s) comp) (cache_push cfg (d_ch s) hlt) n2,
          mkNote comp hlt upd)
    end.

  (* snapshot() *)
  Definition snapshot (s : dstate) : note := mkNote (d_cc s) (d_ch s) (map ser (rt_all (d_runs s))).

  (* ---------- on_distributed_update ---------- *)
  Definition get_pattern (cfg : config) (ph pat : Z) : option pattern :=
    match al_get ph (c_phen cfg) with
    | Some ps => find (fun p => Z.eqb (p_name p) pat) ps
    | None => None
    end.

  Definition ids_of (l : list rserial) : list Z := map s_id l.
  Definition zmem (x : Z) (l : list Z) : bool := existsb (Z.eqb x) l.

  (* _maybe_check_against_cache after the fix for D1/D2: precedence inside one message
     (always), and against the finished-run memory (when caching) by run id *)
  Definition filter_msg (cfg : config) (s : dstate) (m : note) : note :=
    let idc := ids_of (n_comp m) in
    let idh := ids_of (n_halt m) in
    let h1 := filter (fun r => negb (zmem (s_id r) idc)) (n_halt m) in
    let u1 := filter (fun r => negb (zmem (s_id r) idc) && negb (zmem (s_id r) idh)) (n_upd m) in
    match c_maxcache cfg with
    | O => mkNote (n_comp m) h1 u1
    | _ =>
      let cc := ids_of (d_cc s) in
      let ch := ids_of (d_ch s) in
      mkNote (filter (fun r => negb (zmem (s_id r) cc)) (n_comp m))
             (filter (fun r => negb (zmem (s_id r) cc) && negb (zmem (s_id r) ch)) h1)
             (filter (fun r => negb (zmem (s_id r) cc) && negb (zmem (s_id r) ch)) u1)
    end.

  (* the pinned commit: completed filtered by id, halted/updated by object identity (never equal
     for a record that came off the wire), no precedence inside the message *)
  Definition filter_msg_unfixed (cfg : config) (s : dstate) (m : note) : note :=
    match c_maxcache cfg with
    | O => m
    | _ => mkNote (filter (fun r => negb (zmem (s_id r) (ids_of (d_cc s)))) (n_comp m)) (n_halt m) (n_upd m)
    end.

  (* completed (which = true) or halted (false) records: remove the corresponding local run *)
  Fixpoint apply_finished (cfg : config) (which : bool) (recs : list rserial)
           (rt : runtab) (cc ch : list rserial) : runtab * list rserial * list rserial * list rserial :=
    match recs with
    | [] => (rt, cc, ch, [])
    | rc :: rest =>
      match get_pattern cfg (s_ph rc) (s_pat rc) with
      | None => apply_finished cfg which rest rt cc ch          (* unknown pattern: record dropped *)
      | Some p =>
        match (if p_single p then bucket (s_ph rc) (p_name p) rt else []) with
        | rl :: _ =>
          let rt' := rt_remove (r_ph rl) (p_name (r_pat rl)) (r_id rl) rt in
          if Z.eqb (s_id rc) (r_id rl) then
            let '(rt2, cc2, ch2, out) := apply_finished cfg which rest rt' cc ch in
            (rt2, cc2, ch2, rc :: out)
          else
            let sl := ser rl in
            let cc' := if which then dq_push (c_maxcache cfg) sl cc else cc in
            let ch' := if which then ch else dq_push (c_maxcache cfg) sl ch in
            let '(rt2, cc2, ch2, out) := apply_finished cfg which rest rt' cc' ch' in
            (rt2, cc2, ch2, sl :: out)
        | [] =>
          let rt' := rt_remove (s_ph rc) (s_pat rc) (s_id rc) rt in
          let '(rt2, cc2, ch2, out) := apply_finished cfg which rest rt' cc ch in
          (rt2, cc2, ch2, rc :: out)
        end
      end
    end.

  (* is the remote record ahead of the local copy?  ge_hist = the fix for D3 *)
  Definition ahead (d3 : bool) (rc : rserial) (rl : run) : bool :=
    Nat.ltb (r_idx rl) (s_idx rc)
    || (d3 && Nat.eqb (r_idx rl) (s_idx rc) && Nat.ltb (hsize (r_hist rl)) (hsize (s_hist rc))).

  Fixpoint apply_updated (cfg : config) (d3 : bool) (recs : list rserial) (rt : runtab)
    : runtab * list rserial :=
    match recs with
    | [] => (rt, [])
    | rc :: rest =>
      match get_pattern cfg (s_ph rc) (s_pat rc) with
      | None => apply_updated cfg d3 rest rt
      | Some p =>
        let rlo := if p_single p then hd_error (bucket (s_ph rc) (p_name p) rt)
                   else run_at (s_ph rc) (s_pat rc) (s_id rc) rt in
        match rlo with
        | Some rl =>
          let rl' := if ahead d3 rc rl then set_block rl (s_idx rc) (s_hist rc) else rl in
          let rt' := rt_replace (s_ph rc) (p_name p) rl' rt in
          let rc' := if p_single p && negb (Z.eqb (s_id rc) (r_id rl)) then ser rl' else rc in
          let '(rt2, out) := apply_updated cfg d3 rest rt' in
          (rt2, rc' :: out)
        | None =>
          let nr := remote_run (s_id rc) (s_ph rc) p (s_idx rc) (s_hist rc) in
          let rt' := match rt_add (s_ph rc) (s_pat rc) nr rt with Ok t => t | Exn _ => rt end in
          let '(rt2, out) := apply_updated cfg d3 rest rt' in
          (rt2, rc :: out)
        end
      end
    end.

  (* fixed = filter by id with in-message precedence (D1/D2) ; d3 = equal index, longer history applies *)
  Definition remote_apply_gen (fixed d3 : bool) (cfg : config) (s : dstate) (m : note) : dstate * note :=
    let m1 := if fixed then filter_msg cfg s m else filter_msg_unfixed cfg s m in
    let cc0 := cache_push cfg (d_cc s) (n_comp m1) in
    let ch0 := cache_push cfg (d_ch s) (n_halt m1) in
    let '(rt1, cc1, ch1, comp) := apply_finished cfg true (n_comp m1) (d_runs s) cc0 ch0 in
    let '(rt2, cc2, ch2, hlt) := apply_finished cfg false (n_halt m1) rt1 cc1 ch1 in
    let '(rt3, upd) := apply_updated cfg d3 (n_upd m1) rt2 in
    (mkD rt3 cc2 ch2 (d_next s), mkNote comp hlt upd).

  Definition remote_apply := remote_apply_gen true true.
End Decider.

Arguments mkSer {E}. Arguments s_id {E}. Arguments s_ph {E}. Arguments s_pat {E}. Arguments s_idx {E}. Arguments s_hist {E}.
Arguments mkNote {E}. Arguments n_comp {E}. Arguments n_halt {E}. Arguments n_upd {E}.
Arguments mkCfg {E}. Arguments c_phen {E}. Arguments c_maxcache {E}. Arguments c_genid {E}.
Arguments mkD {E}. Arguments d_runs {E}. Arguments d_cc {E}. Arguments d_ch {E}. Arguments d_next {E}.
Arguments d_init {E}. Arguments ser {E}. Arguments bucket {E}. Arguments rt_all {E}. Arguments run_at {E}.
Arguments rt_add {E}. Arguments rt_remove {E}. Arguments rt_filter_map {E}. Arguments rt_replace {E}.
Arguments run_event {E}. Arguments after_event {E}. Arguments sel {E}. Arguments kind_of {E}.
Arguments first_match {E}. Arguments any_swallow {E}. Arguments cfg_pats {E}. Arguments start_runs {E}.
Arguments dq_push {E}. Arguments cache_push {E}. Arguments local_step {E}. Arguments snapshot {E}.
Arguments get_pattern {E}. Arguments filter_msg {E}. Arguments filter_msg_unfixed {E}.
Arguments apply_finished {E}. Arguments apply_updated {E}. Arguments ahead {E}.
Arguments remote_apply_gen {E}. Arguments remote_apply {E}. Arguments ids_of {E}.
