(* Small-step model of one BoboDistributedTCP instance with its threads interleaved (C06, C07).
   No proofs here.

   Model/Outgoing.v describes one iteration of the loop body of _tcp_outgoing as ONE function (iter).
   Here the same iteration is cut at every access to state that another thread can write, so that the
   actions of the other threads can fall in between:

     other threads   XEnq n        on_decider_update(local=True): one Queue.put_nowait
                     XAddr f a     _tcp_incoming_handle_client: device.addr refreshed
                     XReset f      _tcp_incoming_handle_client: device.clear_last() on a RESET-flagged message
     outgoing thread OStep ...     the next atomic step of _tcp_outgoing, given by the program counter:
        PIdle          start of an iteration: the clock is read; in the REPAIRED order (fixed = true) the
                       queue item is taken here, once, inside the locked decision
        PRdLc k        d.last_comms of peer k is read
        PRdLa k        d.last_attempt of peer k is read      (repaired order: the mode is chosen here)
        PRdQe k        pinned order only: Queue.empty() is read for peer k, the mode is chosen
        PPrep          next entry of outlist: d.flag_reset read, RESYNC clears the stash, pinned order: the
                       queue item is taken at the first SYNC; the payload is built (snapshot / item + stash)
        PSend k ..     _tcp_send: d.addr read, bytes handed to the socket layer; clock read after it;
                       SYNC: stash cleared on success, item appended to the stash on failure
        PWrLc k ..     d.last_comms = now (success only), then d.flag_reset = False if the message carried it
        PWrLa k ..     d.last_attempt = now
   Accesses to state that only the outgoing thread writes (stash, flag_reset) commute with every action of
   the other threads and are merged into the neighbouring step.  Atomicity assumed: each individually locked
   BoboDeviceManager accessor and each Queue operation, nothing coarser.

   The per-peer decision and the bookkeeping are the functions of Model/Outgoing.v (decide, pre_send,
   pop_queue, payload, set_lc, ...), applied to the values actually read.  Ghost components (never read by
   the program): g_clock (last clock reading), g_emitted (every note ever enqueued, oldest first), g_log
   (send attempts and handled RESETs, newest first; an attempt records how many notes had been emitted when
   its payload was built). *)
From Bobo Require Import Base.Prelude Model.Outgoing.

(* ---- notes as sets of run ids ---- *)
Definition incl_b (a b : list Z) : bool := forallb (fun x => existsb (Z.eqb x) b) a.
Definition note_in_b (n m : note) : bool :=
  incl_b (n_c n) (n_c m) && incl_b (n_h n) (n_h m) && incl_b (n_u n) (n_u m).
Definition note_in (n m : note) : Prop :=
  incl (n_c n) (n_c m) /\ incl (n_h n) (n_h m) /\ incl (n_u n) (n_u m).

(* ---- program counter of the outgoing thread ---- *)
Inductive pc :=
| PIdle
| PRdLc (k : nat)
| PRdLa (k : nat) (lcv : Z)
| PRdQe (k : nat) (lcv lav : Z)
| PPrep
| PSend (k : nat) (m : mode) (flagged : bool) (pay : note) (seen : nat)
| PWrLc (k : nat) (flagged : bool) (t : Z)
| PWrLa (k : nat) (t : Z).

(* one send attempt as seen at the socket layer *)
Record satt := mkS {
  s_peer : nat; s_mode : mode;
  s_dec : Z;            (* clock at the start of the iteration *)
  s_done : Z;           (* clock after _tcp_send returned *)
  s_flag : bool;        (* the message carried RESET *)
  s_err : nat;          (* return value of _tcp_send *)
  s_vis : bool;         (* sendall was reached: the peer can see the message *)
  s_addr : Z;
  s_pay : note;
  s_seen : nat }.       (* ghost: number of notes emitted when the payload was built *)
Inductive hev := HAtt (a : satt) | HReset (i : nat).
Definition hev_peer (e : hev) : nat := match e with HAtt a => s_peer a | HReset i => i end.

Record gstate := mkG {
  g_peers : list peer; g_queue : list note;
  (* thread-local state of the outgoing thread *)
  g_pc : pc; g_now : Z; g_ol : list (nat * mode); g_cache : option note; g_qe : bool;
  (* ghosts *)
  g_clock : Z; g_emitted : list note; g_log : list hev }.

Definition ginit (ps : list peer) (q : list note) (clock : Z) : gstate :=
  mkG ps q PIdle 0 [] None true clock [] [].

Inductive act :=
| XEnq (n : note)
| XAddr (from : nat) (caddr : Z)
| XReset (from : nat)
| OStep (t : Z) (snap : note) (outc : Z).   (* t: clock reading (start / after the send); snap: decider.snapshot();
                                               outc: scripted outcome of the socket layer (Outgoing.err_of) *)

Definition upd_peer (k : nat) (f : peer -> peer) (ps : list peer) : list peer :=
  match nth_error ps k with Some p => set_nth k (f p) ps | None => ps end.

(* the peer record as the decision sees it: last_comms / last_attempt as read, the rest as it is now *)
Definition with_reads (lcv lav : Z) (p : peer) : peer :=
  mkPeer lcv lav (fr p) (st_c p) (st_h p) (st_u p) (addr p).

Definition cache_note (o : option note) : note := match o with Some n => n | None => empty_note end.

Definition next_dec (n k : nat) : pc := if Nat.ltb k n then PRdLc k else PPrep.

Definition set_pc (g : gstate) (p : pc) : gstate :=
  mkG (g_peers g) (g_queue g) p (g_now g) (g_ol g) (g_cache g) (g_qe g) (g_clock g) (g_emitted g) (g_log g).

(* the mode is chosen for peer k and appended to outlist *)
Definition decided (c : tcfg) (g : gstate) (k : nat) (lcv lav : Z) (qe : bool) : gstate :=
  match nth_error (g_peers g) k with
  | None => set_pc g PPrep
  | Some p =>
      let ol := match decide c (g_now g) qe (with_reads lcv lav p) with
                | Some m => g_ol g ++ [(k, m)]
                | None => g_ol g
                end in
      mkG (g_peers g) (g_queue g) (next_dec (length (g_peers g)) (S k)) (g_now g) ol (g_cache g) (g_qe g)
          (g_clock g) (g_emitted g) (g_log g)
  end.

Definition ostep (fixed : bool) (c : tcfg) (g : gstate) (t : Z) (snap : note) (outc : Z) : gstate :=
  match g_pc g with
  | PIdle =>
      let '(cache, qe, q) :=
        if fixed then match g_queue g with n :: q' => (Some n, false, q') | [] => (None, true, []) end
        else (None, true, g_queue g) in
      mkG (g_peers g) q (next_dec (length (g_peers g)) 0) t [] cache qe t (g_emitted g) (g_log g)
  | PRdLc k =>
      match nth_error (g_peers g) k with
      | Some p => set_pc g (PRdLa k (lc p))
      | None => set_pc g PPrep
      end
  | PRdLa k lcv =>
      match nth_error (g_peers g) k with
      | Some p => if fixed then decided c g k lcv (la p) (g_qe g) else set_pc g (PRdQe k lcv (la p))
      | None => set_pc g PPrep
      end
  | PRdQe k lcv lav => decided c g k lcv lav (is_nil (g_queue g))
  | PPrep =>
      match g_ol g with
      | [] => set_pc g PIdle
      | (k, m) :: rest =>
          match nth_error (g_peers g) k with
          | None => mkG (g_peers g) (g_queue g) PPrep (g_now g) rest (g_cache g) (g_qe g)
                        (g_clock g) (g_emitted g) (g_log g)
          | Some p =>
              let p1 := pre_send m p in
              let '(cache, q) :=
                match m with
                | SYNC => if fixed then (g_cache g, g_queue g)
                          else let (n, q') := pop_queue (g_cache g) (g_queue g) in (Some n, q')
                | _ => (g_cache g, g_queue g)
                end in
              mkG (set_nth k p1 (g_peers g)) q
                  (PSend k m (msg_flags p) (payload m snap (cache_note cache) p1) (length (g_emitted g)))
                  (g_now g) rest cache (g_qe g) (g_clock g) (g_emitted g) (g_log g)
          end
      end
  | PSend k m flagged pay seen =>
      match nth_error (g_peers g) k with
      | None => set_pc g PPrep
      | Some p =>
          let err := err_of outc in
          let a := mkS k m (g_now g) t flagged err (visible outc) (addr p) pay seen in
          let p' := match err, m with
                    | O, SYNC => clear_stash p
                    | S _, SYNC => append_stash (cache_note (g_cache g)) p
                    | _, _ => p
                    end in
          mkG (set_nth k p' (g_peers g)) (g_queue g)
              (match err with O => PWrLc k flagged t | S _ => PWrLa k t end)
              (g_now g) (g_ol g) (g_cache g) (g_qe g) t (g_emitted g) (HAtt a :: g_log g)
      end
  | PWrLc k flagged t' =>
      mkG (upd_peer k (fun p => let p' := set_lc t' p in if flagged then set_fr false p' else p') (g_peers g))
          (g_queue g) (PWrLa k t') (g_now g) (g_ol g) (g_cache g) (g_qe g) (g_clock g) (g_emitted g) (g_log g)
  | PWrLa k t' =>
      mkG (upd_peer k (set_la t') (g_peers g))
          (g_queue g) PPrep (g_now g) (g_ol g) (g_cache g) (g_qe g) (g_clock g) (g_emitted g) (g_log g)
  end.

Definition mstep (fixed : bool) (c : tcfg) (g : gstate) (a : act) : gstate :=
  match a with
  | XEnq n =>
      mkG (g_peers g) (g_queue g ++ [n]) (g_pc g) (g_now g) (g_ol g) (g_cache g) (g_qe g)
          (g_clock g) (g_emitted g ++ [n]) (g_log g)
  | XAddr from caddr =>
      mkG (upd_peer from (fun p => if caddr =? addr p then p else set_addr caddr p) (g_peers g))
          (g_queue g) (g_pc g) (g_now g) (g_ol g) (g_cache g) (g_qe g) (g_clock g) (g_emitted g) (g_log g)
  | XReset from =>
      match nth_error (g_peers g) from with
      | None => g
      | Some p =>
          mkG (set_nth from (clear_last p) (g_peers g))
              (g_queue g) (g_pc g) (g_now g) (g_ol g) (g_cache g) (g_qe g) (g_clock g) (g_emitted g)
              (HReset from :: g_log g)
      end
  | OStep t snap outc => ostep fixed c g t snap outc
  end.

Fixpoint mrun (fixed : bool) (c : tcfg) (g : gstate) (acts : list act) : gstate :=
  match acts with
  | [] => g
  | a :: acts' => mrun fixed c (mstep fixed c g a) acts'
  end.

(* the steps at which the outgoing thread reads the clock *)
Definition reads_clock (p : pc) : bool :=
  match p with PIdle => true | PSend _ _ _ _ _ => true | _ => false end.

(* a schedule is admissible when the clock never steps back (and, for `real`, every reading is beyond the
   two resync parameters, as any reading of seconds-since-1970 is) *)
Definition act_ok (g : gstate) (a : act) : Prop :=
  match a with
  | OStep t _ _ => reads_clock (g_pc g) = true -> g_clock g <= t
  | _ => True
  end.
Definition act_real (c : tcfg) (g : gstate) (a : act) : Prop :=
  match a with
  | OStep t _ _ => g_pc g = PIdle -> p_resync c < t /\ a_resync c < t
  | _ => True
  end.

Section Reach.
  Variables (fixed : bool) (c : tcfg).
  Variable ok : gstate -> act -> Prop.
  Inductive reach (g0 : gstate) : gstate -> Prop :=
  | reach_refl : reach g0 g0
  | reach_step g a : reach g0 g -> ok g a -> reach g0 (mstep fixed c g a).
End Reach.

(* ---- what peer j is known to have, note by note (C06) ---- *)
(* a message that reached the socket layer for j covers the idx-th emitted note n: a SYNC that contains it,
   or a RESYNC whose snapshot was taken after it was emitted *)
Definition covers (j idx : nat) (n : note) (e : hev) : Prop :=
  match e with
  | HAtt a => s_peer a = j /\ s_vis a = true /\
              ((s_mode a = SYNC /\ note_in n (s_pay a)) \/ (s_mode a = RESYNC /\ (idx < s_seen a)%nat))
  | HReset _ => False
  end.
Definition delivered_to (g : gstate) (j idx : nat) (n : note) : Prop := exists e, In e (g_log g) /\ covers j idx n e.

(* n is the item of the current iteration and j has not been served yet *)
Definition in_flight (g : gstate) (j : nat) (n : note) : Prop :=
  g_cache g = Some n /\
  match g_pc g with
  | PRdLc k | PRdLa k _ | PRdQe k _ _ => (k <= j)%nat \/ In (j, SYNC) (g_ol g)
  | PSend k m _ _ _ => (k = j /\ m = SYNC) \/ In (j, SYNC) (g_ol g)
  | PIdle => False
  | _ => In (j, SYNC) (g_ol g)
  end.

Definition in_resync_period (c : tcfg) (g : gstate) (p : peer) : Prop :=
  reached (cv_pr c) (g_clock g - lc p) (p_resync c) = true.

Definition knows (c : tcfg) (g : gstate) (j : nat) (p : peer) (idx : nat) (n : note) : Prop :=
  delivered_to g j idx n \/ In n (g_queue g) \/ note_in n (stash p) \/ in_flight g j n \/ in_resync_period c g p.

Definition knowledge (c : tcfg) (g : gstate) : Prop :=
  forall j p idx n, nth_error (g_peers g) j = Some p -> nth_error (g_emitted g) idx = Some n -> knows c g j p idx n.

(* ---- the window of C07: after last_comms of peer j was read for the decision, until last_comms of j has
   been written by the bookkeeping of the same iteration ---- *)
Definition in_window (g : gstate) (j : nat) : Prop :=
  match g_pc g with
  | PRdLa k _ | PRdQe k _ _ | PSend k _ _ _ _ | PWrLc k _ _ => k = j \/ In j (map fst (g_ol g))
  | _ => In j (map fst (g_ol g))
  end.
Definition race_free (g : gstate) (a : act) : Prop :=
  match a with XReset j => ~ in_window g j | _ => True end.

(* newest event about peer j *)
Fixpoint last_hev (j : nat) (rl : list hev) : option hev :=
  match rl with
  | [] => None
  | e :: r => if Nat.eqb (hev_peer e) j then Some e else last_hev j r
  end.
Definition is_reset (o : option hev) : bool := match o with Some (HReset _) => true | _ => false end.

(* every attempt to j whose predecessor (among the events about j) is a handled RESET is a RESYNC *)
Fixpoint resets_answered (j : nat) (rl : list hev) : Prop :=
  match rl with
  | [] => True
  | HAtt a :: r => (s_peer a = j -> is_reset (last_hev j r) = true -> s_mode a = RESYNC) /\ resets_answered j r
  | _ :: r => resets_answered j r
  end.

(* every attempt to j up to and including the first delivered one carries the RESET flag;
   `first_resync`: the first attempt to j is a RESYNC *)
Definition ok_att (j : nat) (e : hev) : bool :=
  match e with HAtt a => Nat.eqb (s_peer a) j && match s_err a with O => true | _ => false end | _ => false end.
Fixpoint flag_kept (j : nat) (rl : list hev) : Prop :=
  match rl with
  | [] => True
  | HAtt a :: r => (s_peer a = j -> existsb (ok_att j) r = false -> s_flag a = true) /\ flag_kept j r
  | _ :: r => flag_kept j r
  end.
Fixpoint first_is_resync (j : nat) (rl : list hev) : Prop :=
  match rl with
  | [] => True
  | HAtt a :: r => (s_peer a = j -> last_hev j r = None -> s_mode a = RESYNC) /\ first_is_resync j r
  | _ :: r => first_is_resync j r
  end.

(* ================================================================== correspondence driver *)
(* Yield points of one iteration at which the scenario may run actions of the other threads. *)
Inductive point :=
| PtLc (k : nat) | PtLa (k : nat) | PtQe (k : nat) | PtPrep (k : nat) | PtSend (k : nat) | PtWlc (k : nat) | PtWla (k : nat).

Definition point_eqb (a b : point) : bool :=
  match a, b with
  | PtLc x, PtLc y | PtLa x, PtLa y | PtQe x, PtQe y | PtPrep x, PtPrep y
  | PtSend x, PtSend y | PtWlc x, PtWlc y | PtWla x, PtWla y => Nat.eqb x y
  | _, _ => false
  end.

Definition point_of (g : gstate) : option point :=
  match g_pc g with
  | PIdle => None
  | PRdLc k => Some (PtLc k)
  | PRdLa k _ => Some (PtLa k)
  | PRdQe k _ _ => Some (PtQe k)
  | PPrep => match g_ol g with (k, _) :: _ => Some (PtPrep k) | [] => None end
  | PSend k _ _ _ _ => Some (PtSend k)
  | PWrLc k _ _ => Some (PtWlc k)
  | PWrLa k _ => Some (PtWla k)
  end.

(* an injected action: enqueue, or a whole incoming message from a peer (address refresh, then RESET) *)
Inductive inj := JEnq (n : note) | JIn (from : nat) (flags caddr : Z).
Definition inj_acts (x : inj) : list act :=
  match x with
  | JEnq n => [XEnq n]
  | JIn from flags caddr => XAddr from caddr :: (if Z.land flags 1 =? 1 then [XReset from] else [])
  end.

Fixpoint lookup_inj (pt : point) (tab : list (point * list inj)) : list inj :=
  match tab with
  | [] => []
  | (q, xs) :: tab' => if point_eqb pt q then xs ++ lookup_inj pt tab' else lookup_inj pt tab'
  end.

(* run the outgoing thread from PIdle until it is idle again; before the step at a yield point the
   actions injected there are executed.  sends: per peer (outcome, clock after the send). *)
Fixpoint drive (fuel : nat) (fixed : bool) (c : tcfg) (now : Z) (snap : note) (sends : list (Z * Z))
         (tab : list (point * list inj)) (started : bool) (g : gstate) : gstate :=
  match fuel with
  | O => g
  | S fuel' =>
      match g_pc g, started with
      | PIdle, true => g
      | _, _ =>
          let g1 := match point_of g with
                    | Some pt => mrun fixed c g (concat (map inj_acts (lookup_inj pt tab)))
                    | None => g
                    end in
          let '(t, outc) := match g_pc g1 with
                            | PSend k _ _ _ _ => let '(o, t') := nth k sends (0, now) in (t', o)
                            | _ => (now, 0)
                            end in
          drive fuel' fixed c now snap sends tab true (mstep fixed c g1 (OStep t snap outc))
      end
  end.

Inductive top :=
| TEnq (n : note)
| TIn (from : nat) (flags caddr : Z)
| TIter (now : Z) (snap : note) (sends : list (Z * Z)) (tab : list (point * list inj)).

Definition fuel_of (g : gstate) : nat := (8 * length (g_peers g) + 8)%nat.

Definition tstep (fixed : bool) (c : tcfg) (g : gstate) (a : top) : gstate :=
  match a with
  | TEnq n => mstep fixed c g (XEnq n)
  | TIn from flags caddr => mrun fixed c g (inj_acts (JIn from flags caddr))
  | TIter now snap sends tab => drive (fuel_of g) fixed c now snap sends tab false g
  end.

(* observable encoding: as Outgoing.enc_ev / enc_state *)
Definition enc_hev (e : hev) : list Z :=
  match e with
  | HAtt a =>
      if s_vis a
      then [-1; n2z (s_peer a); s_addr a; mode_code (s_mode a); b2z (s_flag a)] ++ enc_note (s_pay a)
      else [-3; n2z (s_peer a); s_addr a]
  | HReset _ => []
  end.
Definition enc_gstate (g : gstate) : list Z :=
  -2 :: n2z (length (g_queue g)) :: concat (map enc_peer (g_peers g)).

Fixpoint tobs (fixed : bool) (c : tcfg) (g : gstate) (acts : list top) : list Z :=
  match acts with
  | [] => []
  | a :: acts' =>
      let g' := tstep fixed c g a in
      let new := firstn (length (g_log g') - length (g_log g)) (g_log g') in
      concat (map enc_hev (rev new)) ++ enc_gstate g' ++ tobs fixed c g' acts'
  end.

(* correspondence entry point: order of the code (true = item taken inside the decision), configuration,
   initial (peers, queue), history *)
Definition run_C06 (inp : bool * tcfg * (list peer * list note) * list top) : list Z :=
  let '(fixed, c, (ps, q), acts) := inp in tobs fixed c (ginit ps q 0) acts.
