(* Model for C08: lock-acquisition facts, deadlock states, and the elimination checker.

   A fact (pair) says: "a thread of role [role] requested lock [req] while holding exactly the
   locks [held]".  Re-entrant re-acquisition of a lock the thread already holds is not a fact
   (threading.RLock lets the owner through).  [multi] says whether several threads may run this
   role at the same time (feeder threads, pool workers); a single-instance role (engine loop,
   dist main / incoming / outgoing) is one thread, so two of its facts can never be two threads.

   Locks and roles are integer codes (the harness prints the legend next to the facts).

   A deadlock state over a fact list ps is a cycle p_0 .. p_{k-1} (k >= 2) of facts from ps,
   taken by k distinct threads, whose held sets are pairwise disjoint (a lock has one owner:
   two facts that both hold some lock G cannot be simultaneous - this is what makes a "gate"
   lock such as the engine lock break cycles), and where p_i waits for a lock held by
   p_{(i+1) mod k}.

   No proofs here (Proofs/LocksProofs.v). *)
From Bobo Require Import Base.Prelude.

Record pair := mkPair { role : Z; multi : bool; held : list Z; req : Z }.

(* ---------------------------------------------------------------- specification (Prop) *)
Definition disjoint (a b : list Z) : Prop := forall x, In x a -> ~ In x b.

(* can facts p and q be at two different threads? *)
Definition two_threads (p q : pair) : Prop := role p <> role q \/ multi p = true.

Definition deadlock (ps cyc : list pair) : Prop :=
  (2 <= length cyc)%nat /\
  incl cyc ps /\
  (forall i j p q, nth_error cyc i = Some p -> nth_error cyc j = Some q -> i <> j ->
     disjoint (held p) (held q) /\ two_threads p q) /\
  (forall i p, nth_error cyc i = Some p ->
     exists q, nth_error cyc (S i mod length cyc) = Some q /\ In (req p) (held q)).

(* ---------------------------------------------------------------- checker (bool) *)
Definition memz (x : Z) (l : list Z) : bool := existsb (Z.eqb x) l.
Definition disjointb (a b : list Z) : bool := forallb (fun x => negb (memz x b)) a.

(* q can be what p waits for: q holds the lock p requests, both can hold their sets at the
   same time, and they can be two threads *)
Definition supports (p q : pair) : bool :=
  memz (req p) (held q) && disjointb (held p) (held q) && (negb (role p =? role q) || multi p).

Definition elim_step (ps : list pair) : list pair :=
  filter (fun p => existsb (supports p) ps) ps.

Fixpoint elim_n (n : nat) (ps : list pair) : list pair :=
  match n with
  | O => ps
  | S n' => elim_n n' (elim_step ps)
  end.

(* every round that is not yet a fixpoint removes at least one fact: length ps rounds suffice *)
Definition elim (ps : list pair) : list pair := elim_n (length ps) ps.

(* ---------------------------------------------------------------- correspondence entry point *)
(* input: facts as tuples; output: number of survivors followed by their positions in the input *)
Definition of_tuple (t : Z * bool * list Z * Z) : pair :=
  let '(r, m, h, q) := t in mkPair r m h q.

Definition zlist_eq (a b : list Z) : bool := zlist_eqb a b.
Definition pair_eqb (p q : pair) : bool :=
  (role p =? role q) && Bool.eqb (multi p) (multi q) && zlist_eq (held p) (held q) && (req p =? req q).

Fixpoint positions (n : Z) (ps surv : list pair) : list Z :=
  match ps with
  | [] => []
  | p :: ps' => if existsb (pair_eqb p) surv then n :: positions (n + 1) ps' surv
                else positions (n + 1) ps' surv
  end.

Definition run_C08 (ts : list (Z * bool * list Z * Z)) : list Z :=
  let ps := map of_tuple ts in
  let s := elim ps in
  Z.of_nat (length s) :: positions 0 ps s.

(* ---------------------------------------------------------------- the two situations of DESIGN 3 / D11 *)
(* lock codes used in the examples: 1 engine, 2 decider, 3 tcp local, 4 receiver, 5 producer
   role codes: 1 engine loop, 2 dist main, 3 feeder (multi) *)
Definition abba_facts : list pair :=
  [ mkPair 1 false [1; 2] 3      (* engine: holds engine+decider, on_decider_update wants tcp local *)
  ; mkPair 2 false [3] 2         (* dist main: run() holds tcp local, on_distributed_update wants decider *)
  ].

(* receiver -> decider -> producer -> receiver, every link taken on the engine thread under the
   engine lock (gate 1); a feeder holds nothing when it asks for the receiver lock *)
Definition gated_cycle_facts : list pair :=
  [ mkPair 1 false [1; 4] 2
  ; mkPair 1 false [1; 2] 5
  ; mkPair 1 false [1; 5] 4
  ; mkPair 3 true  [] 4
  ].

(* the same three links taken by three different roles without a common gate: a real 3-cycle *)
Definition ungated_cycle_facts : list pair :=
  [ mkPair 1 false [4] 2
  ; mkPair 2 false [2] 5
  ; mkPair 4 false [5] 4
  ].
