(* C04, concrete side: the status of a run in a decider state, the facts a message carries, and a cluster of
   deciders exchanging arbitrary messages made of previously announced facts.  No proofs here. *)
From Bobo Require Import Base.Prelude Base.History Model.Pattern Model.Run Model.Decider Model.Converge.

Section ConvergeC.
  Variable E : Type.
  (* the pattern (phenomenon, pattern name) each run identifier belongs to *)
  Variable owner : Z -> Z * Z.

  Definition cstatus (s : dstate E) (id : Z) : st :=
    if zmem id (ids_of (d_cc s)) then Completed
    else if zmem id (ids_of (d_ch s)) then Halted
    else match run_at (fst (owner id)) (snd (owner id)) id (d_runs s) with
         | Some r => Active (r_idx r) (hsize (r_hist r))
         | None => Absent
         end.

  (* what a message says, record by record *)
  Definition mfacts (i : nat) (m : note E) : list fact :=
    map (fun r => (i, s_id r, Completed)) (n_comp m)
    ++ map (fun r => (i, s_id r, Halted)) (n_halt m)
    ++ map (fun r => (i, s_id r, Active (s_idx r) (hsize (s_hist r)))) (n_upd m).

  (* a message a peer can send: every record names the pattern its run belongs to, and that pattern exists *)
  Definition wf_rec (cfg : config E) (r : rserial E) : Prop :=
    owner (s_id r) = (s_ph r, s_pat r) /\ exists p, get_pattern cfg (s_ph r) (s_pat r) = Some p.
  Definition wf_msg (cfg : config E) (m : note E) : Prop :=
    Forall (wf_rec cfg) (n_comp m) /\ Forall (wf_rec cfg) (n_halt m) /\ Forall (wf_rec cfg) (n_upd m).

  (* the finished-run memory has room for what this message may add *)
  Definition room (cfg : config E) (s : dstate E) (m : note E) : Prop :=
    (length (d_cc s) + length (n_comp m) <= c_maxcache cfg)%nat /\
    (length (d_ch s) + length (n_halt m) <= c_maxcache cfg)%nat.

  (* every active run sits in the bucket of its owner *)
  Definition owner_ok (rt : runtab E) : Prop :=
    forall ph pat r, In r (bucket ph pat rt) -> owner (r_id r) = (ph, pat).
End ConvergeC.
Arguments cstatus {E}. Arguments mfacts {E}. Arguments wf_rec {E}. Arguments wf_msg {E}. Arguments room {E}. Arguments owner_ok {E}.
