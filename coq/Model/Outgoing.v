(* Model of the outgoing side of bobocep/dist/tcp.py (BoboDistributedTCP._tcp_outgoing, _tcp_send,
   on_decider_update, the RESET handling at the end of _tcp_incoming_handle_client) and of
   bobocep/dist/devman.py (BoboDeviceManager).  No proofs here.

   One iteration of the loop body of _tcp_outgoing is split into the steps the code performs:
     decide      per-peer choice of the message type (inside the lock; reads last_comms, last_attempt,
                 queue emptiness, stash size)
     msg_flags   RESET flag read when the message is built
     pre_send    RESYNC clears the stash before it sends
     pop_queue   the queue item is taken once per iteration: at the first SYNC (pinned order) or at the start
                 of the iteration (repaired order, D9 fix) - see iter_init / iter_o, parameter pop_first
     payload     what is serialised
     post_send   bookkeeping after _tcp_send returned 0 / 1 / 2 and the clock was read again
   Run records are abstracted to their run ids (Z); a note is the three id lists completed/halted/updated.
   The clock, the socket outcomes, the decider's snapshot and messages handled by the incoming thread
   are explicit inputs. *)
From Bobo Require Import Base.Prelude.

Inductive mode := SYNC | PING | RESYNC.
Definition mode_code (m : mode) : Z := match m with SYNC => 0 | PING => 1 | RESYNC => 2 end.   (* _TYPE_* *)

Record note := mkNote { n_c : list Z; n_h : list Z; n_u : list Z }.
Definition empty_note : note := mkNote [] [] [].
Definition note_app (a b : note) : note := mkNote (n_c a ++ n_c b) (n_h a ++ n_h b) (n_u a ++ n_u b).

(* BoboDeviceManager: last_comms, last_attempt, flag_reset, the three stash lists, device address *)
Record peer := mkPeer { lc : Z; la : Z; fr : bool; st_c : list Z; st_h : list Z; st_u : list Z; addr : Z }.

(* Threshold convention: for each of the five comparisons of _tcp_outgoing, true = ">=" , false = ">".
   Order: comms_range/period_resync, attempt_range/attempt_resync, comms_range/period_ping,
   attempt_range/attempt_ping, attempt_range/attempt_stash. *)
Definition conv5 := (bool * bool * bool * bool * bool)%type.
Record tcfg := mkCfg { p_ping : Z; p_resync : Z; a_stash : Z; a_ping : Z; a_resync : Z; conv : conv5 }.
Definition cv_pr (c : tcfg) : bool := let '(x, _, _, _, _) := conv c in x.
Definition cv_ar (c : tcfg) : bool := let '(_, x, _, _, _) := conv c in x.
Definition cv_pp (c : tcfg) : bool := let '(_, _, x, _, _) := conv c in x.
Definition cv_ap (c : tcfg) : bool := let '(_, _, _, x, _) := conv c in x.
Definition cv_as (c : tcfg) : bool := let '(_, _, _, _, x) := conv c in x.

(* "x has reached threshold t" under a convention *)
Definition reached (ge : bool) (x t : Z) : bool := if ge then t <=? x else t <? x.

(* ---- devman.py ---- *)
Definition set_lc (v : Z) (p : peer) : peer := mkPeer (Z.max 0 v) (la p) (fr p) (st_c p) (st_h p) (st_u p) (addr p).
Definition set_la (v : Z) (p : peer) : peer := mkPeer (lc p) (Z.max 0 v) (fr p) (st_c p) (st_h p) (st_u p) (addr p).
Definition set_fr (b : bool) (p : peer) : peer := mkPeer (lc p) (la p) b (st_c p) (st_h p) (st_u p) (addr p).
Definition set_addr (a : Z) (p : peer) : peer := mkPeer (lc p) (la p) (fr p) (st_c p) (st_h p) (st_u p) a.
Definition clear_last (p : peer) : peer := mkPeer 0 0 (fr p) (st_c p) (st_h p) (st_u p) (addr p).
Definition stash (p : peer) : note := mkNote (st_c p) (st_h p) (st_u p).
Definition size_stash (p : peer) : Z := n2z (length (st_c p)) + n2z (length (st_h p)) + n2z (length (st_u p)).
Definition clear_stash (p : peer) : peer := mkPeer (lc p) (la p) (fr p) [] [] [] (addr p).
Definition append_stash (n : note) (p : peer) : peer :=
  mkPeer (lc p) (la p) (fr p) (st_c p ++ n_c n) (st_h p ++ n_h n) (st_u p ++ n_u n) (addr p).

(* ---- the per-peer decision (the if / elif / else inside the lock) ---- *)
Definition decide (c : tcfg) (now : Z) (queue_empty : bool) (p : peer) : option mode :=
  let comms_range := now - lc p in
  let attempt_range := now - la p in
  if reached (cv_pr c) comms_range (p_resync c) then
    if reached (cv_ar c) attempt_range (a_resync c) then Some RESYNC else None
  else if reached (cv_pp c) comms_range (p_ping c) && (queue_empty && (size_stash p =? 0)) then
    if reached (cv_ap c) attempt_range (a_ping c) then Some PING else None
  else
    if negb queue_empty || ((0 <? size_stash p) && reached (cv_as c) attempt_range (a_stash c))
    then Some SYNC else None.

(* outlist: (index of the peer among the other devices, in dict order; chosen type) *)
Fixpoint decide_from (c : tcfg) (now : Z) (qe : bool) (i : nat) (ps : list peer) : list (nat * mode) :=
  match ps with
  | [] => []
  | p :: ps' =>
      match decide c now qe p with
      | Some m => (i, m) :: decide_from c now qe (S i) ps'
      | None => decide_from c now qe (S i) ps'
      end
  end.
Definition decide_all (c : tcfg) (now : Z) (qe : bool) (ps : list peer) : list (nat * mode) :=
  decide_from c now qe 0%nat ps.

(* ---- building and sending one message ---- *)
Definition msg_flags (p : peer) : bool := fr p.                          (* _FLAG_RESET iff d.flag_reset *)

Definition pre_send (m : mode) (p : peer) : peer :=
  match m with RESYNC => clear_stash p | _ => p end.

(* cache_sync: taken from the queue once per iteration, at the first SYNC; an empty note if the queue is empty *)
Definition pop_queue (cache : option note) (q : list note) : note * list note :=
  match cache with
  | Some n => (n, q)
  | None => match q with n :: q' => (n, q') | [] => (empty_note, []) end
  end.

Definition payload (m : mode) (snap cache : note) (p : peer) : note :=
  match m with
  | RESYNC => snap
  | PING => empty_note
  | SYNC => note_app cache (stash p)
  end.

(* err: 0 success, 1 timeout, 2 system error (the return value of _tcp_send); now' = the clock after it *)
Definition post_send (m : mode) (flagged : bool) (err : nat) (now' : Z) (cache : note) (p : peer) : peer :=
  let p1 :=
    match err with
    | O =>
        let p0 := match m with SYNC => clear_stash p | _ => p end in
        let p0' := set_lc now' p0 in
        if flagged then set_fr false p0' else p0'
    | _ =>
        match m with SYNC => append_stash cache p | _ => p end
    end in
  set_la now' p1.

Definition send_peer (m : mode) (flagged : bool) (err : nat) (now' : Z) (cache : note) (p : peer) : peer :=
  post_send m flagged err now' cache (pre_send m p).

(* Scripted outcome of the socket layer for one destination:
   0 delivered; 1 connect times out; 2 connect fails (OSError); 3 sendall times out after the bytes were
   handed over; 4 sendall fails (OSError) after the bytes were handed over. *)
Definition err_of (outcome : Z) : nat :=
  if outcome =? 0 then 0%nat else if (outcome =? 1) || (outcome =? 3) then 1%nat else 2%nat.
Definition visible (outcome : Z) : bool := (outcome =? 0) || (outcome =? 3) || (outcome =? 4).

(* ---- log ---- *)
Record attempt := mkAt {
  at_peer : nat; at_mode : mode;
  at_dec : Z;          (* clock at the decision (start of the iteration) *)
  at_done : Z;         (* clock after _tcp_send returned *)
  at_qne : bool;       (* the outgoing queue was non-empty at the decision *)
  at_flag : bool;      (* the message carried RESET *)
  at_err : nat;
  at_vis : bool;       (* sendall was reached: the message is observable at the socket layer *)
  at_addr : Z;         (* destination address *)
  at_pay : note }.
Inductive ev := EAtt (a : attempt) | EReset (i : nat).
Definition ev_peer (e : ev) : nat := match e with EAtt a => at_peer a | EReset i => i end.

(* ---- one instance, sequential ---- *)
Record ostate := mkO { o_peers : list peer; o_queue : list note }.
Record istate := mkI { i_peers : list peer; i_queue : list note; i_cache : option note }.

Fixpoint set_nth {A} (i : nat) (x : A) (l : list A) : list A :=
  match l, i with
  | [], _ => []
  | _ :: l', O => x :: l'
  | y :: l', S i' => y :: set_nth i' x l'
  end.

(* sends: per peer index (outcome, clock after the send); a missing entry means delivered, clock unchanged *)
Definition send_one (now : Z) (qe : bool) (snap : note) (sends : list (Z * Z))
           (s : istate) (im : nat * mode) : istate * list ev :=
  let (i, m) := im in
  match nth_error (i_peers s) i with
  | None => (s, [])
  | Some p =>
      let '(outc, now') := nth i sends (0, now) in
      let flagged := msg_flags p in
      let p1 := pre_send m p in
      let '(cache, q') :=
        match m with
        | SYNC => let (n, q') := pop_queue (i_cache s) (i_queue s) in (Some n, q')
        | _ => (i_cache s, i_queue s)
        end in
      let cn := match cache with Some n => n | None => empty_note end in
      let err := err_of outc in
      let p2 := post_send m flagged err now' cn p1 in
      (mkI (set_nth i p2 (i_peers s)) q' cache,
       [EAtt (mkAt i m now now' (negb qe) flagged err (visible outc) (addr p) (payload m snap cn p1))])
  end.

Fixpoint send_all (now : Z) (qe : bool) (snap : note) (sends : list (Z * Z))
         (s : istate) (ol : list (nat * mode)) : istate * list ev :=
  match ol with
  | [] => (s, [])
  | im :: ol' =>
      let (s1, e1) := send_one now qe snap sends s im in
      let (s2, e2) := send_all now qe snap sends s1 ol' in
      (s2, e1 ++ e2)
  end.

Definition is_nil {A} (l : list A) : bool := match l with [] => true | _ => false end.

(* The iteration exists in two step orders (the property does not fix which):
     pop_first = false  the pinned commit: Queue.empty() is read at the decision, the item is taken at the
                        first SYNC (pop_queue), so it stays queued when no SYNC goes out;
     pop_first = true   the repaired order (fix for D9): the item is taken ONCE at the start of the iteration,
                        inside the locked decision (cache_sync = get_nowait() if not empty; queue_empty =
                        cache_sync is None), whether or not a SYNC goes out. *)
Definition iter_init (pop_first : bool) (s : ostate) : istate :=
  if pop_first
  then match o_queue s with
       | n :: q' => mkI (o_peers s) q' (Some n)
       | [] => mkI (o_peers s) [] None
       end
  else mkI (o_peers s) (o_queue s) None.

(* one iteration of the while-loop body *)
Definition iter_o (pop_first : bool) (c : tcfg) (now : Z) (snap : note) (sends : list (Z * Z)) (s : ostate)
  : ostate * list ev :=
  let qe := is_nil (o_queue s) in
  let ol := decide_all c now qe (o_peers s) in
  let (s', es) := send_all now qe snap sends (iter_init pop_first s) ol in
  (mkO (i_peers s') (i_queue s'), es).

Definition iter : tcfg -> Z -> note -> list (Z * Z) -> ostate -> ostate * list ev := iter_o false.

(* a message from peer `from` handled by _tcp_incoming_handle_client (authenticated, well-formed):
   the address is refreshed, RESET clears the contact times *)
Definition in_handle (from : nat) (flags : Z) (caddr : Z) (s : ostate) : ostate * list ev :=
  match nth_error (o_peers s) from with
  | None => (s, [])
  | Some p =>
      let p1 := if caddr =? addr p then p else set_addr caddr p in
      if Z.land flags 1 =? 1
      then (mkO (set_nth from (clear_last p1) (o_peers s)) (o_queue s), [EReset from])
      else (mkO (set_nth from p1 (o_peers s)) (o_queue s), [])
  end.

Inductive oact :=
| AEnq (n : note)                                              (* on_decider_update(local=True) *)
| AIter (now : Z) (snap : note) (sends : list (Z * Z))         (* one iteration of _tcp_outgoing *)
| AIn (from : nat) (typ flags caddr : Z).                      (* one message handled by the incoming thread *)

Definition step_o (pop_first : bool) (c : tcfg) (s : ostate) (a : oact) : ostate * list ev :=
  match a with
  | AEnq n => (mkO (o_peers s) (o_queue s ++ [n]), [])
  | AIter now snap sends => iter_o pop_first c now snap sends s
  | AIn from _ flags caddr => in_handle from flags caddr s
  end.
Definition step : tcfg -> ostate -> oact -> ostate * list ev := step_o false.

(* run a history; the log is accumulated newest first *)
Fixpoint run_o (pop_first : bool) (c : tcfg) (s : ostate) (acts : list oact) (rl : list ev) : ostate * list ev :=
  match acts with
  | [] => (s, rl)
  | a :: acts' => let (s', es) := step_o pop_first c s a in run_o pop_first c s' acts' (rev es ++ rl)
  end.
Definition log_of_o (pop_first : bool) (c : tcfg) (s : ostate) (acts : list oact) : list ev :=
  rev (snd (run_o pop_first c s acts [])).

(* the pinned order under the names used since the first version *)
Definition run : tcfg -> ostate -> list oact -> list ev -> ostate * list ev := run_o false.
Definition log_of (c : tcfg) (s : ostate) (acts : list oact) : list ev := rev (snd (run c s acts [])).

(* ---- observable encoding for the correspondence ---- *)
Definition enc_list (l : list Z) : list Z := n2z (length l) :: l.
Definition enc_note (n : note) : list Z := enc_list (n_c n) ++ enc_list (n_h n) ++ enc_list (n_u n).
Definition enc_peer (p : peer) : list Z :=
  [lc p; la p; b2z (fr p)] ++ enc_list (st_c p) ++ enc_list (st_h p) ++ enc_list (st_u p) ++ [addr p].
Definition enc_ev (e : ev) : list Z :=
  match e with
  | EAtt a =>
      if at_vis a
      then [-1; n2z (at_peer a); at_addr a; mode_code (at_mode a); b2z (at_flag a)] ++ enc_note (at_pay a)
      else [-3; n2z (at_peer a); at_addr a]
  | EReset _ => []
  end.
Definition enc_state (s : ostate) : list Z :=
  -2 :: n2z (length (o_queue s)) :: concat (map enc_peer (o_peers s)).

Fixpoint obs_o (pop_first : bool) (c : tcfg) (s : ostate) (acts : list oact) : list Z :=
  match acts with
  | [] => []
  | a :: acts' =>
      let (s', es) := step_o pop_first c s a in
      concat (map enc_ev es) ++ enc_state s' ++ obs_o pop_first c s' acts'
  end.
Definition obs : tcfg -> ostate -> list oact -> list Z := obs_o false.

(* correspondence entry points: [step order,] configuration, initial (peers, queue), history *)
Definition run_C15o (inp : bool * tcfg * (list peer * list note) * list oact) : list Z :=
  let '(pf, c, (ps, q), acts) := inp in obs_o pf c (mkO ps q) acts.
Definition run_C15 (inp : tcfg * (list peer * list note) * list oact) : list Z :=
  let '(c, (ps, q), acts) := inp in obs c (mkO ps q) acts.
