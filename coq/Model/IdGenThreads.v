(* C16, threads: any number of threads calling BoboGenEventIDUnique.generate() on one generator, interleaved at the
   granularity of the steps of the method:

      with self._lock:                     acquire (only when the lock is free)
          now = max(int(time()), _last)    update  (reads the clock, writes _last/_count; remembers its own (now, count))
          ... _count / _last updated ...
          return "{}_{}".format(...)       format  (builds the identifier)  then release

   `inside = true` is the code as it is: the identifier is built from the values computed under the lock.
   `inside = false` is the variant in which the lock is released first and the identifier is built afterwards from
   the thread's own `now` and the SHARED counter as it is then (a "shorter critical section").  No proofs here. *)
From Bobo Require Import Base.Prelude Model.IdGen.

Inductive tpc :=
| TIdle                      (* between two calls *)
| TAcq                       (* holds the lock, nothing done yet *)
| TUpd (id : Z * Z)          (* holds the lock, shared state updated, own (now, count) remembered *)
| TOut (now : Z).            (* [inside = false] lock released, identifier not built yet *)

Record tstate := mkT { t_lock : option nat; t_sh : gstate; t_pcs : list tpc; t_clk : list Z; t_out : list (Z * Z) }.

Definition t_init (n : nat) (clk : list Z) : tstate := mkT None g_init (repeat TIdle n) clk [].

Definition set_pc (l : list tpc) (t : nat) (p : tpc) : list tpc := firstn t l ++ p :: skipn (S t) l.

(* one step of thread t; a thread that cannot move (lock taken, clock exhausted, no such thread) leaves the state as it is *)
Definition tstep (inside : bool) (s : tstate) (t : nat) : tstate :=
  match nth_error (t_pcs s) t with
  | None => s
  | Some TIdle =>
    match t_lock s with
    | None => mkT (Some t) (t_sh s) (set_pc (t_pcs s) t TAcq) (t_clk s) (t_out s)
    | Some _ => s
    end
  | Some TAcq =>
    match t_clk s with
    | [] => s
    | c :: rest => let '(sh', id) := gen (t_sh s) c in mkT (t_lock s) sh' (set_pc (t_pcs s) t (TUpd id)) rest (t_out s)
    end
  | Some (TUpd id) =>
    if inside
    then mkT None (t_sh s) (set_pc (t_pcs s) t TIdle) (t_clk s) (t_out s ++ [id])
    else mkT None (t_sh s) (set_pc (t_pcs s) t (TOut (fst id))) (t_clk s) (t_out s)
  | Some (TOut now) =>
    mkT (t_lock s) (t_sh s) (set_pc (t_pcs s) t TIdle) (t_clk s) (t_out s ++ [(now, g_count (t_sh s))])
  end.

Definition trun (inside : bool) (s : tstate) (sched : list nat) : tstate := fold_left (tstep inside) sched s.

(* the readings consumed so far, given the initial clock *)
Definition consumed (clk0 : list Z) (s : tstate) : list Z := firstn (length clk0 - length (t_clk s)) clk0.

(* correspondence entry point: (inside, number of threads, clock, schedule) -> identifiers in the order they were built *)
Definition run_C16_threads (inp : (bool * nat) * (list Z * list nat)) : list Z :=
  let '((inside, n), (clk, sched)) := inp in
  concat (map (fun id => [fst id; snd id]) (t_out (trun inside (t_init n clk) sched))).
