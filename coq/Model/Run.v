(* Model of bobocep/cep/engine/decider/run.py : BoboRun.process and helpers.
   Python evaluation order is part of the definition.  No proofs here. *)
From Bobo Require Import Base.Prelude Base.History Model.Pattern.

Inductive exn := EPred | EIndex | EDupRun.
Inductive res (A : Type) := Ok (a : A) | Exn (k : exn).
Arguments Ok {A}. Arguments Exn {A}.

Section Run.
  Variable E : Type.
  Notation pred := (pred E).
  Notation block := (block E).
  Notation pattern := (pattern E).
  Notation history := (history E).

  (* any(p.evaluate(e, h) for p in preds): generator, stops at the first True; an exception propagates *)
  Fixpoint any_sc (ps : list pred) (e : E) (h : history) : pres :=
    match ps with
    | [] => PFalse
    | p :: ps' => match p e h with
                  | PTrue => PTrue
                  | PRaise => PRaise
                  | PFalse => any_sc ps' e h
                  end
    end.

  (* [p.evaluate(e, h) for p in preds]: every predicate is evaluated; None = one of them raised *)
  Fixpoint eval_all (ps : list pred) (e : E) (h : history) : option (list bool) :=
    match ps with
    | [] => Some []
    | p :: ps' => match p e h with
                  | PRaise => None
                  | r => match eval_all ps' e h with
                         | None => None
                         | Some bs => Some ((match r with PTrue => true | _ => false end) :: bs)
                         end
                  end
    end.

  Record run := mkRun {
    r_id : Z; r_ph : Z; r_pat : pattern; r_idx : nat; r_hist : history; r_halted : bool }.

  Definition nblocks (r : run) : nat := length (p_blocks (r_pat r)).
  (* is_complete: block_index > len(blocks) - 1 *)
  Definition is_complete (r : run) : bool := Nat.leb (nblocks r) (r_idx r).

  Definition halt (r : run) : run :=
    mkRun (r_id r) (r_ph r) (r_pat r) (r_idx r) (r_hist r) true.

  (* _add_event *)
  Definition add_event (r : run) (e : E) (b : block) : run :=
    mkRun (r_id r) (r_ph r) (r_pat r) (r_idx r) (hadd (b_group b) e (r_hist r)) (r_halted r).

  (* _move_forward: add event, index := temp_index + 1, halted := is_complete() *)
  Definition move_forward (r : run) (e : E) (b : block) (i : nat) : run :=
    mkRun (r_id r) (r_ph r) (r_pat r) (S i) (hadd (b_group b) e (r_hist r))
          (Nat.leb (nblocks r) (S i)).

  (* _process_loop / _process_not_loop over the blocks from temp_index on.
     bs = blocks[temp_index:], i = temp_index.  [] = IndexError on pattern.blocks[temp_index]. *)
  Fixpoint walk (bs : list block) (i : nat) (r : run) (e : E) : res (run * bool) :=
    match bs with
    | [] => Exn EIndex
    | b :: rest =>
      match any_sc (b_preds b) e (r_hist r) with
      | PRaise => Exn EPred
      | m =>
        let m := match m with PTrue => true | _ => false end in
        if b_loop b then
          if m then Ok (add_event r e b, true)
          else if b_strict b then Ok (halt r, true)
          else walk rest (S i) r e
        else if b_neg b then
          if m then (if b_strict b then Ok (halt r, true) else Ok (r, false))
          else Ok (move_forward r e b i, true)
        else if b_opt b then
          if m then Ok (move_forward r e b i, true)
          else walk rest (S i) r e
        else
          if m then Ok (move_forward r e b i, true)
          else if b_strict b then Ok (halt r, true) else Ok (r, false)
      end
    end.

  (* BoboRun.process *)
  Definition process (r : run) (e : E) : res (run * bool) :=
    if r_halted r then Ok (r, false) else
    match eval_all (p_pre (r_pat r)) e (r_hist r) with
    | None => Exn EPred
    | Some pres_ =>
      if negb (forallb (fun b => b) pres_) then Ok (halt r, true) else
      match eval_all (p_halt (r_pat r)) e (r_hist r) with
      | None => Exn EPred
      | Some halts =>
        if existsb (fun b => b) halts then Ok (halt r, true) else
        walk (skipn (r_idx r) (p_blocks (r_pat r))) (r_idx r) r e
      end
    end.

  (* BoboRun(...) as created by the decider for a first-block match: index 1, history {group:[e]},
     halted = is_complete() *)
  Definition new_run (id ph : Z) (p : pattern) (e : E) : run :=
    let g := match p_blocks p with b0 :: _ => b_group b0 | [] => 0 end in
    mkRun id ph p 1 [(g, [e])] (Nat.leb (length (p_blocks p)) 1).

  (* BoboRun(...) created from a remote record *)
  Definition remote_run (id ph : Z) (p : pattern) (idx : nat) (h : history) : run :=
    mkRun id ph p idx h (Nat.leb (length (p_blocks p)) idx).

  (* set_block: index and history only *)
  Definition set_block (r : run) (idx : nat) (h : history) : run :=
    mkRun (r_id r) (r_ph r) (r_pat r) idx h (r_halted r).
End Run.

Arguments mkRun {E}. Arguments r_id {E}. Arguments r_ph {E}. Arguments r_pat {E}.
Arguments r_idx {E}. Arguments r_hist {E}. Arguments r_halted {E}.
Arguments any_sc {E}. Arguments eval_all {E}. Arguments walk {E}. Arguments process {E}.
Arguments halt {E}. Arguments add_event {E}. Arguments move_forward {E}. Arguments is_complete {E}.
Arguments nblocks {E}. Arguments new_run {E}. Arguments remote_run {E}. Arguments set_block {E}.
