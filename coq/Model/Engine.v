(* Model of bobocep/cep/engine/engine.py (BoboEngine.update), receiver.py, producer.py, forwarder.py and the
   blocking action handler, wired as BoboEngine.__init__ does:
     receiver -> decider -> producer -> {forwarder, receiver},  forwarder -> receiver.
   Queues are FIFO lists; the event-id and timestamp generators are one counter (the harness uses
   deterministic generators that advance together).  Ghost logs record what happened.  No proofs here. *)
From Bobo Require Import Base.Prelude Base.History Model.Pattern Model.Run Model.Decider Model.PredLang.

Inductive item := IData (d : Z) | IEvent (e : ev).

Record action := mkAct { a_name : Z; a_ok : bool; a_data : Z }.
Record hresp := mkResp { h_act : Z; h_cev : ev; h_ok : bool; h_data : Z }.

Record ecfg := mkECfg {
  t_r : nat; t_d : nat; t_p : nat; t_f : nat; early : bool; local_only : bool;
  datagen : Z -> option Z;            (* phenomenon -> data carried by its complex events (None = no datagen) *)
  act : Z -> option action }.         (* phenomenon -> its action *)

Record ghost := mkGhost {
  g_entry : list item;                (* everything ever put into the receiver queue, in order *)
  g_seen : list ev;                   (* events taken by the decider, in order *)
  g_completed : list (rserial ev * bool);   (* completed records notified to the producer (with local flag) *)
  g_complex : list (ev * rserial ev * bool); (* complex events produced, with the record and local flag *)
  g_fwd_in : list ev;                 (* complex events accepted by the forwarder *)
  g_handled : list ev;                (* complex events taken by the forwarder *)
  g_exec : list hresp;                (* action executions, as the response each one produced *)
  g_aevents : list (ev * hresp) }.    (* action events produced, with the response they report *)

Record estate := mkE {
  q_r : list item; q_d : list ev; q_p : list (rserial ev * bool); q_f : list ev; q_h : list hresp;
  dec : dstate ev; e_next : Z; gh : ghost }.

Definition gh0 : ghost := mkGhost [] [] [] [] [] [] [] [].
Definition e_init : estate := mkE [] [] [] [] [] d_init 0 gh0.

Definition upd_gh (s : estate) (g : ghost) : estate :=
  mkE (q_r s) (q_d s) (q_p s) (q_f s) (q_h s) (dec s) (e_next s) g.

(* BoboReceiver.add_data (also used for fed-back complex and action events) *)
Definition add_item (s : estate) (it : item) : estate :=
  let g := gh s in
  mkE (q_r s ++ [it]) (q_d s) (q_p s) (q_f s) (q_h s) (dec s) (e_next s)
      (mkGhost (g_entry g ++ [it]) (g_seen g) (g_completed g) (g_complex g) (g_fwd_in g) (g_handled g) (g_exec g) (g_aevents g)).

(* BoboReceiver.update (validator accepts everything; no event generator) *)
Definition recv_update (s : estate) : estate * bool :=
  match q_r s with
  | [] => (s, false)
  | it :: rest =>
    match it with
    | IData d =>
      (* `return data is not None or ...`: a datum that IS None (code -1) is processed like any other, but the call
         reports "nothing done", which ends a `while task.update()` loop early; the rest waits for the next cycle *)
      (mkE rest (q_d s ++ [mkEv (e_next s) (e_next s) 0 d 0 0]) (q_p s) (q_f s) (q_h s) (dec s) (e_next s + 1) (gh s),
       negb (d =? -1))
    | IEvent e =>
      (mkE rest (q_d s ++ [e]) (q_p s) (q_f s) (q_h s) (dec s) (e_next s) (gh s), true)
    end
  end.

(* BoboDecider.update + BoboProducer.on_decider_update (completed records, local=True) *)
Definition dec_update (cfg : config ev) (s : estate) : estate * bool :=
  match q_d s with
  | [] => (s, false)
  | e :: rest =>
    let g := gh s in
    let g1 := mkGhost (g_entry g) (g_seen g ++ [e]) (g_completed g) (g_complex g) (g_fwd_in g) (g_handled g) (g_exec g) (g_aevents g) in
    match local_step cfg (dec s) e with
    | Exn _ => (mkE (q_r s) rest (q_p s) (q_f s) (q_h s) (dec s) (e_next s) g1, false)
    | Ok (d', n) =>
      let recs := map (fun r => (r, true)) (n_comp n) in
      let g2 := mkGhost (g_entry g1) (g_seen g1) (g_completed g1 ++ recs) (g_complex g1) (g_fwd_in g1) (g_handled g1) (g_exec g1) (g_aevents g1) in
      (mkE (q_r s) rest (q_p s ++ recs) (q_f s) (q_h s) d' (e_next s) g2,
       negb (match n_comp n, n_halt n, n_upd n with [], [], [] => true | _, _, _ => false end))
    end
  end.

(* a remote note handed to the decider (on_distributed_update): completed records reach the producer with local=False *)
Definition remote_note (cfg : config ev) (s : estate) (m : note ev) : estate :=
  let '(d', n) := remote_apply cfg (dec s) m in
  let g := gh s in
  let recs := map (fun r => (r, false)) (n_comp n) in
  mkE (q_r s) (q_d s) (q_p s ++ recs) (q_f s) (q_h s) d' (e_next s)
      (mkGhost (g_entry g) (g_seen g) (g_completed g ++ recs) (g_complex g) (g_fwd_in g) (g_handled g) (g_exec g) (g_aevents g)).

(* BoboProducer.update: complex event to the forwarder (if local, or local_only is off), then to the receiver *)
Definition prod_update (c : ecfg) (s : estate) : estate * bool :=
  match q_p s with
  | [] => (s, false)
  | (r, loc) :: rest =>
    let ce := mkEv (e_next s) (e_next s) 1 (match datagen c (s_ph r) with Some d => d | None => -1 end) (s_ph r) (s_pat r) in
    let g := gh s in
    let tofwd := loc || negb (local_only c) in
    let g1 := mkGhost (g_entry g ++ [IEvent ce]) (g_seen g) (g_completed g) (g_complex g ++ [(ce, r, loc)])
                      (if tofwd then g_fwd_in g ++ [ce] else g_fwd_in g) (g_handled g) (g_exec g) (g_aevents g) in
    (mkE (q_r s ++ [IEvent ce]) (q_d s) rest (if tofwd then q_f s ++ [ce] else q_f s) (q_h s) (dec s) (e_next s + 1) g1, true)
  end.

(* BoboForwarder.update with the blocking handler: _update_handler then _update_responses *)
Definition fwd_update (c : ecfg) (s : estate) : estate * bool :=
  let '(s1, handled) :=
    match q_f s with
    | [] => (s, false)
    | ce :: rest =>
      match act c (ev_ph ce) with
      | Some a =>
        let g := gh s in
        (mkE (q_r s) (q_d s) (q_p s) rest (q_h s ++ [mkResp (a_name a) ce (a_ok a) (a_data a)]) (dec s) (e_next s)
             (mkGhost (g_entry g) (g_seen g) (g_completed g) (g_complex g) (g_fwd_in g) (g_handled g ++ [ce])
                      (g_exec g ++ [mkResp (a_name a) ce (a_ok a) (a_data a)]) (g_aevents g)),
         true)
      | None =>
        let g := gh s in
        (mkE (q_r s) (q_d s) (q_p s) rest (q_h s) (dec s) (e_next s)
             (mkGhost (g_entry g) (g_seen g) (g_completed g) (g_complex g) (g_fwd_in g) (g_handled g ++ [ce]) (g_exec g) (g_aevents g)),
         true)
      end
    end in
  match q_h s1 with
  | [] => (s1, handled)
  | h :: rest =>
    let ae := mkEv (e_next s1) (e_next s1) 2 (h_data h) (ev_ph (h_cev h)) (ev_pat (h_cev h)) in
    let g := gh s1 in
    (mkE (q_r s1 ++ [IEvent ae]) (q_d s1) (q_p s1) (q_f s1) rest (dec s1) (e_next s1 + 1)
         (mkGhost (g_entry g ++ [IEvent ae]) (g_seen g) (g_completed g) (g_complex g) (g_fwd_in g) (g_handled g) (g_exec g) (g_aevents g ++ [(ae, h)])),
     true)
  end.

(* `while task.update(): pass` and `for i in range(times): if not task.update() and early_stop: break`.
   fuel bounds the while loop; it is chosen by engine_update as (queue length + 1) for tasks whose update
   consumes one queue item per True, which the proofs show is enough. *)
Fixpoint loop_while (f : estate -> estate * bool) (fuel : nat) (s : estate) : estate :=
  match fuel with
  | O => s
  | S k => let '(s', b) := f s in if b then loop_while f k s' else s'
  end.

Fixpoint loop_times (f : estate -> estate * bool) (early : bool) (n : nat) (s : estate) : estate :=
  match n with
  | O => s
  | S k => let '(s', b) := f s in if negb b && early then s' else loop_times f early k s'
  end.

Definition run_task (f : estate -> estate * bool) (times : nat) (early : bool) (fuel : nat) (s : estate) : estate :=
  match times with O => loop_while f fuel s | _ => loop_times f early times s end.

(* BoboEngine.update: receiver, decider, producer, forwarder *)
Definition engine_update (cfg : config ev) (c : ecfg) (s : estate) : estate :=
  let s1 := run_task recv_update (t_r c) (early c) (S (length (q_r s))) s in
  let s2 := run_task (dec_update cfg) (t_d c) (early c) (S (length (q_d s1))) s1 in
  let s3 := run_task (prod_update c) (t_p c) (early c) (S (length (q_p s2))) s2 in
  let s4 := run_task (fwd_update c) (t_f c) (early c) (S (length (q_f s3) + length (q_h s3) + length (q_f s3))) s3 in
  s4.

(* ---------- correspondence entry point ---------- *)
Inductive eop := EAdd (d : Z) | EUpdate | ERemote (m : note ev).

Record edesc := ED { ed_cfg : cdesc; ed_tr : nat; ed_td : nat; ed_tp : nat; ed_tf : nat; ed_early : bool;
                     ed_local_only : bool; ed_datagen : list (Z * Z); ed_act : list (Z * (Z * bool * Z)) }.

Definition mk_ecfg (d : edesc) : ecfg :=
  mkECfg (ed_tr d) (ed_td d) (ed_tp d) (ed_tf d) (ed_early d) (ed_local_only d)
         (fun ph => al_get ph (ed_datagen d))
         (fun ph => match al_get ph (ed_act d) with Some (n, ok, dt) => Some (mkAct n ok dt) | None => None end).

Definition enc_ev (e : ev) : list Z := [ev_id e; ev_kind e; ev_data e; ev_ph e; ev_pat e].
Definition enc_estate (s : estate) : list Z :=
  [n2z (length (q_r s)); n2z (length (q_d s)); n2z (length (q_p s)); n2z (length (q_f s)); n2z (length (q_h s))]
  ++ enc_list enc_ev (g_seen (gh s) ++ q_d s)   (* the stream published by the receiver *)
  ++ enc_list (fun x => enc_ev (fst (fst x)) ++ [b2z (snd x)]) (g_complex (gh s))
  ++ enc_list (fun x => h_act x :: [ev_id (h_cev x)]) (g_exec (gh s))
  ++ enc_list (fun x => enc_ev (fst x) ++ [h_act (snd x); b2z (h_ok (snd x)); ev_id (h_cev (snd x))]) (g_aevents (gh s)).

Fixpoint run_eops (cfg : config ev) (c : ecfg) (s : estate) (ops : list eop) : list Z :=
  match ops with
  | [] => enc_estate s
  | EAdd d :: rest => run_eops cfg c (add_item s (IData d)) rest
  | EUpdate :: rest => let s' := engine_update cfg c s in
                       (-5) :: [n2z (length (q_r s')); n2z (length (q_d s')); n2z (length (q_p s')); n2z (length (q_f s')); n2z (length (q_h s'))]
                       ++ run_eops cfg c s' rest
  | ERemote m :: rest => run_eops cfg c (remote_note cfg s m) rest
  end.

Definition run_engine (inp : edesc * list eop) : list Z :=
  run_eops (mk_cfg (ed_cfg (fst inp))) (mk_ecfg (fst inp)) e_init (snd inp).
