(* Model of bobocep/cep/phenom/pattern/pattern.py (BoboPatternBlock, BoboPattern constructors)
   and builder.py (BoboPatternBuilder).  No proofs here. *)
From Bobo Require Import Base.Prelude Base.History.

Section Pattern.
  Variable E : Type.
  Definition pred := E -> history E -> pres.

  Record block := mkBlock {
    b_preds : list pred; b_group : Z;
    b_strict : bool; b_loop : bool; b_neg : bool; b_opt : bool }.

  Record pattern := mkPattern {
    p_name : Z; p_blocks : list block; p_pre : list pred; p_halt : list pred; p_single : bool }.

  (* BoboPatternBlock.__init__: which check fires first is part of the model
     1 = no predicates, 2 = strict and optional, 3 = loop and (negated or optional),
     4 = not loop and negated and optional, 0 = accepted *)
  Definition block_ctor_code (npreds : nat) (strict loop neg opt : bool) : Z :=
    if Nat.eqb npreds 0 then 1
    else if strict && opt then 2
    else if loop && (neg || opt) then 3
    else if negb loop && (neg && opt) then 4
    else 0.

  Definition wf_flags (strict loop neg opt : bool) : bool :=
    negb (strict && opt) && negb (loop && (neg || opt)) && negb (neg && opt).

  Definition wf_block (b : block) : bool :=
    negb (Nat.eqb (length (b_preds b)) 0) && wf_flags (b_strict b) (b_loop b) (b_neg b) (b_opt b).

  (* first / last block may be neither negated, optional nor looping *)
  Definition plain_end (b : block) : bool := negb (b_neg b) && negb (b_opt b) && negb (b_loop b).

  (* BoboPattern.__init__ error code: 1 empty name (name length is an input), 2 no blocks,
     3/4/5 first block negated/optional/loop, 6/7/8 last block negated/optional/loop *)
  Definition pattern_ctor_code (namelen : nat) (bs : list block) : Z :=
    if Nat.eqb namelen 0 then 1 else
    match bs with
    | [] => 2
    | b0 :: _ =>
      if b_neg b0 then 3 else if b_opt b0 then 4 else if b_loop b0 then 5 else
      let bl := last bs b0 in
      if b_neg bl then 6 else if b_opt bl then 7 else if b_loop bl then 8 else 0
    end.

  Definition wf_pattern (p : pattern) : bool :=
    match p_blocks p with
    | [] => false
    | b0 :: _ => forallb wf_block (p_blocks p) && plain_end b0 && plain_end (last (p_blocks p) b0)
    end.

  (* ---- builder ---- *)
  Inductive bop :=
  | BNext (p : pred) (group : Z) (times : Z) (loop : bool)
  | BNotNext (p : pred) (group : Z) (times : Z)
  | BFollowedBy (p : pred) (group : Z) (times : Z) (loop : bool) (optional : bool)
  | BNotFollowedBy (p : pred) (group : Z) (times : Z)
  | BFollowedByAny (ps : list pred) (group : Z) (times : Z) (loop : bool) (optional : bool)
  | BNotFollowedByAny (ps : list pred) (group : Z) (times : Z)
  | BPrecondition (p : pred)
  | BHaltcondition (p : pred).

  (* range(max(times, 1)) *)
  Definition reps (times : Z) : nat := Z.to_nat (Z.max times 1).

  Record bstate := mkB { bs_blocks : list block; bs_pre : list pred; bs_halt : list pred }.

  (* one builder call; None = BoboPatternBlockError raised by the block constructor
     (the builder state is then as it was before the call, except for blocks already appended:
      the check is the same for every repetition, so the first repetition raises) *)
  Definition bstep (s : bstate) (o : bop) : option bstate :=
    let add ps g strict loop neg opt times :=
      if Z.eqb (block_ctor_code (length ps) strict loop neg opt) 0
      then Some (mkB (bs_blocks s ++ repeat (mkBlock ps g strict loop neg opt) (reps times)) (bs_pre s) (bs_halt s))
      else None in
    match o with
    | BNext p g t l => add [p] g true l false false t
    | BNotNext p g t => add [p] g true false true false t
    | BFollowedBy p g t l o => add [p] g false l false o t
    | BNotFollowedBy p g t => add [p] g false false true false t
    | BFollowedByAny ps g t l o => add ps g false l false o t
    | BNotFollowedByAny ps g t => add ps g false false true false t
    | BPrecondition p => Some (mkB (bs_blocks s) (bs_pre s ++ [p]) (bs_halt s))
    | BHaltcondition p => Some (mkB (bs_blocks s) (bs_pre s) (bs_halt s ++ [p]))
    end.

  Fixpoint bsteps (s : bstate) (os : list bop) : option bstate :=
    match os with
    | [] => Some s
    | o :: os' => match bstep s o with Some s' => bsteps s' os' | None => None end
    end.

  (* builder calls followed by generate(): Some pattern, or None with the error stage
     (1 = a block constructor raised, 2 = the pattern constructor raised) *)
  Definition build (name : Z) (namelen : nat) (single : bool) (os : list bop) : pattern + Z :=
    if Nat.eqb namelen 0 then inr 2 else      (* BoboPatternBuilder.__init__ rejects an empty name at once *)
    match bsteps (mkB [] [] []) os with
    | None => inr 1
    | Some s =>
        if Z.eqb (pattern_ctor_code namelen (bs_blocks s)) 0
        then inl (mkPattern name (bs_blocks s) (bs_pre s) (bs_halt s) single)
        else inr 2
    end.
End Pattern.

Arguments mkBlock {E}. Arguments mkPattern {E}.
Arguments b_preds {E}. Arguments b_group {E}. Arguments b_strict {E}. Arguments b_loop {E}.
Arguments b_neg {E}. Arguments b_opt {E}.
Arguments p_name {E}. Arguments p_blocks {E}. Arguments p_pre {E}. Arguments p_halt {E}. Arguments p_single {E}.
Arguments wf_block {E}. Arguments wf_pattern {E}. Arguments plain_end {E}.
Arguments pattern_ctor_code {E}.
