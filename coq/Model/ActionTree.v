(* Model of bobocep/cep/action/common/multi.py for multi-actions whose sub-actions may themselves be
   sequential multi-actions (a multi-action is a BoboAction, so `actions: List[BoboAction]` admits it).
   A leaf is a sub-action with a scripted outcome; the data a multi-action returns is the LIST of the
   (success, data) tuples of the sub-actions it executed, so results form a tree as well.
   No proofs in this file. *)
From Bobo Require Import Base.Prelude.

Inductive act :=
| ALeaf (id : nat) (ok : bool) (d : Z)
| AMulti (stop_on_fail : bool) (subs : list act).

Inductive rdata :=
| RVal (d : Z)
| RList (l : list (bool * rdata)).

(* what one execute() call yields: (success, data, leaves whose execute() ran, in call order) *)
Notation result := (bool * rdata * list nat)%type (only parsing).

(* the loop of BoboActionMultiSequential.execute over the results its sub-actions would give:
       for action in self._actions:
           output = action.execute(event); data.append(output)
           if not output[0]:
               success = False
               if self._stop_on_fail: break
   a sub-action that is not reached is not executed: its leaves do not enter the log *)
Fixpoint tree_loop (stop : bool) (rs : list result) (success : bool) (data : list (bool * rdata))
         (log : list nat) : result :=
  match rs with
  | [] => (success, RList data, log)
  | (ok, d, lg) :: rest =>
      let data' := data ++ [(ok, d)] in
      let log' := log ++ lg in
      if ok then tree_loop stop rest success data' log'
      else if stop then (false, RList data', log')
           else tree_loop stop rest false data' log'
  end.

Fixpoint exec (a : act) : result :=
  match a with
  | ALeaf id ok d => (ok, RVal d, [id])
  | AMulti stop subs => tree_loop stop (map exec subs) true [] []
  end.

(* the rewrite "a nested sequential multi-action is just a longer sequence" *)
Fixpoint inline_nested (subs : list act) : list act :=
  match subs with
  | [] => []
  | AMulti _ inner :: rest => inner ++ inline_nested rest
  | a :: rest => a :: inline_nested rest
  end.

(* correspondence entry: success :: data ++ #log :: log ; RVal d -> 0 d ; RList l -> 1 #l (ok_i data_i)* *)
Fixpoint enc_rdata (r : rdata) : list Z :=
  match r with
  | RVal d => [0; d]
  | RList l => 1 :: n2z (length l) :: flat_map (fun p => b2z (fst p) :: enc_rdata (snd p)) l
  end.

Definition run_C20_tree (a : act) : list Z :=
  let '(ok, d, lg) := exec a in
  b2z ok :: enc_rdata d ++ n2z (length lg) :: map n2z lg.
