(* Model of the receive loop of bobocep/dist/tcp.py:
     _tcp_incoming_handle_client  (the `while True` loop up to the decrypt attempt)
     _tcp_incoming                (one client after another; every exception of a client is caught)
   Bytes are Z codes.  The clock (int(time.time())) and the network (what every recv() call
   returns) are explicit oracle lists.  No proofs here.

   One connection:
       all_bytes = bytearray()
       while True:
           now = int(time.time()); elapse = now - client_accepted          (one clock reading / iteration)
           if elapse >= timeout_receive: raise BoboDistributedTimeoutError
           [D6 fixed:  client_s.settimeout(timeout_receive - elapse)]
           bytes_msg = client_s.recv(recv_bytes)                           (b"" when the peer has closed)
           all_bytes.extend(bytes_msg)
           if len(X) >= min_length and X[-len(end):] == end:               (X = bytes_msg at the pinned
               plaintext = decrypt(all_bytes) ... break                     commit (D5), all_bytes fixed)
*)
From Bobo Require Import Base.Prelude.

(* what the network does at one recv() call *)
Inductive read :=
| Bytes (bs : list Z)   (* these bytes are available (recv returns at most recv_bytes of them) *)
| Closed                (* the peer has closed: recv returns b"" *)
| Timeout.              (* the peer sends nothing: recv waits for the socket timeout, or for ever *)

Record rcfg := mkR {
  r_min : Z;             (* crypto.min_length() *)
  r_end : list Z;        (* crypto.end_bytes() *)
  r_trecv : Z;           (* timeout_receive *)
  r_nrecv : nat;         (* recv_bytes *)
  r_end_on_all : bool;   (* true: end test on all_bytes (D5 repaired); false: on the last chunk (pinned commit) *)
  r_client_to : bool     (* true: the accepted socket has a timeout and socket.timeout is a give-up (D6 repaired) *)
}.

Inductive outcome :=
| Deliver (buf : list Z)     (* end test passed: exactly these bytes are handed to decrypt, then `break` *)
| GiveUpClock (elapse : Z)   (* BoboDistributedTimeoutError("Message timeout") *)
| GiveUpSock                 (* socket.timeout from the client socket: given up *)
| Hang                       (* recv() on a socket without timeout, silent peer: never returns *)
| ClockOut.                  (* the clock oracle list was too short (scenario error, not a behaviour) *)

(* x[-k:] for k > 0 (the whole of x when it is shorter) *)
Definition lastn (k : nat) (x : list Z) : list Z := skipn (length x - k) x.

(* len(x) >= min_length and x[-len(end):] == end *)
Definition end_ok (mn : Z) (e x : list Z) : bool :=
  (mn <=? Z.of_nat (length x)) && zlist_eqb (lastn (length e) x) e.
Definition end_test (c : rcfg) (x : list Z) : bool := end_ok (r_min c) (r_end c) x.

(* one recv(n) call against the scripted network: None = nothing arrives (Timeout);
   an exhausted script is a closed peer *)
Definition next_read (n : nat) (script : list read) : option (list Z * list read) :=
  match script with
  | [] => Some ([], [])
  | Bytes bs :: s' =>
      if (length bs <=? n)%nat then Some (bs, s')
      else Some (firstn n bs, Bytes (skipn n bs) :: s')
  | Closed :: s' => Some ([], s')
  | Timeout :: _ => None
  end.

(* The loop.  accepted = client_accepted; buf = all_bytes; clock = the readings of int(time.time()),
   one per iteration.  Result: outcome, the recv() calls issued as (clock reading, socket timeout in
   force: -1 = none), and the clock readings not consumed. *)
Fixpoint recv_loop (c : rcfg) (accepted : Z) (buf : list Z) (script : list read) (clock : list Z)
  : outcome * list (Z * Z) * list Z :=
  match clock with
  | [] => (ClockOut, [], [])
  | now :: clock' =>
      let elapse := now - accepted in
      if r_trecv c <=? elapse then (GiveUpClock elapse, [], clock')
      else
        let st := if r_client_to c then r_trecv c - elapse else -1 in
        match next_read (r_nrecv c) script with
        | None => (if r_client_to c then GiveUpSock else Hang, [(now, st)], clock')
        | Some (bs, script') =>
            let buf' := buf ++ bs in
            if end_test c (if r_end_on_all c then buf' else bs)
            then (Deliver buf', [(now, st)], clock')
            else let '(o, tr, rest) := recv_loop c accepted buf' script' clock' in
                 (o, (now, st) :: tr, rest)
        end
  end.

(* One accepted client inside _tcp_incoming: the first clock reading is client_accepted. *)
Definition session (c : rcfg) (script : list read) (clock : list Z) : outcome * list (Z * Z) * list Z :=
  match clock with
  | [] => (ClockOut, [], [])
  | a :: clock' => recv_loop c a [] script clock'
  end.
Definition session_outcome (c : rcfg) (sc : list read * list Z) : outcome :=
  fst (fst (session c (fst sc) (snd sc))).

(* The accept loop: clients are served strictly one after another, each with its own fresh
   all_bytes and its own clock readings; every exception of a client is caught and the loop goes on
   (except (BoboDistributedSystemError, BoboDistributedTimeoutError) / socket.timeout / Exception);
   a client that hangs the handler is the end of the listener thread. *)
Fixpoint listen (c : rcfg) (clients : list (list read * list Z)) : list outcome :=
  match clients with
  | [] => []
  | sc :: cs =>
      let o := session_outcome c sc in
      match o with
      | Hang => [Hang]
      | _ => o :: listen c cs
      end
  end.

(* ---- configurations *)
Definition MARKER : list Z := [66; 79; 66; 79].     (* b"BOBO" *)
Definition cfg_fixed (mn trecv : Z) (n : nat) : rcfg := mkR mn MARKER trecv n true true.
Definition cfg_unfixed (mn trecv : Z) (n : nat) : rcfg := mkR mn MARKER trecv n false false.

(* ---- correspondence entry point.
   input: ((min_length, timeout_receive, recv_bytes), (end_on_all, client_timeout)),
          (stream, spec), clock
   spec: one number per scripted network event:  k > 0  the next k bytes of stream,  0 Closed,  -1 Timeout.
   clock: client_accepted followed by the readings of int(time.time()).
   output: [outcome code; elapse (GiveUpClock) or 0; number of bytes handed to decrypt;
            1 if those bytes are exactly `stream`; two checksums of them;
            number of recv calls; clock readings consumed by the loop] ++ socket timeout per recv *)
Fixpoint mk_script (stream : list Z) (spec : list Z) : list read :=
  match spec with
  | [] => []
  | k :: spec' =>
      if k =? 0 then Closed :: mk_script stream spec'
      else if k <? 0 then Timeout :: mk_script stream spec'
      else Bytes (firstn (Z.to_nat k) stream) :: mk_script (skipn (Z.to_nat k) stream) spec'
  end.

Definition sum1 (l : list Z) : Z := fold_left (fun a x => (a + x) mod 65521) l 0.
Definition sum2 (l : list Z) : Z := fst (fold_left (fun '(a, i) x => ((a + i * x) mod 65521, i + 1)) l (0, 1)).

Definition enc_outcome (stream : list Z) (o : outcome) : list Z :=
  match o with
  | Deliver b => [1; 0; Z.of_nat (length b); b2z (zlist_eqb b stream); sum1 b; sum2 b]
  | GiveUpClock e => [2; e; 0; 0; 0; 0]
  | GiveUpSock => [3; 0; 0; 0; 0; 0]
  | Hang => [4; 0; 0; 0; 0; 0]
  | ClockOut => [5; 0; 0; 0; 0; 0]
  end.

Definition run_C10 (inp : ((Z * Z * Z) * (bool * bool)) * (list Z * list Z) * list Z) : list Z :=
  let '(((mn, trecv, n), (onall, cto)), (stream, spec), clock) := inp in
  let c := mkR mn MARKER trecv (Z.to_nat n) onall cto in
  let '(o, tr, rest) := session c (mk_script stream spec) clock in
  enc_outcome stream o
  ++ [Z.of_nat (length tr); Z.of_nat (length clock) - 1 - Z.of_nat (length rest)]
  ++ map snd tr.

(* the accept loop over several clients: [outcome code; bytes handed to decrypt; checksum] per client served *)
Definition run_C10_listen
  (inp : ((Z * Z * Z) * (bool * bool)) * list ((list Z * list Z) * list Z)) : list Z :=
  let '(((mn, trecv, n), (onall, cto)), clients) := inp in
  let c := mkR mn MARKER trecv (Z.to_nat n) onall cto in
  concat (map (fun o => match enc_outcome [] o with
                        | code :: _ :: len :: _ :: s1 :: _ => [code; len; s1]
                        | _ => []
                        end)
              (listen c (map (fun '((stream, spec), clock) => (mk_script stream spec, clock)) clients))).
