(* C16, two generators of one process (an engine from BoboSetupSimple has one for events and one for runs), one thread
   each.  generate() in the two steps between which the other thread may run:

      now = max(int(time()), _last)                          read    (own reading of the clock)
      if now == _last: _count += 1 else: _count = 0; _last = now
      return (now, _count)                                   update

   shared = false : every generator has its own (_last, _count)        - the code as it is
   shared = true  : both use ONE pair (state kept on the class), each generator under its own lock, so the two
                    threads do not exclude each other.
   A schedule is a list of (who, clock reading); the reading is used when the step is a read.  No proofs here. *)
From Bobo Require Import Base.Prelude Model.IdGen.

Inductive pc2 := PIdle | PNow (now : Z).

Record st2 := mkS2 { s_a : gstate; s_b : gstate; p_a : pc2; p_b : pc2; o_a : list (Z * Z); o_b : list (Z * Z) }.

Definition s2_init : st2 := mkS2 g_init g_init PIdle PIdle [] [].

Definition upd (s : gstate) (now : Z) : gstate * (Z * Z) :=
  if now =? g_last s
  then (mkG (g_last s) (g_count s + 1), (now, g_count s + 1))
  else (mkG now 0, (now, 0)).

Definition step2 (shared : bool) (s : st2) (x : bool * Z) : st2 :=
  let '(who, c) := x in
  if who
  then match p_a s with
       | PIdle => mkS2 (s_a s) (s_b s) (PNow (Z.max c (g_last (s_a s)))) (p_b s) (o_a s) (o_b s)
       | PNow now => let '(g', id) := upd (s_a s) now in mkS2 g' (s_b s) PIdle (p_b s) (o_a s ++ [id]) (o_b s)
       end
  else let g := if shared then s_a s else s_b s in
       match p_b s with
       | PIdle => mkS2 (s_a s) (s_b s) (p_a s) (PNow (Z.max c (g_last g))) (o_a s) (o_b s)
       | PNow now => let '(g', id) := upd g now in
                     if shared then mkS2 g' (s_b s) (p_a s) PIdle (o_a s) (o_b s ++ [id])
                     else mkS2 (s_a s) g' (p_a s) PIdle (o_a s) (o_b s ++ [id])
       end.

Definition run2 (shared : bool) (xs : list (bool * Z)) : st2 := fold_left (step2 shared) xs s2_init.

(* correspondence entry point: (shared, schedule) -> ids of A, -1, ids of B *)
Definition run_C16_two (inp : bool * list (bool * Z)) : list Z :=
  let s := run2 (fst inp) (snd inp) in
  concat (map (fun id => [fst id; snd id]) (o_a s)) ++ [-1] ++ concat (map (fun id => [fst id; snd id]) (o_b s)).
