(* Model of bobocep/cep/engine/receiver/validator.py (the four validators), of the gate
   BoboReceiver._process_data / update in receiver.py, and of the part of CPython's json.dumps
   (default options) that decides whether a value is accepted.

   Python values are a small tagged tree.  Only what the validators, json.dumps and the receiver
   can distinguish is kept: the magnitude of ints (str(int) refuses more than 4300 digits), the
   kind of a float (nan / inf / finite), the shape of containers, the type of everything else.
   Strings are lists of character codes.  No proofs in this file. *)
From Bobo Require Import Base.Prelude.

(* ------------------------------------------------------------------ values *)
Inductive fkind := FFinite | FNan | FPosInf | FNegInf.

(* leaf objects json.dumps has no encoding for *)
Inductive oty := OBytes | OSet | OFrozenset | ODecimal | OUser | OUserChild.
(* OUser: instance of a user class (direct subclass of object); OUserChild: of a subclass of it *)

Inductive pyval :=
| VNone
| VBool (b : bool)
| VInt (z : Z)
| VFloat (k : fkind)
| VStr (s : list Z)
| VList (l : list pyval)
| VTuple (l : list pyval)
| VDict (kvs : list (pyval * pyval))      (* insertion order *)
| VOpaque (o : oty)
| VCyclic (isdict : bool)                 (* reference back to an enclosing list (false) / dict (true) *)
| VDeep.                                  (* a list nested deeper than the interpreter's recursion limit *)

Fixpoint pyval_eqb (a b : pyval) {struct a} : bool :=
  match a, b with
  | VNone, VNone => true
  | VBool x, VBool y => Bool.eqb x y
  | VInt x, VInt y => x =? y
  | VFloat x, VFloat y =>
      match x, y with
      | FFinite, FFinite | FNan, FNan | FPosInf, FPosInf | FNegInf, FNegInf => true
      | _, _ => false
      end
  | VStr x, VStr y => zlist_eqb x y
  | VList x, VList y | VTuple x, VTuple y =>
      (fix go (x y : list pyval) : bool :=
         match x, y with
         | [], [] => true
         | p :: x', q :: y' => pyval_eqb p q && go x' y'
         | _, _ => false
         end) x y
  | VDict x, VDict y =>
      (fix go (x y : list (pyval * pyval)) : bool :=
         match x, y with
         | [], [] => true
         | (k1, v1) :: x', (k2, v2) :: y' => pyval_eqb k1 k2 && pyval_eqb v1 v2 && go x' y'
         | _, _ => false
         end) x y
  | VOpaque x, VOpaque y =>
      match x, y with
      | OBytes, OBytes | OSet, OSet | OFrozenset, OFrozenset | ODecimal, ODecimal
      | OUser, OUser | OUserChild, OUserChild => true
      | _, _ => false
      end
  | VCyclic x, VCyclic y => Bool.eqb x y
  | VDeep, VDeep => true
  | _, _ => false
  end.

(* ------------------------------------------------------------------ json.dumps(v) succeeds
   json.dumps(obj) with default options: skipkeys=False, check_circular=True, allow_nan=True,
   default=None.
   - None, bool, str: always.  float: always (allow_nan=True writes NaN / Infinity / -Infinity).
   - int: written with int.__repr__, which raises ValueError beyond sys.get_int_max_str_digits()
     = 4300 decimal digits (the CPython default).
   - list and tuple: every item must encode.
   - dict: every key must be str, int, float, bool or None (else TypeError "keys must be ..."),
     an int key is written with the same int.__repr__; every value must encode.
   - anything else (bytes, set, frozenset, Decimal, user objects): TypeError.
   - a container reached again while it is being encoded: ValueError "Circular reference".
   - nesting beyond the recursion limit: RecursionError.
   BoboValidatorJSONable catches exactly (RecursionError, TypeError, ValueError). *)
Definition INT_STR_LIMIT : Z := Eval vm_compute in (10 ^ 4300).
Definition int_str_ok (z : Z) : bool := Z.abs z <? INT_STR_LIMIT.

Definition key_ok (k : pyval) : bool :=
  match k with
  | VStr _ | VFloat _ | VBool _ | VNone => true
  | VInt z => int_str_ok z
  | _ => false
  end.

Fixpoint jsonable (v : pyval) : bool :=
  match v with
  | VNone | VBool _ | VFloat _ | VStr _ => true
  | VInt z => int_str_ok z
  | VList l | VTuple l => forallb jsonable l
  | VDict kvs => forallb (fun kv => match kv with (k, x) => key_ok k && jsonable x end) kvs
  | VOpaque _ | VCyclic _ | VDeep => false
  end.

(* ------------------------------------------------------------------ types, isinstance *)
Inductive ty := TyObject | TyNone | TyBool | TyInt | TyFloat | TyStr | TyList | TyTuple | TyDict
              | TyOpaque (o : oty).

Definition oty_code (o : oty) : Z :=
  match o with OBytes => 0 | OSet => 1 | OFrozenset => 2 | ODecimal => 3 | OUser => 4 | OUserChild => 5 end.

Definition ty_code (t : ty) : Z :=
  match t with
  | TyObject => 0 | TyNone => 1 | TyBool => 2 | TyInt => 3 | TyFloat => 4 | TyStr => 5
  | TyList => 6 | TyTuple => 7 | TyDict => 8 | TyOpaque o => 10 + oty_code o
  end.

Definition ty_eqb (a b : ty) : bool := ty_code a =? ty_code b.

(* type(v) *)
Definition ty_of (v : pyval) : ty :=
  match v with
  | VNone => TyNone | VBool _ => TyBool | VInt _ => TyInt | VFloat _ => TyFloat | VStr _ => TyStr
  | VList _ => TyList | VTuple _ => TyTuple | VDict _ => TyDict
  | VOpaque o => TyOpaque o
  | VCyclic false => TyList | VCyclic true => TyDict
  | VDeep => TyList
  end.

(* the proper ancestors of a type (its __mro__ without itself): bool < int < object,
   UserChild < User < object, everything else directly below object *)
Definition ty_bases (t : ty) : list ty :=
  match t with
  | TyObject => []
  | TyBool => [TyInt; TyObject]
  | TyOpaque OUserChild => [TyOpaque OUser; TyObject]
  | _ => [TyObject]
  end.

Definition isinstance (v : pyval) (t : ty) : bool :=
  ty_eqb (ty_of v) t || existsb (ty_eqb t) (ty_bases (ty_of v)).

Definition type_is (v : pyval) (t : ty) : bool := ty_eqb (ty_of v) t.

(* ------------------------------------------------------------------ events, data entering the receiver *)
Inductive ekind := KSimple | KComplex | KAction.

Record event := mkEv { ev_kind : ekind; ev_id : list Z; ev_ts : Z; ev_data : pyval }.
(* the other fields of complex / action events (names, history, success) are never looked at by a
   validator or by the receiver *)

Inductive datum := Bare (v : pyval) | Ev (e : event).
(* Bare v: v is not a BoboEvent instance.  pyval has no event constructor: an event whose data is
   itself an event is outside the model. *)

Definition datum_data (d : datum) : pyval := match d with Bare v => v | Ev e => ev_data e end.

(* ------------------------------------------------------------------ validators *)
(* A JSON schema is represented by jsonschema's answer: on every value, and (needed only for the
   code as it was at the pinned commit, which handed the event object itself to jsonschema) on an
   event object.  PRaise = jsonschema.SchemaError, re-raised as BoboValidatorError. *)
Record schema := mkSchema { sc_val : pyval -> pres; sc_evobj : event -> pres }.

Inductive validator :=
| ValAll
| ValJSONable
| ValType (types : list ty) (subtype : bool)
| ValJSONSchema (s : schema).

Definition of_bool (b : bool) : pres := if b then PTrue else PFalse.

(* is_valid of the four classes, as the code is now (after the fix for D15).  All three
   non-trivial validators first replace an event by the data it carries. *)
Definition is_valid (val : validator) (d : datum) : pres :=
  match val with
  | ValAll => PTrue
  | ValJSONable => of_bool (jsonable (datum_data d))
  | ValType ts sub =>
      let v := datum_data d in
      of_bool (if sub then existsb (isinstance v) ts else existsb (type_is v) ts)
  | ValJSONSchema s =>
      let v := datum_data d in
      if jsonable v then sc_val s v else PFalse
  end.

(* BoboValidatorJSONSchema.is_valid as it was at the pinned commit: no unwrapping, no inherited
   JSONable check; the other classes are unchanged *)
Definition is_valid_pinned (val : validator) (d : datum) : pres :=
  match val with
  | ValJSONSchema s => match d with Bare v => sc_val s v | Ev e => sc_evobj s e end
  | _ => is_valid val d
  end.

Definition is_json_validator (val : validator) : bool :=
  match val with ValJSONable | ValJSONSchema _ => true | _ => false end.

(* ------------------------------------------------------------------ the receiver's gate
   BoboReceiver._process_data(data):
     if not validator.is_valid(data): return          (an exception of is_valid propagates)
     event = data if isinstance(data, BoboEvent)
             else BoboEventSimple(gen_event_id.generate(), gen_timestamp.generate(), data)
     publish event to every subscriber
   nxt = what the two generators return next.  Result = the event every subscriber receives. *)
Definition recv_process_with (isv : validator -> datum -> pres)
           (val : validator) (nxt : list Z * Z) (d : datum) : option event :=
  match isv val d with
  | PTrue => match d with
             | Ev e => Some e
             | Bare v => Some (mkEv KSimple (fst nxt) (snd nxt) v)
             end
  | _ => None
  end.

Definition recv_process := recv_process_with is_valid.
Definition recv_process_pinned := recv_process_with is_valid_pinned.

(* update() called once per queued datum, in queue order; the generators are consumed only when a
   simple event is created *)
Fixpoint recv_stream_with (isv : validator -> datum -> pres) (val : validator)
         (sup : list (list Z * Z)) (ds : list datum) : list (option event) :=
  match ds with
  | [] => []
  | d :: ds' =>
      let nxt := hd ([], 0) sup in
      let r := recv_process_with isv val nxt d in
      let sup' := match d, r with Bare _, Some _ => tl sup | _, _ => sup end in
      r :: recv_stream_with isv val sup' ds'
  end.

Definition recv_stream := recv_stream_with is_valid.

(* the events that reach the subscribers, in order *)
Fixpoint delivered (rs : list (option event)) : list event :=
  match rs with
  | [] => []
  | Some e :: rs' => e :: delivered rs'
  | None :: rs' => delivered rs'
  end.

(* ------------------------------------------------------------------ serialising an event
   to_json_str() = dumps(to_json_dict(), default=lambda o: o.to_json_str()).  The dictionary has
   string keys; event_type / event_id / names are strings, timestamp an int, success a bool, the
   history (a BoboHistory) goes through `default` and becomes a string; the data are embedded as
   they are.  The content of the strings does not matter. *)
Definition k_event_type := [101;118;101;110;116;95;116;121;112;101].
Definition k_event_id := [101;118;101;110;116;95;105;100].
Definition k_timestamp := [116;105;109;101;115;116;97;109;112].
Definition k_data := [100;97;116;97].
Definition k_phenomenon_name := [112;104;101;110;111;109;101;110;111;110;95;110;97;109;101].
Definition k_pattern_name := [112;97;116;116;101;114;110;95;110;97;109;101].
Definition k_history := [104;105;115;116;111;114;121].
Definition k_action_name := [97;99;116;105;111;110;95;110;97;109;101].
Definition k_success := [115;117;99;99;101;115;115].

Definition event_json_dict (e : event) : pyval :=
  VDict ([(VStr k_event_type, VStr []); (VStr k_event_id, VStr (ev_id e));
          (VStr k_timestamp, VInt (ev_ts e)); (VStr k_data, ev_data e)]
         ++ match ev_kind e with
            | KSimple => []
            | KComplex => [(VStr k_phenomenon_name, VStr []); (VStr k_pattern_name, VStr []);
                           (VStr k_history, VStr [])]
            | KAction => [(VStr k_phenomenon_name, VStr []); (VStr k_pattern_name, VStr []);
                          (VStr k_action_name, VStr []); (VStr k_success, VBool true)]
            end).

Definition event_serialisable (e : event) : bool := jsonable (event_json_dict e).

(* ------------------------------------------------------------------ correspondence entry point *)
Inductive vspec := SAll | SJSONable | SType (types : list ty) (subtype : bool) | SSchema.

Definition ekind_code (k : ekind) : Z := match k with KSimple => 0 | KComplex => 1 | KAction => 2 end.
Definition pres_code (p : pres) : Z := match p with PFalse => 0 | PTrue => 1 | PRaise => 2 end.

Definition event_eqb (a b : event) : bool :=
  (ekind_code (ev_kind a) =? ekind_code (ev_kind b)) && zlist_eqb (ev_id a) (ev_id b)
  && (ev_ts a =? ev_ts b) && pyval_eqb (ev_data a) (ev_data b).

(* step = (datum, jsonschema's answer for the datum's unwrapped data; ignored unless SSchema) *)
Definition mk_validator (vs : vspec) (ans : pres) : validator :=
  match vs with
  | SAll => ValAll
  | SJSONable => ValJSONable
  | SType ts sub => ValType ts sub
  | SSchema => ValJSONSchema (mkSchema (fun _ => ans) (fun _ => PFalse))
  end.

(* per step: verdict; number of events published; and for a published event: its kind, whether it
   carries the datum's data, whether it is the very event that came in, whether it serialises,
   its timestamp, its id, -1 *)
Definition encode_step (val : validator) (d : datum) (r : option event) : list Z :=
  pres_code (is_valid val d) ::
  match r with
  | None => [0]
  | Some e =>
      [1; ekind_code (ev_kind e); b2z (pyval_eqb (ev_data e) (datum_data d));
       b2z (match d with Ev e0 => event_eqb e e0 | Bare _ => false end);
       b2z (event_serialisable e); ev_ts e] ++ ev_id e ++ [-1]
  end.

Fixpoint run_steps (vs : vspec) (sup : list (list Z * Z)) (steps : list (datum * pres)) : list Z :=
  match steps with
  | [] => []
  | (d, ans) :: steps' =>
      let val := mk_validator vs ans in
      let r := recv_process val (hd ([], 0) sup) d in
      let sup' := match d, r with Bare _, Some _ => tl sup | _, _ => sup end in
      encode_step val d r ++ run_steps vs sup' steps'
  end.

Definition run_C18 (inp : vspec * list (list Z * Z) * list (datum * pres)) : list Z :=
  match inp with (vs, sup, steps) => run_steps vs sup steps end.
