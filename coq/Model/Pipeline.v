(* The replication wire path end to end: composition of the four existing models

     Model/Wire.v    (C09)  run records <-> JSON text, header format
     Model/Crypto.v  (C17)  aes.py encrypt / decrypt (padding, ciphertext|nonce|tag|marker)
     Model/Recv.v    (C10)  the receive loop of _tcp_incoming_handle_client, for any cut into reads
     Model/Auth.v    (C11)  what is done with the decrypted plaintext; the accept loop `serve`

   Nothing is re-modelled here: `send_receive` below only plugs the functions of those files into each
   other.  Where two of them describe the same thing in different terms, the conversion is written out and
   proved harmless in Proofs/PipelineProofs.v:

     bytes on the wire      Crypto: list Z            Recv / Auth: list Z                 (the same type)
     text                   Wire.str = list Z         Auth.str = list Z, Crypto: list Z   (the same type)
     end marker             Crypto.MARKER             Recv.MARKER                         (marker_same)
     minimum length         Crypto.min_length cfg     Recv.r_min                          (rcfg_of)
     "text UTF-8 can carry" Wire.str_ok (bool)        CryptoProofs.valid_str (Prop)       (str_ok_valid)
     "ends in U+0000"       Wire.ends_nul (bool)      CryptoProofs.ends_nul (Prop)        (ends_nul_conv)
     _split_plaintext       Wire.split_plaintext      Auth.split_plaintext (with int())   (split_agree)
     the cipher             Crypto.encrypt : option   Wire.send's parameter : total       (wire_bytes_is_send)
     parsed payload         Wire.msg                  Auth's parameter `msg`              (instantiated)
     payload parser         Wire.msg_from_str         Auth's parameter `parse`            (instantiated)

   The only code modelled here for the first time is the three-line dispatch of BoboDistributedTCP._update
   (`deliveries`).  No proofs in this file.

   The second half of the file is a concrete codec with the output format of CPython's json.dumps (default
   options) and a parser for it, so that the composition can be EXECUTED on the very bytes the real sender
   produces (correspondence check in harness/pC09.py); the theorems do not mention it. *)
From Bobo Require Import Base.Prelude Model.IdGen Model.Wire Model.Crypto Model.Recv Model.Auth.

(* ------------------------------------------------------------------ the link between two instances *)
Record link := mkLink {
  l_cfg : Crypto.config;      (* BoboDistributedCryptoAES(aes_key, nonce_length, mac_length), the same on both sides *)
  l_trecv : Z;                (* receiver: timeout_receive *)
  l_nrecv : nat;              (* receiver: recv_bytes *)
  l_fuel : nat                (* receiver: nested from_json_str activations available (recursion limit) *)
}.

(* the receive loop's configuration as the receiver derives it from its crypto object:
   crypto.min_length(), crypto.end_bytes(); the repaired loop (D5, D6) *)
Definition rcfg_of (L : link) : rcfg := cfg_fixed (Crypto.min_length (l_cfg L)) (l_trecv L) (l_nrecv L).

(* receiver state: Auth.istate with the parsed payload being Wire's three lists *)
Definition rstate : Type := istate Wire.msg.

(* BoboDistributedTCP._update: every queued message with at least one non-empty list is one
   on_distributed_update(completed, halted, updated) call; the queue is empty afterwards *)
Definition has_records (m : Wire.msg) : bool :=
  let '(c, h, u) := m in nonempty c || nonempty h || nonempty u.
Definition deliveries (st : rstate) : list Wire.msg := filter has_records (s_queue st).
Definition after_update (st : rstate) : rstate := mkS (s_peers st) [] (s_qmax st).

Section Pipeline.
  (* the external libraries, exactly as in Wire.v / Crypto.v *)
  Variable dumps : json -> Wire.str.
  Variable loads : Wire.str -> option json.
  Variable utf8 : list Z -> list Z.
  Variable utf8_dec : list Z -> option (list Z).
  Variable gcm_enc : list Z -> list Z -> Z -> list Z -> list Z * list Z.
  Variable gcm_dec : list Z -> list Z -> Z -> list Z -> list Z -> option (list Z).

  (* ---- sender: _outgoing_to_json, the header of _tcp_send, crypto.encrypt; these bytes go to sendall *)
  Definition plaintext_of (urn key : Wire.str) (ty fl : Z) (m : Wire.msg) : Wire.str :=
    Wire.format urn key ty fl (Wire.msg_to_str dumps m).

  Definition wire_bytes (cfg : Crypto.config) (draw urn key : Wire.str) (ty fl : Z) (m : Wire.msg)
    : option (list Z) :=
    Crypto.encrypt utf8 gcm_enc cfg draw (plaintext_of urn key ty fl m).

  (* ---- receiver: one accepted client of _tcp_incoming.  Auth.serve runs Recv's loop on the script and
     hands what the loop delivers to decrypt and then to Auth.handle *)
  Definition receive_session (L : link) (st : rstate) (addr : Wire.str) (script : list read) (clock : list Z)
    : rstate :=
    serve Wire.msg (Crypto.decrypt utf8 utf8_dec gcm_dec (l_cfg L))
          (handle Wire.msg (Wire.msg_from_str loads (l_fuel L)))
          (rcfg_of L) st [(addr, (script, clock))].

  (* ---- both ends.  spec: how the network hands the sender's bytes to recv(), in Recv.mk_script's terms
     (k > 0: the next k bytes become available, 0: closed, -1: silence); clock: client_accepted followed by
     the readings of int(time.time()).  None = crypto.encrypt raised (configuration rejected by AES.new). *)
  Definition send_receive (L : link) (st : rstate) (addr : Wire.str)
             (draw urn key : Wire.str) (ty fl : Z) (m : Wire.msg)
             (spec : list Z) (clock : list Z) : option rstate :=
    match wire_bytes (l_cfg L) draw urn key ty fl m with
    | None => None
    | Some bytes => Some (receive_session L st addr (mk_script bytes spec) clock)
    end.
End Pipeline.

(* ------------------------------------------------------------------ CPython's json text, executable
   json.dumps(x) with the default options (ensure_ascii, separators ", " and ": ") on the values that occur.
   The text of a float (float.__repr__) is not computed: it is looked up in a table given with the case
   (bits -> text), and back (text -> bits) by the parser. *)
Definition ftab := list (Z * Wire.str).

Fixpoint ft_text (ft : ftab) (bits : Z) : Wire.str :=
  match ft with
  | [] => [48; 46; 48]
  | (b, t) :: ft' => if b =? bits then t else ft_text ft' bits
  end.
Fixpoint ft_bits (ft : ftab) (t : Wire.str) : option Z :=
  match ft with
  | [] => None
  | (b, t') :: ft' => if zlist_eqb t t' then Some b else ft_bits ft' t
  end.

Definition hexd (n : Z) : Z := if n <? 10 then 48 + n else 87 + n.
Definition u_escape (c : Z) : Wire.str :=
  [92; 117; hexd (c / 4096); hexd ((c / 256) mod 16); hexd ((c / 16) mod 16); hexd (c mod 16)].

(* py_encode_basestring_ascii: everything outside ' '..'~', the quote and the backslash are escaped *)
Definition jesc (c : Z) : Wire.str :=
  if c =? 34 then [92; 34]
  else if c =? 92 then [92; 92]
  else if c =? 10 then [92; 110]
  else if c =? 13 then [92; 114]
  else if c =? 9 then [92; 116]
  else if c =? 8 then [92; 98]
  else if c =? 12 then [92; 102]
  else if (32 <=? c) && (c <=? 126) then [c]
  else if c <? 65536 then u_escape c
  else let n := c - 65536 in u_escape (55296 + n / 1024) ++ u_escape (56320 + n mod 1024).

Definition jquote (s : Wire.str) : Wire.str := 34 :: flat_map jesc s ++ [34].

Fixpoint join_cs (l : list Wire.str) : Wire.str :=
  match l with
  | [] => []
  | [x] => x
  | x :: t => x ++ 44 :: 32 :: join_cs t
  end.

Fixpoint jdumps (ft : ftab) (j : json) : Wire.str :=
  match j with
  | JNull => [110; 117; 108; 108]
  | JBool true => [116; 114; 117; 101]
  | JBool false => [102; 97; 108; 115; 101]
  | JInt z => dec z
  | JFloat b => ft_text ft b
  | JStr s => jquote s
  | JArr l => 91 :: join_cs (map (jdumps ft) l) ++ [93]
  | JObj kv => 123 :: join_cs (map (fun p => jquote (fst p) ++ 58 :: 32 :: jdumps ft (snd p)) kv) ++ [RBRACE]
  end.

(* ---- json.loads (py_scanstring / scan_once, strict) on such text *)
Fixpoint skip_ws (s : Wire.str) : Wire.str :=
  match s with
  | c :: t => if (c =? 32) || (c =? 9) || (c =? 10) || (c =? 13) then skip_ws t else s
  | [] => []
  end.

Definition hexval (c : Z) : option Z :=
  if (48 <=? c) && (c <=? 57) then Some (c - 48)
  else if (97 <=? c) && (c <=? 102) then Some (c - 87)
  else if (65 <=? c) && (c <=? 70) then Some (c - 55)
  else None.

Definition hex4 (s : Wire.str) : option (Z * Wire.str) :=
  match s with
  | a :: b :: c :: d :: t =>
      match hexval a, hexval b, hexval c, hexval d with
      | Some a', Some b', Some c', Some d' => Some (((a' * 16 + b') * 16 + c') * 16 + d', t)
      | _, _, _, _ => None
      end
  | _ => None
  end.

Definition unescape1 (e : Z) : option Z :=
  if e =? 34 then Some 34 else if e =? 92 then Some 92 else if e =? 47 then Some 47
  else if e =? 98 then Some 8 else if e =? 102 then Some 12 else if e =? 110 then Some 10
  else if e =? 114 then Some 13 else if e =? 116 then Some 9 else None.

(* after the opening quote; acc = the characters so far, reversed.  A high surrogate followed by an escaped
   low surrogate is one character; any other surrogate stays as it is. *)
Fixpoint jstring (fuel : nat) (s acc : Wire.str) : option (Wire.str * Wire.str) :=
  match fuel with
  | O => None
  | S f =>
      match s with
      | [] => None
      | c :: t =>
          if c =? 34 then Some (rev_append acc [], t)
          else if c =? 92 then
            match t with
            | [] => None
            | e :: t1 =>
                if e =? 117 then
                  match hex4 t1 with
                  | None => None
                  | Some (u, t2) =>
                      let pair :=
                        if (55296 <=? u) && (u <=? 56319) then
                          match t2 with
                          | b1 :: b2 :: t3 =>
                              if (b1 =? 92) && (b2 =? 117) then
                                match hex4 t3 with
                                | Some (u2, t4) =>
                                    if (56320 <=? u2) && (u2 <=? 57343)
                                    then Some (65536 + (u - 55296) * 1024 + (u2 - 56320), t4)
                                    else None
                                | None => None
                                end
                              else None
                          | _ => None
                          end
                        else None in
                      match pair with
                      | Some (c', t4) => jstring f t4 (c' :: acc)
                      | None => jstring f t2 (u :: acc)
                      end
                  end
                else match unescape1 e with
                     | Some x => jstring f t1 (x :: acc)
                     | None => None
                     end
            end
          else if c <? 32 then None
          else jstring f t (c :: acc)
      end
  end.

Definition num_char (c : Z) : bool :=
  ((48 <=? c) && (c <=? 57)) || (c =? 45) || (c =? 43) || (c =? 46) || (c =? 101) || (c =? 69).
Fixpoint span_num (s : Wire.str) : Wire.str * Wire.str :=
  match s with
  | c :: t => if num_char c then let '(a, b) := span_num t in (c :: a, b) else ([], s)
  | [] => ([], [])
  end.

Fixpoint strip_prefix (p s : Wire.str) : option Wire.str :=
  match p, s with
  | [], _ => Some s
  | a :: p', b :: s' => if a =? b then strip_prefix p' s' else None
  | _ :: _, [] => None
  end.

(* s starts at a value: value, then ',' (go on) or ']' (done) *)
Fixpoint jelems (pv : Wire.str -> option (json * Wire.str)) (fuel : nat) (s : Wire.str) (acc : list json)
  : option (list json * Wire.str) :=
  match fuel with
  | O => None
  | S f =>
      match pv s with
      | Some (v, r) =>
          match skip_ws r with
          | c :: r' => if c =? 44 then jelems pv f r' (v :: acc)
                       else if c =? 93 then Some (rev (v :: acc), r') else None
          | [] => None
          end
      | None => None
      end
  end.

(* s starts at a member: "key" : value, then ',' or '}' *)
Fixpoint jmembers (n : nat) (pv : Wire.str -> option (json * Wire.str)) (fuel : nat) (s : Wire.str)
         (acc : list (Wire.str * json)) : option (list (Wire.str * json) * Wire.str) :=
  match fuel with
  | O => None
  | S f =>
      match skip_ws s with
      | q :: s1 =>
          if q =? 34 then
            match jstring n s1 [] with
            | Some (k, s2) =>
                match skip_ws s2 with
                | col :: s3 =>
                    if col =? 58 then
                      match pv s3 with
                      | Some (v, r) =>
                          match skip_ws r with
                          | c :: r' => if c =? 44 then jmembers n pv f r' ((k, v) :: acc)
                                       else if c =? RBRACE then Some (rev ((k, v) :: acc), r') else None
                          | [] => None
                          end
                      | None => None
                      end
                    else None
                | [] => None
                end
            | None => None
            end
          else None
      | [] => None
      end
  end.

(* dict(pairs): a repeated key keeps its first position and takes the last value *)
Fixpoint dict_set (k : Wire.str) (v : json) (kv : list (Wire.str * json)) : list (Wire.str * json) :=
  match kv with
  | [] => [(k, v)]
  | p :: t => if zlist_eqb (fst p) k then (k, v) :: t else p :: dict_set k v t
  end.
Definition dict_of (kv : list (Wire.str * json)) : list (Wire.str * json) :=
  fold_left (fun d p => dict_set (fst p) (snd p) d) kv [].

(* n: any number larger than the length of the text (budget of the inner loops, computed once);
   fuel: nesting depth still allowed *)
Fixpoint jvalue (ft : ftab) (n : nat) (fuel : nat) (s : Wire.str) : option (json * Wire.str) :=
  match fuel with
  | O => None
  | S f =>
      match skip_ws s with
      | [] => None
      | c :: t =>
          if c =? 34 then
            match jstring n t [] with Some (x, r) => Some (JStr x, r) | None => None end
          else if c =? 123 then
            match skip_ws t with
            | c' :: r => if c' =? RBRACE then Some (JObj [], r)
                         else match jmembers n (jvalue ft n f) n t [] with
                              | Some (kv, r') => Some (JObj (dict_of kv), r')
                              | None => None
                              end
            | [] => None
            end
          else if c =? 91 then
            match skip_ws t with
            | c' :: r => if c' =? 93 then Some (JArr [], r)
                         else match jelems (jvalue ft n f) n t [] with
                              | Some (l, r') => Some (JArr l, r')
                              | None => None
                              end
            | [] => None
            end
          else if c =? 110 then
            match strip_prefix [117; 108; 108] t with Some r => Some (JNull, r) | None => None end
          else if c =? 116 then
            match strip_prefix [114; 117; 101] t with Some r => Some (JBool true, r) | None => None end
          else if c =? 102 then
            match strip_prefix [97; 108; 115; 101] t with Some r => Some (JBool false, r) | None => None end
          else
            let '(n, r) := span_num (c :: t) in
            match n with
            | [] => None
            | _ => match Wire.parse_int n with
                   | Some z => Some (JInt z, r)
                   | None => match ft_bits ft n with Some b => Some (JFloat b, r) | None => None end
                   end
            end
      end
  end.

Definition jloads (ft : ftab) (s : Wire.str) : option json :=
  let n := S (length s) in
  match jvalue ft n n s with
  | Some (j, r) => match skip_ws r with [] => Some j | _ => None end
  | None => None
  end.

(* ------------------------------------------------------------------ correspondence entry point
   input:  (((aes key chars, (nonce_length, mac_length)), (timeout_receive, recv_bytes, fuel)),
            (peers as in run_C11, max_size_incoming), client address),
           ((nonce draw, urn, id key), (type, flags), (completed, halted, updated)),
           ((spec, clock), float table)
   cipher = the toy of Crypto.v, codec = strict UTF-8, json = the CPython text above.
   output: [0] when encrypt raises; otherwise
           1; number of bytes given to sendall; two checksums of them;
           the receiver's peers (Auth.enc_peer); -3;
           every message in the incoming queue, in the model's own codec (tdumps), each followed by -4; -5;
           every on_distributed_update call of _update(), likewise *)
Definition enc_msgs (q : list Wire.msg) : list Z :=
  concat (map (fun m => Wire.msg_to_str tdumps m ++ [-4]) q).

Definition e2e_input : Type :=
  ((((list Z * (Z * Z)) * (Z * Z * Z)) * (list ((Wire.str * Wire.str * Wire.str) * (Z * Z * bool * list Z)) * Z)
    * Wire.str)
   * ((Wire.str * Wire.str * Wire.str) * (Z * Z) * Wire.msg)
   * ((list Z * list Z) * ftab))%type.

Definition run_C09e2e (inp : e2e_input) : list Z :=
  let '((((akey, (nl, ml)), (trecv, nrecv, fuel)), (ps, qmax), addr),
        ((draw, urn, key), (ty, fl), m), ((spec, clock), ft)) := inp in
  let L := mkLink (mkCfg akey nl ml) trecv (Z.to_nat nrecv) (Z.to_nat fuel) in
  let st := mkS (map mk_peer ps) ([] : list Wire.msg) qmax in
  match wire_bytes (jdumps ft) utf8c toy_enc (l_cfg L) draw urn key ty fl m with
  | None => [0]
  | Some bytes =>
      match send_receive (jdumps ft) (jloads ft) utf8c utf8c_dec toy_enc toy_dec L st addr draw urn key ty fl m
                         spec clock with
      | None => [0]
      | Some st' =>
          [1; Crypto.len bytes; sum1 bytes; sum2 bytes]
          ++ concat (map enc_peer (s_peers st')) ++ [-3]
          ++ enc_msgs (s_queue st') ++ [-5]
          ++ enc_msgs (deliveries st')
      end
  end.
