#!/bin/bash
# tools/run_all.sh [quick|thorough] [jobs]: every claimed check against /repo, summary per property
tier=${1:-quick}; jobs=${2:-4}
cd "$(dirname "$0")/.."
ids=$(python3 -c "import json;print(' '.join(c['property_id'] if 'property_id' in c else c['id'] for c in json.load(open('MANIFEST.json'))['checks']))")
mkdir -p /tmp/run_all_$$
for p in $ids; do echo $p; done | xargs -P $jobs -I{} bash -c "./check {} --tier $tier > /tmp/run_all_$$/{}.log 2>&1; echo \"{} exit=\$?\" >> /tmp/run_all_$$/{}.log"
for p in $ids; do grep -E "^(VIOLATION|KNOWN-FINDING)" /tmp/run_all_$$/$p.log | cut -c1-160; tail -2 /tmp/run_all_$$/$p.log | cut -c1-200; done
rm -rf /tmp/run_all_$$
