#!/usr/bin/env python3
"""tools/save_seed.py <name> <property> <worktree> '<needs>' '<caught by>' : store a confirmed seeded change under /verif/seeded/<name>/"""
import json, os, shutil, subprocess, sys
name, prop, wt, needs, caught = sys.argv[1:6]
d = "/verif/seeded/%s" % name
os.makedirs(d, exist_ok=True)
shutil.copy(os.path.join(wt, "patch.diff"), os.path.join(d, "patch.diff"))
demo = [f for f in os.listdir(wt) if f.startswith("demo_")][0]
shutil.copy(os.path.join(wt, demo), os.path.join(d, demo))
base = subprocess.run(["git", "-C", wt, "rev-parse", "--short", "HEAD"], capture_output=True, text=True).stdout.strip()
meta = dict(breaks_property=prop, base_commit=base, needs_to_manifest=needs,
            confirmed_by=["316 tests pass with the change (cd <worktree> && /venv/bin/python -m pytest -q -p no:cacheprovider --timeout=900)",
                          "%s exits 1 with the change and 0 without it (tools/verify_seed.sh)" % demo],
            checks_run="tools/try_mutant.sh seeded/%s/patch.diff <checks> (git -C /repo apply; ./check; git -C /repo checkout -- .)" % name,
            caught_by=caught, written_by="independent sub-agent given only the property text and a scratch worktree")
json.dump(meta, open(os.path.join(d, "meta.json"), "w"), indent=1)
print("saved", d)
