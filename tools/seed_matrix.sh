#!/bin/bash
# tools/seed_matrix.sh [jobs]: run every seeded change against the check of the property it breaks (scratch worktrees,
# never /repo; meta.json's run_checks names further checks when the change is caught by a neighbouring property's check)
# and write seeded/RESULTS.md.  A seed counts as detected when the check exits 1 with a VIOLATION line.
jobs=${1:-3}
cd "$(dirname "$0")/.."
tmp=$(mktemp -d /tmp/seedmx.XXXXXX)
ls seeded | grep -v RESULTS | grep -v '^refactor-' | while read s; do
  p=$(python3 -c "import json;m=json.load(open('seeded/$s/meta.json'));print(' '.join(m.get('run_checks',[m['breaks_property']])))"); echo "$s $p"
done | xargs -P $jobs -L1 bash -c 'tools/try_mutant.sh seeded/$0/patch.diff "$@" > '$tmp'/$0.txt 2>&1'
{
echo "# Seeded changes against the current checks (written by tools/seed_matrix.sh)"
echo
echo "| seeded change | property | exit | failing input reported | last line of the check |"
echo "|---|---|---|---|---|"
for s in $(ls seeded | grep -v RESULTS | grep -v '^refactor-'); do
  p=$(python3 -c "import json;print(json.load(open('seeded/$s/meta.json'))['breaks_property'])")
  rc=$(grep -o "^== C[0-9]* exit=[0-9]*" $tmp/$s.txt | sed 's/^== //' | tr '\n' ' ')
  nf=$(grep -c "no-failing-input-found" $tmp/$s.txt)
  v=$(grep -c "^VIOLATION" $tmp/$s.txt)
  fi="yes"; [ "$v" = 0 ] && fi="-"; [ "$nf" != 0 ] && fi="no (no-failing-input-found)"
  echo "| $s | $p | $rc | $fi | $(tail -1 $tmp/$s.txt | cut -c1-150) |"
done
echo
echo "## Behaviour-preserving refactorings (expected: every check exits 0)"
echo
for s in $(ls seeded | grep '^refactor-'); do
  echo '```'
  tools/try_all.sh seeded/$s/patch.diff $jobs 2>&1 | grep -v '^WARNING' | cut -c1-170
  echo '```'
done
} > seeded/RESULTS.md
rm -rf $tmp
grep -c "exit=1" seeded/RESULTS.md
