#!/bin/bash
# tools/seed_round.sh <dir> : prepare a seeding round: one scratch worktree of /repo's HEAD per property under <dir>
# (outside /repo and /verif) and one prompt file <dir>/prompt_Cxx.txt holding ONLY the property's text, the task
# template (tools/SEED_PROMPT.txt) and the working titles of the changes already kept for that property.
d=$1; mkdir -p $d; cd "$(dirname "$0")/.."
python3 - "$d" <<'PY'
import os, json, collections, sys
d = sys.argv[1]
slugs = collections.defaultdict(list)
for s in sorted(os.listdir('seeded')):
    mp = 'seeded/%s/meta.json' % s
    if os.path.exists(mp) and not s.startswith('refactor'):
        slugs[json.load(open(mp))['breaks_property']].append(s.split('-', 1)[1].replace('-', ' '))
extra = json.load(open('tools/seed_rejected_titles.json'))
for p, l in extra.items():
    slugs[p] += l
tmpl = open('tools/SEED_PROMPT.txt').read()
for line in open('properties.jsonl'):
    prop = json.loads(line); p = prop['id']
    t = tmpl.replace('WORKTREE', '%s/%s' % (d, p)).replace('PROP', p)
    t += ('Other engineers have already submitted changes for this property with the following working titles. Yours '
          'must be a DIFFERENT idea in a DIFFERENT place (another function, another file among the anchored ones or the '
          'ones they call, another kind of slip); do not submit a variation of any of these:\n')
    t += ''.join('  - %s\n' % x for x in slugs[p])
    t += ('The inputs must be VALID for the library (values of the annotated types, configurations the constructors '
          'accept): a change that only shows with type-invalid input does not count. Think about parts of the code nobody '
          'has touched yet: constructors and their defaults, getters and size/emptiness queries used by other components, '
          'close/shutdown and restart paths, error handling and what is caught where, the ORDER of two side effects, '
          'boundary values of configuration parameters (0, 1, equal thresholds, maximum sizes), serialisation helpers and '
          'factories, and the code on the OTHER side of an interface the property depends on (the caller of the anchored '
          'function, or the helper it delegates to).\n\n')
    t += json.dumps(prop, indent=1) + '\n'
    open('%s/prompt_%s.txt' % (d, p), 'w').write(t)
PY
for i in $(seq -w 1 20); do git -C /repo worktree add --detach $d/C$i HEAD -q; done
git -C /repo worktree list | wc -l
