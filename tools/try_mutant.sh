#!/bin/bash
# tools/try_mutant.sh <patch.diff> <Cxx> [<Cyy> ...]
# Applies a seeded change to /repo's working tree, runs the given checks (quick tier), restores /repo.
# Prints one line per check: property, exit status, VIOLATION lines.
set -u
patch="$1"; shift
cd /verif
if ! git -C /repo diff --quiet; then echo "/repo has uncommitted changes; refusing" >&2; exit 2; fi
git -C /repo apply "$patch" || { echo "patch does not apply" >&2; exit 2; }
trap 'git -C /repo checkout -- . ; git -C /repo clean -fdq -- bobocep' EXIT
for p in "$@"; do
  out=$(./check "$p" 2>&1); rc=$?
  echo "== $p exit=$rc"
  echo "$out" | grep -E "^(VIOLATION|KNOWN-FINDING)" | cut -c1-260
  echo "$out" | tail -1 | cut -c1-260
done
