#!/bin/bash
# tools/try_mutant.sh <patch.diff> <Cxx> [<Cyy> ...]
# Applies a seeded change to a scratch worktree of /repo's HEAD (never to /repo itself), runs the given checks
# (quick tier) against it via VERIF_REPO, removes the worktree. Evidence of these runs goes to a scratch directory.
set -u
patch="$(realpath "$1")"; shift
cd "$(dirname "$0")/.."
wt=$(mktemp -d /tmp/mutwt.XXXXXX); rmdir "$wt"
git -C /repo worktree add --detach "$wt" HEAD -q || exit 2
trap 'git -C /repo worktree remove --force "$wt" >/dev/null 2>&1; git -C /repo worktree prune' EXIT
git -C "$wt" apply "$patch" || { echo "patch does not apply" >&2; exit 2; }
export VERIF_REPO="$wt" VERIF_EVID=/tmp/verif_evid_scratch_$$; mkdir -p $VERIF_EVID
for p in "$@"; do
  out=$(./check "$p" 2>&1); rc=$?
  echo "== $p exit=$rc"
  echo "$out" | grep -E "^(VIOLATION|KNOWN-FINDING)" | cut -c1-200
  echo "$out" | grep -o 'replay=[^ ]*' | cut -d= -f2 | head -5 | while read f; do python3 -c "
import json
o=json.load(open('$f')); print('     ', o.get('signature') or 'no-failing-input', '|', (o.get('what') or str(o.get('no_longer_checks') or o.get('errors')))[:220])" 2>/dev/null; done
  echo "$out" | tail -1 | cut -c1-220
done
rm -rf $VERIF_EVID
