#!/bin/bash
# tools/seed_sweep.sh <seed> [<seed> ...]: every quick check on /repo under other generator seeds (VERIF_SEED), evidence to
# a scratch directory; prints exit code and time per check - anything but exit 0 on the unchanged tree is a false alarm
cd "$(dirname "$0")/.."
ids=$(python3 -c "import json;print(' '.join(c['property_id'] for c in json.load(open('MANIFEST.json'))['checks']))")
for sd in "$@"; do
  ev=/tmp/verif_evid_sweep_$sd; mkdir -p $ev
  for p in $ids; do echo $p; done | xargs -P 4 -I{} bash -c "s=\$(date +%s); VERIF_SEED=$sd VERIF_EVID=$ev timeout 1500 ./check {} > $ev/{}.log 2>&1; echo \"seed $sd {} exit=\$? \$((\$(date +%s)-s))s \$(grep -c '^VIOLATION' $ev/{}.log) violation line(s)\""
done
