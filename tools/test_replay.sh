#!/bin/bash
# tools/test_replay.sh <seed-name> <Cxx>: apply the seeded change, run the check, replay its first replay file
# on the changed tree (expect exit 1) and on the restored tree (expect exit 0).
seed=$1; p=$2
cd /verif
export VERIF_EVID=/tmp/verif_evid_scratch; mkdir -p $VERIF_EVID
git -C /repo apply /verif/seeded/$seed/patch.diff || exit 2
out=$(./check $p 2>&1)
f=$(echo "$out" | grep -o 'replay=[^ ]*' | head -1 | cut -d= -f2)
cp "$f" /tmp/replay_test.json
./check $p --replay /tmp/replay_test.json > /tmp/replay_with.txt 2>&1; a=$?
git -C /repo checkout -- .
./check $p --replay /tmp/replay_test.json > /tmp/replay_without.txt 2>&1; b=$?
echo "$seed $p: replay on changed tree exit=$a, on restored tree exit=$b"
