#!/bin/bash
# tools/test_replay.sh <seed-name> <Cxx>: apply the seeded change to a scratch worktree of /repo's HEAD (never to
# /repo itself), run the check there, replay its first replay file on the changed tree (expect exit 1) and on
# /repo (expect exit 0).
seed=$1; p=$2
cd "$(dirname "$0")/.."
wt=$(mktemp -d /tmp/rpwt.XXXXXX); rmdir "$wt"
ev=/tmp/verif_evid_scratch_$$; mkdir -p $ev
git -C /repo worktree add --detach "$wt" HEAD -q || exit 2
trap 'git -C /repo worktree remove --force "$wt" >/dev/null 2>&1; git -C /repo worktree prune; rm -rf $ev' EXIT
git -C "$wt" apply /verif/seeded/$seed/patch.diff || exit 2
out=$(VERIF_REPO=$wt VERIF_EVID=$ev ./check $p 2>&1)
f=$(echo "$out" | grep -o 'replay=[^ ]*' | head -1 | cut -d= -f2)
if [ -z "$f" ]; then echo "$seed $p: NOT DETECTED (no VIOLATION line)"; exit 1; fi
VERIF_REPO=$wt VERIF_EVID=$ev ./check $p --replay "$f" > $ev/with.txt 2>&1; a=$?
VERIF_EVID=$ev ./check $p --replay "$f" > $ev/without.txt 2>&1; b=$?
echo "$seed $p: replay on changed tree exit=$a, on unchanged tree exit=$b"
[ $a = 1 ] && [ $b = 0 ]
