#!/bin/bash
# tools/verify_seed.sh <Cxx> [dir=/tmp/mut] : confirm a seeded change in <dir>/<Cxx> (tests pass with it, demo exits 1
# with it and 0 without it)
p=$1; w=${2:-/tmp/mut}/$p
cd $w || exit 2
git diff -- bobocep > patch.diff
t=$(/venv/bin/python -m pytest -q -p no:cacheprovider --timeout=900 2>&1 | tail -1)
PYTHONPATH=$w timeout 600 /venv/bin/python demo_$p.py > $w/.demo_with.txt 2>&1; with=$?
git apply -R patch.diff
PYTHONPATH=$w timeout 600 /venv/bin/python demo_$p.py > $w/.demo_without.txt 2>&1; without=$?
git apply patch.diff
echo "$p tests: $t | demo with change exit=$with, without exit=$without"
