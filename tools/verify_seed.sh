#!/bin/bash
# tools/verify_seed.sh <Cxx> : confirm a seeded change in /tmp/mut/<Cxx> (tests pass with it, demo fails with / passes without)
p=$1; w=/tmp/mut/$p
cd $w || exit 2
git diff -- bobocep > patch.diff
t=$(/venv/bin/python -m pytest -q -p no:cacheprovider --timeout=900 2>&1 | tail -1)
PYTHONPATH=$w timeout 300 /venv/bin/python demo_$p.py > /tmp/demo_with.txt 2>&1; with=$?
git apply -R patch.diff
PYTHONPATH=$w timeout 300 /venv/bin/python demo_$p.py > /tmp/demo_without.txt 2>&1; without=$?
git apply patch.diff
echo "$p tests: $t | demo with change exit=$with, without exit=$without"
