#!/bin/bash
# tools/coverage.sh [jobs]: statement coverage of /repo/bobocep under the quick tier of every check (coverage.py from
# /venv; pmap runs inline, so slow: ~15 min).  Subprocesses (the C08 workloads) are not traced.  Report on stdout.
jobs=${1:-5}
cd "$(dirname "$0")/.."
d=$(mktemp -d /tmp/verifcov.XXXXXX)
printf '[run]\nparallel = true\nsource = /repo/bobocep\ndata_file = %s/.coverage\n' $d > $d/rc
ids=$(python3 -c "import json;print(' '.join(c['property_id'] for c in json.load(open('MANIFEST.json'))['checks']))")
export PYTHONHASHSEED=0 PYTHONDONTWRITEBYTECODE=1 PYTHONPATH="/repo:$(pwd)/harness" VERIF_JOBS=1 VERIF_EVID=$d/evid
for p in $ids; do echo $p; done | xargs -P $jobs -I{} bash -c "/venv/bin/python -m coverage run --rcfile=$d/rc harness/main.py {} > $d/{}.log 2>&1"
( cd $d && /venv/bin/python -m coverage combine --rcfile=$d/rc --data-file=$d/all.db $(ls -a $d | grep '^\.coverage\.') >/dev/null 2>&1
  /venv/bin/python -m coverage report --data-file=$d/all.db -m | grep -v "100%" | sed 's#/repo/bobocep/##' )
rm -rf $d
