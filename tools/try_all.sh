#!/bin/bash
# tools/try_all.sh <patch.diff> [jobs] [checks…]: one scratch worktree of /repo's HEAD with the patch applied, every
# (or the named) check against it in parallel; prints one line per check.  Never touches /repo.
patch="$(realpath "$1")"; jobs=${2:-4}; shift; shift
cd "$(dirname "$0")/.."
ids="$*"; [ -z "$ids" ] && ids=$(python3 -c "import json;print(' '.join(c['property_id'] for c in json.load(open('MANIFEST.json'))['checks']))")
wt=$(mktemp -d /tmp/allwt.XXXXXX); rmdir "$wt"
git -C /repo worktree add --detach "$wt" HEAD -q || exit 2
ev=/tmp/verif_evid_scratch_$$; mkdir -p $ev
trap 'git -C /repo worktree remove --force "$wt" >/dev/null 2>&1; git -C /repo worktree prune; rm -rf $ev' EXIT
git -C "$wt" apply "$patch" || { echo "patch does not apply" >&2; exit 2; }
export VERIF_REPO="$wt" VERIF_EVID=$ev
for p in $ids; do echo $p; done | xargs -P $jobs -I{} bash -c './check {} > '$ev'/{}.log 2>&1; echo "{} exit=$?" >> '$ev'/{}.log'
for p in $ids; do
  rc=$(tail -1 $ev/$p.log); v=$(grep -ac "^VIOLATION" $ev/$p.log)
  echo "$rc violations=$v | $(grep -aE "^C[0-9]+ (quick|thorough)" $ev/$p.log | cut -c1-150)"
  grep "^VIOLATION" $ev/$p.log | head -2 | while read l; do f=$(echo "$l" | grep -o 'replay=[^ ]*' | cut -d= -f2); python3 -c "
import json,sys
o=json.load(open('$f')); print('     ', (o.get('signature') or 'no-failing-input'), '|', (o.get('what') or str(o.get('no_longer_checks') or o.get('errors'))[:300])[:300])" 2>/dev/null; done
done
