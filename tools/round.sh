#!/bin/bash
# tools/round.sh <dir> <Cxx> [extra checks…]: verify a seeded change in <dir>/<Cxx> and run the property's check on it
d=$1; p=$2; shift 2
tools/verify_seed.sh $p $d
tools/try_mutant.sh $d/$p/patch.diff $p "$@"
