"""C19 Patterns are well-formed by construction."""
import itertools

import common
import gen_patterns as G
import predlang as PL
from common import zz, cbool, clist, cnat
from par import pmap

PROP = "C19"
PROPERTY_FILES = ["Properties/C19.v"]
IMPORTS = "Base.History Model.Pattern Model.Run Model.Decider Model.PredLang Model.TypedPred"
META = dict(
    level_text="Theorems (Coq): the block constructor accepts exactly the complement of the documented illegal flag "
               "combinations (and needs a predicate), the pattern constructor exactly non-empty name/blocks with plain "
               "first and last block; every builder method appends exactly the documented flags/group/repetitions in "
               "call order; whatever builder+constructors accept is well-formed; a well-formed pattern never indexes "
               "outside its block list for any event and any stream (arbitrary, also raising, predicates); a typed "
               "predicate calls its function only on data of the declared type or a successful cast. Tie: the "
               "constructor truth tables (all 16 flag tuples x predicate count, first/inner/last positions) are "
               "re-derived from /repo on every run and re-proved against the model (complete on this finite domain); "
               "all builder call sequences up to length 3 (+ sampled longer) model vs real builder; real BoboRun.process "
               "on accepted patterns x streams; real BoboPredicateCallType on matching/castable/non-castable data.",
    level_note="Trusted: Coq kernel; harness; assumption cast_type: dtype(x) returns an instance of dtype (Python "
               "constructors int/float/str/list/tuple/bool).",
    rule="exhaustive: 16 flag tuples x {0,1,2} predicates; patterns of 1-3 blocks over all 16 flag tuples per position; "
         "builder sequences <=3 over 22 method/option variants; random sequences up to 6; accepted patterns x streams; "
         "typed predicates over 4 dtypes x subtype x cast x 12 data values. non-trivial = a constructor rejected "
         "something or a builder sequence produced >=2 blocks",
    trusted_base=["harness/predlang.py"], assumptions=["cast_type (Python constructors)"])

B = [False, True]


def block_table():
    """real BoboPatternBlock over all flag tuples"""
    from bobocep.cep.phenom.pattern.pattern import BoboPatternBlock, BoboPatternBlockError
    from bobocep.cep.phenom.pattern.predicate import BoboPredicateCall
    rows = []
    for n in (0, 1, 2):
        for s, l, ng, o in itertools.product(B, repeat=4):
            try:
                BoboPatternBlock(predicates=[BoboPredicateCall(lambda e, h: True)] * n, group="g", strict=s, loop=l, negated=ng, optional=o)
                ok = True
            except BoboPatternBlockError:
                ok = False
            rows.append(((n, s, l, ng, o), ok))
    return rows


class FB:
    """stand-in block for the pattern constructor (it only reads the flag properties)"""
    def __init__(self, s, l, n, o):
        self.strict, self.loop, self.negated, self.optional = s, l, n, o
        self.predicates, self.group = (), ""


def pattern_table():
    from bobocep.cep.phenom.pattern.pattern import BoboPattern, BoboPatternError
    rows = []
    flags = list(itertools.product(B, repeat=4))
    for name in ("", "p"):
        for nb in (0, 1, 2, 3):
            combos = itertools.product(flags, repeat=nb) if nb < 3 else \
                ((a, (False, False, False, False), z) for a in flags for z in flags)
            for blocks in combos:
                try:
                    BoboPattern(name=name, blocks=[FB(*f) for f in blocks], preconditions=[], haltconditions=[])
                    ok = True
                except BoboPatternError:
                    ok = False
                rows.append(((len(name), [list(f) for f in blocks]), ok))
    return rows


def gen_facts(res):
    bt = block_table()
    pt = pattern_table()
    src = ["From Bobo Require Import Base.Prelude Base.History Model.Pattern Model.Run Model.PredLang.",
           "Definition block_rows : list (nat * bool * bool * bool * bool * bool) := ["]
    src.append(";\n".join("  (%s, %s, %s, %s, %s, %s)" % (cnat(k[0]), cbool(k[1]), cbool(k[2]), cbool(k[3]), cbool(k[4]), cbool(ok))
                          for k, ok in bt))
    src.append("].")
    src.append("Theorem block_ctor_table_matches_code : forallb (fun r => let '(n, s, l, ng, o, ok) := r in "
               "Bool.eqb (Z.eqb (block_ctor_code n s l ng o) 0) ok) block_rows = true.")
    src.append("Proof. vm_compute. reflexivity. Qed.")
    src.append("Definition mkb (f : bool * bool * bool * bool) : block ev := let '(s, l, ng, o) := f in mkBlock [] 0 s l ng o.")
    src.append("Definition pattern_rows : list (nat * list (bool * bool * bool * bool) * bool) := [")
    src.append(";\n".join("  (%s, %s, %s)" % (cnat(k[0]), clist(["(%s, %s, %s, %s)" % tuple(cbool(x) for x in f) for f in k[1]]), cbool(ok))
                          for k, ok in pt))
    src.append("].")
    src.append("Theorem pattern_ctor_table_matches_code : forallb (fun r => let '(nl, fs, ok) := r in "
               "Bool.eqb (Z.eqb (pattern_ctor_code nl (map mkb fs)) 0) ok) pattern_rows = true.")
    src.append("Proof. vm_compute. reflexivity. Qed.")
    import os
    os.makedirs(common.GEN, exist_ok=True)
    open(os.path.join(common.GEN, "Facts_C19.v"), "w").write("\n".join(src) + "\n")
    ok, log = common.coqc("Gen/Facts_C19.v")
    res.gen_obligations.append(("Gen/Facts_C19.v:block_ctor_table_matches_code+pattern_ctor_table_matches_code", ok, log))
    res.extra["ctor_rows"] = dict(block=len(bt), pattern=len(pt))
    # oracle on the implementation: documented rule, independent of the model
    for (n, s, l, ng, o), ok in bt:
        legal = n > 0 and not (s and o) and not (l and (ng or o)) and not (ng and o)
        res.note_case(("blk", n, s, l, ng, o), not ok)
        if ok != legal:
            res.failures.append(dict(signature="block-ctor-accepts-illegal" if ok else "block-ctor-rejects-legal",
                                     what="BoboPatternBlock(npreds=%d, strict=%s, loop=%s, negated=%s, optional=%s) %s"
                                          % (n, s, l, ng, o, "accepted" if ok else "rejected"),
                                     case=dict(npreds=n, strict=s, loop=l, negated=ng, optional=o)))
    for (nl, blocks), ok in pt:
        legal = nl > 0 and len(blocks) > 0 and not any(blocks[0][1:]) and not any(blocks[-1][1:])
        res.note_case(("pat", nl, repr(blocks)), not ok)
        if ok != legal:
            res.failures.append(dict(signature="pattern-ctor-accepts-illegal" if ok else "pattern-ctor-rejects-legal",
                                     what="BoboPattern(name length %d, blocks %s) %s" % (nl, blocks, "accepted" if ok else "rejected"),
                                     case=dict(namelen=nl, blocks=blocks)))


# ---------- builder ----------
def variants():
    v = []
    for t in (0, 1, 2):
        for l in B:
            v.append(("next", dict(group=1, times=t, loop=l)))
    for t in (1, 2):
        v.append(("not_next", dict(group=2, times=t)))
    for l in B:
        for o in B:
            v.append(("followed_by", dict(group=3, times=1, loop=l, optional=o)))
    v.append(("followed_by", dict(group=0, times=3, loop=False, optional=False)))
    v.append(("not_followed_by", dict(group=4, times=1)))
    for npred in (0, 1, 2):
        v.append(("followed_by_any", dict(group=5, times=1, loop=False, optional=False, npred=npred)))
    v.append(("followed_by_any", dict(group=5, times=2, loop=True, optional=False, npred=2)))
    v.append(("followed_by_any", dict(group=5, times=1, loop=False, optional=True, npred=2)))
    v.append(("not_followed_by_any", dict(group=6, times=1, npred=2)))
    # repetition counts below one (the builders add max(times, 1) blocks)
    v.append(("next", dict(group=1, times=-1, loop=False)))
    v.append(("not_next", dict(group=2, times=-2)))
    v.append(("followed_by", dict(group=3, times=-1, loop=False, optional=False)))
    v.append(("followed_by", dict(group=3, times=0, loop=True, optional=False)))
    v.append(("not_followed_by", dict(group=4, times=-1)))
    v.append(("followed_by_any", dict(group=5, times=-3, loop=False, optional=False, npred=2)))
    v.append(("not_followed_by_any", dict(group=6, times=0, npred=2)))
    # lists mixing bare callables and predicate objects, in every order
    v.append(("followed_by_any", dict(group=5, times=1, loop=False, optional=False, npred=2, mix="ic")))
    v.append(("followed_by_any", dict(group=5, times=1, loop=False, optional=False, npred=3, mix="cic")))
    v.append(("not_followed_by_any", dict(group=6, times=1, npred=2, mix="ic")))
    v.append(("not_followed_by_any", dict(group=6, times=1, npred=3, mix="icc")))
    # every method with a repetition count above one
    v.append(("not_followed_by", dict(group=4, times=2)))
    v.append(("not_followed_by_any", dict(group=6, times=3, npred=2)))
    v.append(("followed_by", dict(group=3, times=2, loop=True, optional=False)))
    v.append(("precondition", dict()))
    v.append(("haltcondition", dict()))
    return v


VARS = variants()


def _shape_of(p):
    return ([(len(b.predicates), b.group, b.strict, b.loop, b.negated, b.optional) for b in p.blocks],
            len(p.preconditions), len(p.haltconditions), p.singleton)


def direct_pattern_alias():
    """BoboPattern built from the caller's own lists: changing those lists afterwards must not change the pattern"""
    from bobocep.cep.phenom.pattern.pattern import BoboPattern, BoboPatternBlock
    from bobocep.cep.phenom.pattern.predicate import BoboPredicateCall
    mk = lambda **kw: BoboPatternBlock(group="g", predicates=[BoboPredicateCall(lambda e, h: True)], strict=False,   # noqa
                                       loop=False, negated=False, optional=kw.get("optional", False))
    blocks, pre, halt = [mk(), mk()], [BoboPredicateCall(lambda e, h: True)], []
    p = BoboPattern(name="p", blocks=blocks, preconditions=pre, haltconditions=halt)
    was = _shape_of(p)
    blocks.append(mk(optional=True))
    pre.clear()
    halt.append(BoboPredicateCall(lambda e, h: True))
    return None if _shape_of(p) == was else "after the caller changed its own lists the pattern has %d blocks, %d preconditions, %d "         "haltconditions (was %d, %d, %d)" % (len(p.blocks), len(p.preconditions), len(p.haltconditions), len(was[0]), was[1], was[2])


def method_predicate_case(typed):
    """predicates given as BOUND METHODS of an object the application does not keep (builder.followed_by(
    Threshold(30).exceeded)): the accepted pattern is run against a stream, after a garbage collection; nothing but
    the verdicts of the methods may come out of BoboRun.process"""
    import gc
    from bobocep.cep.engine.decider.run import BoboRun
    from bobocep.cep.event import BoboEventSimple, BoboHistory
    from bobocep.cep.phenom.pattern.builder import BoboPatternBuilder
    from bobocep.cep.phenom.pattern.predicate import BoboPredicateCallType

    class Threshold:
        def __init__(self, limit):
            self.limit = limit

        def exceeded(self, event, history):
            return event.data > self.limit
    b = BoboPatternBuilder("p")
    for lim in (0, 10, 20):
        m = Threshold(lim).exceeded
        b.followed_by(BoboPredicateCallType(m, dtype=int) if typed else m)
        del m
    b.haltcondition(Threshold(1000).exceeded)
    pat = b.generate()
    gc.collect()
    ev = [BoboEventSimple(event_id="e%d" % i, timestamp=i, data=d) for i, d in enumerate((5, 15, 25))]
    try:
        run = BoboRun(run_id="r1", phenomenon_name="ph", pattern=pat, block_index=1,
                      history=BoboHistory({pat.blocks[0].group: [ev[0]]}))
        for e in ev[1:]:
            run.process(e)
    except Exception as ex:      # noqa
        return "pattern accepted by the builder, predicates = bound methods of objects nobody else keeps: %s: %s escaped " \
               "BoboRun.process" % (type(ex).__name__, ex)
    if not run.is_complete():
        return "pattern of three bound-method predicates (> 0, > 10, > 20) on data 5, 15, 25: the run did not complete (block %d)" \
               % run.block_index
    return None


def real_build(name, single, seq, early=False):
    """early: generate() is also called after every builder call (a builder reused for several patterns); the result
    reported is that of the last generate(), which must not depend on the earlier ones"""
    from bobocep.cep.phenom.pattern.builder import BoboPatternBuilder
    from bobocep.cep.phenom.pattern.pattern import BoboPatternError, BoboPatternBlockError
    from bobocep.cep.phenom.pattern.predicate import BoboPredicate, BoboPredicateCall
    pred = lambda e, h: True   # noqa
    kept = []
    try:
        b = BoboPatternBuilder(name=name, singleton=single)
    except BoboPatternError:
        return [2]
    try:
        for m, kw in seq:
            kw = dict(kw)
            if "npred" in kw:
                n = kw.pop("npred")
                mix = kw.pop("mix", "c" * n)        # c: a bare callable, i: a BoboPredicate instance
                plist = [pred if c == "c" else BoboPredicateCall(lambda e, h: True) for c in mix]
                getattr(b, m)(predicates=plist, group=PL.gname(kw.pop("group")), **kw)
            elif m in ("precondition", "haltcondition"):
                getattr(b, m)(pred)
            else:
                getattr(b, m)(predicate=pred, group=PL.gname(kw.pop("group")), **kw)
            if early:
                try:
                    q = b.generate()
                    kept.append((q, _shape_of(q)))
                except BoboPatternError:
                    pass
    except BoboPatternBlockError:
        return [1]
    # a pattern that was accepted stays what it was, whatever is done with the builder afterwards
    for q, was in kept:
        if _shape_of(q) != was:
            return [7, len(was[0]), len(q.blocks)]
    try:
        p = b.generate()
    except BoboPatternError:
        return [2]
    out = [0, len(p.blocks)]
    for blk in p.blocks:
        out += [len(blk.predicates), sum(1 for q in blk.predicates if isinstance(q, BoboPredicate)),
                PL.code_of(blk.group) if blk.group else 0, int(blk.strict), int(blk.loop), int(blk.negated), int(blk.optional)]
    return out + [len(p.preconditions), len(p.haltconditions), int(p.singleton)]


def bop_coq(m, kw):
    P = "(interp (PConst true))"
    g = zz(kw.get("group", 0))
    t = zz(kw.get("times", 1))
    if m == "next":
        return "(BNext ev %s %s %s %s)" % (P, g, t, cbool(kw["loop"]))
    if m == "not_next":
        return "(BNotNext ev %s %s %s)" % (P, g, t)
    if m == "followed_by":
        return "(BFollowedBy ev %s %s %s %s %s)" % (P, g, t, cbool(kw["loop"]), cbool(kw["optional"]))
    if m == "not_followed_by":
        return "(BNotFollowedBy ev %s %s %s)" % (P, g, t)
    if m == "followed_by_any":
        return "(BFollowedByAny ev %s %s %s %s %s)" % (clist([P] * kw["npred"]), g, t, cbool(kw["loop"]), cbool(kw["optional"]))
    if m == "not_followed_by_any":
        return "(BNotFollowedByAny ev %s %s %s)" % (clist([P] * kw["npred"]), g, t)
    if m == "precondition":
        return "(BPrecondition ev %s)" % P
    return "(BHaltcondition ev %s)" % P


PREAMBLE = """
Definition enc_blk (b : block ev) : list Z :=
  [n2z (length (b_preds b)); n2z (length (b_preds b)) (* every entry is a predicate object *);
   b_group b; b2z (b_strict b); b2z (b_loop b); b2z (b_neg b); b2z (b_opt b)].
Definition run_C19_build (inp : nat * bool * list (bop ev)) : list Z :=
  let '(nl, single, os) := inp in
  match build ev 1 nl single os with
  | inr c => [c]
  | inl p => 0 :: n2z (length (p_blocks p)) :: concat (map enc_blk (p_blocks p))
             ++ [n2z (length (p_pre p)); n2z (length (p_halt p)); b2z (p_single p)]
  end.
Definition run_C19_typed (inp : bool * bool * bool * bool * bool) : list Z :=
  let '(ist, isx, castok, subtype, castflag) := inp in
  let r := typed_eval Z (fun _ => ist) (fun _ => isx) (fun d => if castok then Some (d + 100) else None)
                      (fun d => if d =? 7 then PTrue else if d =? 107 then PTrue else PFalse) subtype castflag 7 in
  match snd r with NotCalled => [0; match fst r with PTrue => 1 | _ => 0 end]
                 | CalledWith d => [1; d; match fst r with PTrue => 1 | _ => 0 end] end.
"""


def typed_cases():
    """real BoboPredicateCallType: which datum the callee sees; the original event must stay as it was"""
    from bobocep.cep.phenom.pattern.predicate import BoboPredicateCallType
    from bobocep.cep.event import BoboEventSimple, BoboHistory
    out = []
    values = [7, 7.5, "7", "x", True, None, [1], (1,), b"7", {"a": 1}, 3 + 0j, -2]
    for dtype in (int, float, str, list):
        for subtype in B:
            for castflag in B:
                for v in values:
                    seen = []

                    def mk(seen):
                        def call(e, h):
                            seen.append(e)
                            return True
                        return call
                    call = mk(seen)
                    ev = BoboEventSimple(event_id="e1", timestamp=1, data=v)
                    p = BoboPredicateCallType(call=call, dtype=dtype, subtype=subtype, cast=castflag)
                    try:
                        r = p.evaluate(ev, BoboHistory({}))
                        raised = None
                    except Exception as ex:      # noqa
                        r, raised = None, type(ex).__name__
                    ist = isinstance(v, dtype)
                    isx = type(v) == dtype
                    try:
                        cv = dtype(v)
                        castok = True
                    except (TypeError, ValueError):
                        cv, castok = None, False
                    except Exception:            # noqa: other exceptions propagate out of evaluate
                        cv, castok = None, None
                    out.append(dict(dtype=dtype.__name__, subtype=subtype, cast=castflag, value=repr(v), ist=ist, isx=isx,
                                    castok=castok, result=r, raised=raised,
                                    seen=[(type(e.data).__name__, repr(e.data), e is ev) for e in seen],
                                    orig_ok=(ev.data is v or ev.data == v) and type(ev.data) == type(v)))
    return out


def documented_blocks(seq):
    """the blocks the builder methods are documented to append, independent of the model:
    (number of predicates, number of them that are predicate objects, group, strict, loop, negated, optional)"""
    exp = []
    for m, kw in seq:
        reps = max(kw.get("times", 1), 1)
        fl = {"next": (1, 1, kw.get("loop", False), 0, 0), "not_next": (1, 1, 0, 1, 0),
              "followed_by": (1, 0, kw.get("loop", False), 0, kw.get("optional", False)),
              "not_followed_by": (1, 0, 0, 1, 0),
              "followed_by_any": (kw.get("npred", 1), 0, kw.get("loop", False), 0, kw.get("optional", False)),
              "not_followed_by_any": (kw.get("npred", 1), 0, 0, 1, 0)}.get(m)
        if fl:
            exp += [[fl[0], fl[0], kw["group"], int(fl[1]), int(fl[2]), int(fl[3]), int(fl[4])]] * reps
    return exp


def feed_shape(shape, scheme, st):
    """a run of the pattern with these block kinds, started on the first event and offered the rest: the name of
    the exception class that escaped BoboRun.process (a predicate never raises here), or None"""
    from bobocep.cep.engine.decider.run import BoboRun
    from bobocep.cep.event import BoboHistory
    pdesc = G.pattern(1, G.assign(shape, scheme, "distinct"))
    pat = PL.make_pattern(pdesc)
    evs = [PL.make_event(e) for e in G.events(st)]
    run = BoboRun("r", "ph1", pat, 1, BoboHistory({PL.gname(pdesc["blocks"][0]["group"]): [evs[0]]}))
    for e in evs[1:]:
        try:
            run.process(e)
        except Exception as ex:   # noqa
            return type(ex).__name__
    return None


def run(ctx, res):
    rng = ctx.rng
    gen_facts(res)
    # builder sequences
    seqs = []
    for n in range(0, 4 if ctx.quick else 4):
        for idxs in itertools.product(range(len(VARS)), repeat=n):
            seqs.append([VARS[i] for i in idxs])
    for _ in range(2000 if ctx.quick else 40000):
        seqs.append([rng.choice(VARS) for _ in range(rng.randint(4, 6))])
    cases = [("p" if k % 17 else "", bool(k % 2), s) for k, s in enumerate(seqs)]

    def bw(c):
        return real_build(*c)
    outs = pmap(bw, cases, chunksize=200)
    coq_cases = []
    for (name, single, seq), out in zip(cases, outs):
        res.note_case(("build", name, single, repr(seq)), out[0] != 0 or (len(out) > 1 and out[1] >= 2))
        res.count("build_result_%d" % out[0])
        coq_cases.append(("(%s, %s, %s)" % (cnat(len(name)), cbool(single), clist([bop_coq(m, kw) for m, kw in seq])), out))
        # oracle: documented flags per method, independent of the model
        if out[0] == 0:
            exp = documented_blocks(seq)
            got = [out[2 + 7 * i: 9 + 7 * i] for i in range(out[1])]
            if got != exp:
                res.failures.append(dict(signature="builder-flags", what="builder produced blocks %s, documented %s" % (got, exp),
                                         case=dict(name=name, single=single, seq=seq)))
    # a builder reused: generate() after every call must not change what the last generate() returns
    n_early = 0
    for (name, single, seq), out in list(zip(cases, outs))[::3]:
        if len(seq) < 2:
            continue
        n_early += 1
        out2 = real_build(name, single, seq, early=True)
        if out2 != out:
            res.failures.append(dict(signature="builder-result-depends-on-earlier-generate",
                                     what="the same builder calls give %s, and %s when generate() is also called after each of them"
                                          % (out, out2), case=dict(name=name, single=single, seq=seq, early=True)))
    res.extra["builder_sequences_with_intermediate_generate"] = n_early
    bad = direct_pattern_alias()
    res.note_case(("pattern-alias",), True)
    if bad:
        res.failures.append(dict(signature="accepted-pattern-changed-afterwards", what=bad, case=dict(alias=True)))
    for typed in (False, True):
        bad = method_predicate_case(typed)
        res.note_case(("method-predicates", typed), True)
        if bad:
            res.failures.append(dict(signature="accepted-pattern-raises-internal-error", what=bad, case=dict(method_predicates=typed)))
    mism, errs = common.coq_run_cases("C19b", IMPORTS, "run_C19_build", "(nat * bool * list (bop ev))", coq_cases,
                                      shard=400, preamble=PREAMBLE)
    res.errors += errs
    res.traces_validated += len(coq_cases) - len(mism)
    for idx, mo in mism[:8]:
        res.mismatches.append(dict(case=dict(name=cases[idx][0], single=cases[idx][1], seq=cases[idx][2]), impl=coq_cases[idx][1], model=mo))

    # accepted patterns x streams: nothing but predicate exceptions may escape BoboRun.process
    # (both predicate schemes: overlapping neighbours, and one value per block so that an event can skip several
    # skippable blocks at once or match none of them)
    n_runs = 0
    for shape, scheme in [(sh, sc) for sh in G.shapes(5 if ctx.quick else 6) for sc in (1, 0)]:
        if len(shape) < 2:
            continue
        for st in ([1, 2, 3, 4], [4, 4, 4, 4, 4], [1, 3, 2, 4, 5], [2, 2, 3, 3, 4, 4], [1, 5, 5, 5], [1, 4, 4, 5, 6],
                   [1, 6, 6, 3, 5], [1, 9, 9, 2, 9, 4]):
            n_runs += 1
            exn = feed_shape(shape, scheme, st)
            if exn:
                res.failures.append(dict(signature="internal-error-in-process", what="%s escaped BoboRun.process" % exn,
                                         case=dict(shape=shape, scheme=scheme, stream=st)))
            res.note_case(("run", tuple(shape), scheme, tuple(st)), True)
    res.extra["runs_fed"] = n_runs

    # typed predicates
    tcs = typed_cases()
    tcoq = []
    for t in tcs:
        res.note_case(("typed", t["dtype"], t["subtype"], t["cast"], t["value"]), not t["ist"])
        if t["castok"] is None:
            res.count("typed_cast_raises_other")
            continue
        if t["raised"]:
            # the callee never raises here and a cast that fails with TypeError / ValueError means "predicate False":
            # nothing may escape evaluate()
            res.failures.append(dict(signature="typed-predicate-raised", what="%s escaped BoboPredicateCallType(dtype=%s, subtype=%s, "
                                     "cast=%s).evaluate for data %s" % (t["raised"], t["dtype"], t["subtype"], t["cast"], t["value"]), case=t))
            continue
        ok_type = t["ist"] if t["subtype"] else t["isx"]
        called = bool(t["seen"])
        exp_called = ok_type or (t["cast"] and t["castok"])
        if called != exp_called or (called and not ok_type and t["seen"][0][0] != t["dtype"]) or not t["orig_ok"] \
                or (called and ok_type and not t["seen"][0][2]) or (not called and t["result"] is not False):
            res.failures.append(dict(signature="typed-predicate", what="typed predicate saw %s for %s" % (t["seen"], t), case=t))
        enc = [1, 7 if ok_type else 107, 1] if called else [0, 0]
        tcoq.append(("(%s, %s, %s, %s, %s)" % (cbool(t["ist"]), cbool(t["isx"]), cbool(t["castok"]), cbool(t["subtype"]), cbool(t["cast"])), enc))
    mism, errs = common.coq_run_cases("C19t", IMPORTS, "run_C19_typed", "(bool * bool * bool * bool * bool)", tcoq, preamble=PREAMBLE)
    res.errors += errs
    res.traces_validated += len(tcoq) - len(mism)
    for idx, mo in mism[:5]:
        res.mismatches.append(dict(case=tcoq[idx][0], impl=tcoq[idx][1], model=mo))
    res.samples = [dict(builder_sequence=cases[700][2], result=outs[700])]
    res.exhaustive = True
    res.extra["exhaustive_scope"] = "all 16 flag tuples x {0,1,2} predicates; patterns <=3 blocks over all flag tuples at the ends; builder sequences <=3 over %d variants" % len(VARS)
    res.failures.sort(key=lambda f: len(repr(f["case"])))


def typed_fail(t):
    if t["castok"] is None:
        return None
    if t["raised"]:
        return "%s escaped evaluate() for %s" % (t["raised"], {k: t[k] for k in ("dtype", "subtype", "cast", "value")})
    ok_type = t["ist"] if t["subtype"] else t["isx"]
    called = bool(t["seen"])
    exp_called = ok_type or (t["cast"] and t["castok"])
    if called != exp_called or (called and not ok_type and t["seen"][0][0] != t["dtype"]) or not t["orig_ok"] \
            or (called and ok_type and not t["seen"][0][2]) or (not called and t["result"] is not False):
        return "typed predicate saw %s for %s" % (t["seen"], {k: t[k] for k in ("dtype", "subtype", "cast", "value")})
    return None


def replay(obj):
    case = obj.get("case") or {}
    sig = obj.get("signature", "")
    print(obj.get("what"))
    if "method_predicates" in case:
        bad = method_predicate_case(bool(case["method_predicates"]))
        print(bad or "the run completed on the methods' verdicts")
        return 1 if bad else 0
    if case.get("alias"):
        bad = direct_pattern_alias()
        print(bad or "the pattern kept its own copies")
        return 1 if bad else 0
    if "seq" in case and case.get("early"):
        seq = [(m, kw) for m, kw in case["seq"]]
        a, b = real_build(case["name"], case["single"], seq), real_build(case["name"], case["single"], seq, early=True)
        print("generate() once at the end      :", a)
        print("generate() after every call too :", b)
        return 0 if a == b else 1
    if "seq" in case:
        seq = [(m, kw) for m, kw in case["seq"]]
        out = real_build(case["name"], case["single"], seq)
        print("builder now gives:", out)
        if out[0] != 0:
            return 0 if sig == "builder-flags" else 1
        got = [out[2 + 7 * i: 9 + 7 * i] for i in range(out[1])]
        print("documented       :", documented_blocks(seq))
        return 0 if got == documented_blocks(seq) else 1
    if "shape" in case:
        exn = feed_shape(case["shape"], case.get("scheme", 1), case["stream"])
        print("now: %s escaped BoboRun.process" % exn if exn else "now: no exception escapes BoboRun.process")
        return 1 if exn else 0
    if sig in ("typed-predicate", "typed-predicate-raised"):
        for t in typed_cases():
            if all(t[k] == case[k] for k in ("dtype", "subtype", "cast", "value")):
                f = typed_fail(t)
                print("now:", f or "callee saw only the declared type or a successful cast; original event untouched")
                return 1 if f else 0
    if "npreds" in case:
        for (n, s_, l, ng, o), ok in block_table():
            if (n, s_, l, ng, o) == (case["npreds"], case["strict"], case["loop"], case["negated"], case["optional"]):
                legal = n > 0 and not (s_ and o) and not (l and (ng or o)) and not (ng and o)
                print("constructor now %s, documented %s" % ("accepts" if ok else "rejects", "legal" if legal else "illegal"))
                return 0 if ok == legal else 1
    return 1
