"""C01 Pattern detection follows the documented block semantics."""
import common
import gen_patterns as G
import predlang as PL
import ref_oracle as RO
import sim_decider as SD
from par import pmap

PROP = "C01"
PROPERTY_FILES = ["Properties/C01.v"]
META = dict(
    level_text="Theorems (Coq): the model of BoboRun.process / BoboDecider.update refines a declarative specification "
               "of the documented block semantics (one rule per sentence of docs/phenomena.rst: accept, wait, strict "
               "halt, negated advance/hit, optional accept/skip, loop accept/halt/skip, pre-/haltcondition gate), is "
               "deterministic, completes exactly when the last block accepts, offers each event to every run that "
               "existed before it and never to the run it starts, and respects the singleton gate - for every "
               "well-formed pattern, arbitrary predicates and every event stream (induction, no bound). Tie: the same "
               "Gallina functions are evaluated in Coq on exhaustive small patterns x streams and random larger ones and "
               "compared, after every event, with the real decider's notifications, all_runs() and caches; an "
               "independently written table of the documented rules is run against the implementation as oracle.",
    level_note="Trusted: Coq kernel/vm_compute; harness/predlang.py (Python mirror of the predicate language), encoders; "
               "CPython dict insertion order. Predicates are arbitrary functions in the theorems; the correspondence "
               "uses the predicate language of Model/PredLang.v.",
    rule="exhaustive: every legal flag shape up to 3 blocks x 3 predicate assignments x all streams of length<=4 over a "
         "4-symbol alphabet, plus pre/halt/singleton variants x streams<=3; random: 1..3 phenomena, patterns up to 6-8 "
         "blocks with history-dependent predicates (incl. most recent / oldest timestamp of the history), streams up to 12-40, half of them with out-of-order timestamps; all 24 arrival orders of 4 timestamps on 2 timestamp-reading patterns x 5 streams. non-trivial = some run changed state",
    trusted_base=["harness/predlang.py mirror of PredLang.interp", "harness/ref_oracle.py (documented rules as a table)"],
    assumptions=["pattern names unique within a phenomenon; run ids supplied by the generator are fresh"])


def gen_cases(ctx):
    rng = ctx.rng
    cases = []
    maxlen = 4 if ctx.quick else 5
    for shape in G.shapes(3):
        for scheme in (0, 1, 2):
            blocks = G.assign(shape, scheme, ["distinct", "shared", "empty"][scheme])
            cfg = dict(phen=[(1, [G.pattern(1, blocks)])], maxcache=0, idbase=1000)
            for st in G.streams([1, 2, 3, 4], maxlen):
                cases.append((cfg, [("local", e) for e in G.events(st)]))
        for pre, halt, single in G.VARIANTS[1:]:
            blocks = G.assign(shape, 1, "distinct")
            cfg = dict(phen=[(1, [G.pattern(1, blocks, pre, halt, single)])], maxcache=3, idbase=1000)
            for st in G.streams([1, 2, 4], 3 if ctx.quick else 4):
                cases.append((cfg, [("local", e) for e in G.events(st)]))
    # events carry their own timestamps: every arrival order of 4 distinct timestamps, on patterns whose
    # predicates / haltconditions read the most recent and the oldest event of a history with shared groups
    import itertools
    B = G.blk
    tspats = [
        G.pattern(1, [B([("deq", 1)], "R", 0), B([("deq", 2)], "RL", 0),
                      B([("and", ("deq", 3), ("tsgap", 1))], "R", 1)], (), (("tsfirst", 3),), False),
        G.pattern(1, [B([("deq", 1)], "R", 0), B([("deq", 2)], "R", 0),
                      B([("tsgap", 2)], "S", 0), B([("deq", 3)], "R", 1)], (("not", ("tsfirst", 4)),), (), False),
    ]
    for pat in tspats:
        cfg = dict(phen=[(1, [pat])], maxcache=0, idbase=1000)
        for st in ([1, 2, 2, 3], [1, 2, 3, 3], [1, 2, 3, 2], [1, 1, 2, 3], [1, 2, 1, 3]):
            for ts in itertools.permutations(range(4)):
                cases.append((cfg, [("local", e) for e in G.events(st, ts=ts)]))
    nrand = 1500 if ctx.quick else 20000
    for k in range(nrand):
        cfg = G.rand_config(rng, maxblocks=6 if ctx.quick else 8)
        st = G.rand_stream(rng, rng.randint(3, 12 if ctx.quick else 40))
        ts = G.shuffled_ts(rng, len(st)) if k % 2 else None
        cases.append((cfg, [("local", e) for e in G.events(st, ts=ts)]))
    return cases


def work(case):
    """implementation trace + oracle verdict for one case"""
    cfg, ops = case
    dec, rec = SD.make_decider(cfg)
    ref = RO.RefDecider(cfg)
    out, nontrivial, fail = [], False, None
    stats = [0, 0, 0, 0]
    kept = []               # every report, with what it said when it was delivered
    for k, op in enumerate(ops):
        o, lists = SD.apply_op(dec, rec, op)
        out += o
        if lists is None:
            break
        comp, halt, upd = lists
        kept += [(k, r, tuple(PL.enc_ser(r))) for r in comp + halt + upd]
        if comp or halt or upd:
            nontrivial = True
        rep = ref.step(op[1])
        stats[0] += len(rep["started"]); stats[1] += len(rep["advanced"])
        stats[2] += len(rep["halted"]); stats[3] += len(rep["completed"])
        if fail is None:
            got = dict(completed=sorted(tuple(PL.enc_ser(r)) for r in comp),
                       halted=sorted(tuple(PL.enc_ser(r)) for r in halt),
                       updated=sorted(tuple(PL.enc_ser(r)) for r in upd))
            exp = dict(completed=sorted(tuple(list(r[:4]) + r[4]) for r in rep["completed"]),
                       halted=sorted(tuple(list(r[:4]) + r[4]) for r in rep["halted"]),
                       updated=sorted(tuple(list(r[:4]) + r[4]) for r in rep["started"] + rep["advanced"]))
            act = sorted((int(r.run_id), PL.code_of(r.phenomenon_name), PL.code_of(r.pattern.name), r.block_index,
                          tuple(PL.enc_hist(r.history()))) for r in dec.all_runs())
            if got != exp:
                which = [k2 for k2 in got if got[k2] != exp[k2]][0]
                fail = dict(signature="semantics-" + which, step=k,
                            what="runs reported as %s after event %d differ from the documented semantics" % (which, k),
                            detail=dict(got=got, expected=exp))
            elif act != ref.active():
                fail = dict(signature="semantics-active-set", step=k,
                            what="active runs after event %d differ from the documented semantics" % k,
                            detail=dict(got=act, expected=ref.active()))
    # a subscriber that keeps its reports reads them after the stream: they still say what they said on delivery
    for k, r, then in kept:
        if fail is None and tuple(PL.enc_ser(r)) != then:
            fail = dict(signature="reported-history-changed-later", step=len(ops) - 1,
                        what="the report for run %s delivered at event %d reads differently after the stream: it no longer "
                             "holds the history the run had when it was reported" % (r.run_id, k),
                        detail=dict(delivered=list(then), now=list(PL.enc_ser(r))))
    return out, nontrivial, fail, stats


def shared_block_case(layout, stream):
    """A pattern in which the SAME BoboPatternBlock object stands at several positions ([a] + [b] * 2 + [c]) against the
    pattern with equal but distinct block objects at those positions (which the model covers): the same reports and the
    same active runs after every event.  -> failure text | None"""
    from bobocep.cep.engine.decider.decider import BoboDecider
    from bobocep.cep.engine.decider.pubsub import BoboDeciderSubscriber
    from bobocep.cep.event import BoboEventSimple
    from bobocep.cep.phenom.phenom import BoboPhenomenon
    from bobocep.cep.phenom.pattern.pattern import BoboPattern, BoboPatternBlock
    from bobocep.cep.phenom.pattern.predicate import BoboPredicateCall

    def pred(sym):
        return lambda e, h: e.data == sym

    def blk(sym):
        return BoboPatternBlock(group="g" + sym, predicates=[BoboPredicateCall(pred(sym))],
                                strict=False, loop=False, negated=False, optional=False)

    def drive(shared):
        memo = {}
        blocks = [memo.setdefault(sym, blk(sym)) if shared else blk(sym) for sym in layout]
        pat = BoboPattern(name="p", blocks=blocks, preconditions=[], haltconditions=[])

        class Rec(BoboDeciderSubscriber):
            def __init__(self):
                self.calls = []

            def on_decider_update(self, completed, halted, updated, local):
                self.calls.append(tuple(sorted((r.run_id, r.block_index, tuple(e.event_id for e in r.history.all_events()))
                                               for r in lst) for lst in (completed, halted, updated)))
        dec = BoboDecider(phenomena=[BoboPhenomenon(name="ph", patterns=[pat])], gen_event_id=SD.CountGen(10 ** 9),
                          gen_run_id=SD.CountGen(1000), max_cache=0)
        rec = Rec()
        dec.subscribe(rec)
        trace = []
        for i, d in enumerate(stream):
            dec.on_receiver_update(BoboEventSimple(event_id="e%d" % i, timestamp=i, data=d))
            try:
                dec.update()
            except Exception as ex:      # noqa
                trace.append("update raised %s" % type(ex).__name__)
                break
            trace.append((list(rec.calls), sorted((r.run_id, r.block_index) for r in dec.all_runs())))
            rec.calls = []
        return trace
    a, b = drive(True), drive(False)
    if a != b:
        k = next(i for i, (x, y) in enumerate(zip(a + [None], b + [None])) if x != y)
        return ("pattern %s over stream %s: with ONE block object at the positions holding the same letter, event %d gives %r; "
                "with equal but distinct block objects it gives %r" % (list(layout), list(stream), k,
                                                                        a[k] if k < len(a) else None, b[k] if k < len(b) else None))
    return None


def run(ctx, res):
    for layout, stream in (("abbc", "abbc"), ("abac", "abac"), ("abbc", "abxbc"), ("aab", "aab"), ("abab", "ababab"), ("abcb", "abcb")):
        bad = shared_block_case(layout, stream)
        res.note_case(("shared-block", layout, stream), True)
        if bad:
            res.failures.append(dict(signature="run-position-depends-on-block-object-identity", what=bad, detail=None,
                                     case=dict(shared_block=[layout, stream])))
    cases = gen_cases(ctx)
    results = pmap(work, cases)
    coq_cases = []
    for (cfg, ops), (out, nontrivial, fail, stats) in zip(cases, results):
        key = (PL.config_coq(cfg), tuple(o[1] for o in ops))
        res.note_case(key, nontrivial)
        nb = max(len(p["blocks"]) for _, ps in cfg["phen"] for p in ps)
        res.count("blocks_%d" % nb)
        res.count("stream_len_%d" % min(len(ops), 13))
        for nm, v in zip(("started", "advanced", "halted", "completed"), stats):
            res.count("runs_" + nm, v)
        coq_cases.append((SD.case_coq(cfg, ops), out))
        if fail:
            # shrink: shortest prefix of the stream that still fails
            res.failures.append(dict(signature=fail["signature"], what=fail["what"],
                                     case=dict(cfg=cfg, ops=ops[:fail["step"] + 1]), detail=fail["detail"]))
    res.failures.sort(key=lambda f: (len(f["case"]["ops"]), len(repr(f["case"]["cfg"]))))
    res.samples = [dict(cfg=c, stream=[o[1][3] for o in ops]) for c, ops in (cases[17], cases[-1])]
    mism, errs = common.coq_run_cases("C01", SD.IMPORTS, "run_decider", "(cdesc * list dop)", coq_cases, shard=250)
    res.errors += errs
    res.traces_validated = len(coq_cases) - len(mism)
    for idx, model_out in mism[:10]:
        cfg, ops = cases[idx]
        res.mismatches.append(dict(case=dict(cfg=cfg, ops=ops), impl=coq_cases[idx][1], model=model_out))
    res.exhaustive = True
    res.extra["exhaustive_scope"] = "all legal flag shapes <=3 blocks x 3 predicate assignments x all streams <=%d over {1,2,3,4}" % (4 if ctx.quick else 5)


def replay(obj):
    if (obj.get("case") or {}).get("shared_block"):
        bad = shared_block_case(*obj["case"]["shared_block"])
        print(bad or "the same reports and active runs whether or not equal positions share one block object")
        return 1 if bad else 0
    case = obj.get("case") or (obj.get("mismatches") or [{}])[0].get("case")
    if not case:
        print(obj)
        return 0
    cfg, ops = case["cfg"], [tuple(o) if not isinstance(o[1], dict) else (o[0], o[1]) for o in case["ops"]]
    ops = [(o[0], tuple(o[1]) if o[0] == "local" else o[1]) for o in ops]
    cfg["phen"] = [(k, ps) for k, ps in cfg["phen"]]
    out, nontrivial, fail, _ = work((cfg, ops))
    model, log = common.coq_eval("C01r", SD.IMPORTS, "run_decider %s" % SD.case_coq(cfg, ops))
    print("implementation:", out)
    print("model         :", model)
    print("oracle        :", fail or "agrees with the documented semantics")
    return 1 if (fail or model != out) else 0
