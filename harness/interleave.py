"""A second caller at a chosen line: deterministic stand-in for a pre-emption inside a library call.

second_caller(fn_a, fn_b, files, k): fn_a() runs on the calling thread under a line tracer; when the k-th line (counted
over all frames of that thread whose code lives in one of `files`) is about to execute, fn_b() is started on a real
second thread and given `wait` seconds.  If the code around that line holds a lock that fn_b needs, fn_b simply blocks
and finishes after fn_a (it is joined then), which is what mutual exclusion means; where there is a gap, fn_b runs
to completion INSIDE fn_a's call.  Nothing in the library is replaced."""
import sys
import threading


def second_caller(fn_a, fn_b, files, k, wait=0.02, join=5.0):
    me = threading.get_ident()
    n = [0]
    out = dict(reached=False, a=None, a_exc=None, b=None, b_exc=None, b_inside=False)
    th = []

    def run_b():
        try:
            out["b"] = fn_b()
        except Exception as ex:      # noqa
            out["b_exc"] = ex

    def local(frame, event, arg):
        if event == "line" and not out["reached"]:
            n[0] += 1
            if n[0] == k:
                out["reached"] = True
                t = threading.Thread(target=run_b, daemon=True)
                th.append(t)
                t.start()
                t.join(wait)
                out["b_inside"] = not t.is_alive()
        return local

    def tracer(frame, event, arg):
        if event != "call" or threading.get_ident() != me or out["reached"]:
            return None
        fn = frame.f_code.co_filename
        if any(fn.endswith(f) for f in files):
            return local
        return None
    sys.settrace(tracer)
    try:
        try:
            out["a"] = fn_a()
        except Exception as ex:      # noqa
            out["a_exc"] = ex
    finally:
        sys.settrace(None)
    for t in th:
        t.join(join)
        if t.is_alive():
            out["b_exc"] = out["b_exc"] or TimeoutError("second caller still blocked %.0f s after the first returned" % join)
    return out


def two_switches(fn_a, fn_b, files, k, j, wait=0.02, join=5.0, pause=0.05):
    """Schedule with two switches: A runs to its k-th line, B starts and runs to ITS j-th line (or blocks / finishes
    earlier: then after `wait` seconds), A runs to its end, B runs to its end.  Both callers can thus be inside the
    same section at once if nothing keeps them apart.  Returns the same dict as second_caller."""
    me = threading.get_ident()
    out = dict(reached=False, a=None, a_exc=None, b=None, b_exc=None, b_paused=False)
    at_j = threading.Event()        # B reached its line j (or ended)
    go_b = threading.Event()        # A is done: B may continue
    th = []
    na, nb = [0], [0]

    def matches(frame):
        fn = frame.f_code.co_filename
        return any(fn.endswith(f) for f in files)

    def run_b():
        def local_b(frame, event, arg):
            if event == "line":
                nb[0] += 1
                if nb[0] == j:
                    out["b_paused"] = True
                    at_j.set()
                    go_b.wait(pause)        # (if A needs what B holds here, A cannot finish: B goes on after `pause`)
            return local_b

        def tracer_b(frame, event, arg):
            return local_b if event == "call" and matches(frame) else None
        sys.settrace(tracer_b)
        try:
            out["b"] = fn_b()
        except Exception as ex:      # noqa
            out["b_exc"] = ex
        finally:
            sys.settrace(None)
            at_j.set()

    def local_a(frame, event, arg):
        if event == "line" and not out["reached"]:
            na[0] += 1
            if na[0] == k:
                out["reached"] = True
                t = threading.Thread(target=run_b, daemon=True)
                th.append(t)
                t.start()
                at_j.wait(wait)
        return local_a

    def tracer_a(frame, event, arg):
        if event != "call" or threading.get_ident() != me or out["reached"]:
            return None
        return local_a if matches(frame) else None
    sys.settrace(tracer_a)
    try:
        try:
            out["a"] = fn_a()
        except Exception as ex:      # noqa
            out["a_exc"] = ex
    finally:
        sys.settrace(None)
        go_b.set()
    for t in th:
        t.join(join)
        if t.is_alive():
            out["b_exc"] = out["b_exc"] or TimeoutError("second caller still blocked %.0f s after the first returned" % join)
    return out
