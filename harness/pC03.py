"""C03 Replication is transparent and survivors take over (failover equivalence)."""
import copy
import itertools

import common
import gen_patterns as G
import predlang as PL
import sim_cluster as SC
import sim_engine as SE
from par import pmap

PROP = "C03"
PROPERTY_FILES = ["Properties/C03.v"]
IMPORTS = SE.IMPORTS + " Model.Cluster"
META = dict(
    level_text="Theorems (Coq, all closed, arbitrary predicates): per run - a local change that leaves a run active is "
               "ahead of every identical copy, applying the replicated record to an identical copy yields an identical "
               "copy (index and history), a run started on one instance is re-created identically elsewhere, a step "
               "depends on the run table only; per step (C03_sync_step) - a peer holding the same runs as the sender "
               "held before the event holds the same runs as the sender afterwards, pattern by pattern and in order, for "
               "ALL patterns incl. singleton ones (>= 2 blocks) under identifier-hygiene side conditions (active ids unique, drawn ids fresh, "
               "records name existing patterns, the receiver remembers none of the note's runs as finished); cluster "
               "(C03_replicas_equal) - from the initial state, for EVERY routing of EVERY stream with messages delivered "
               "between consecutive inputs, all replicas hold the same runs after every input, so any survivor of any "
               "crash continues as a single engine holding that table would. The pinned commit is refuted (D3). "
               "Tie: N real deciders exchanging serialised notes vs the cluster model evaluated in Coq, incl. the side "
               "conditions (tables equal after every step, nothing filtered); oracle: N real ENGINES (receiver, decider, "
               "producer, forwarder) with synchronous replication vs ONE real engine fed the whole stream, for every "
               "routing, crash point and crashed subset - with notes handed over directly and (all 3-instance scenarios "
               "and a third of the others) through the real BoboDistributedTCP of every instance (real _tcp_outgoing, "
               "_tcp_incoming_handle_client, _update, AES; fake sockets and clock; a crashed peer refuses connections).",
    level_note="Trusted: Coq kernel; harness. The theorem is at decider level; the engine-level oracle covers producer/"
               "forwarder/feedback. Scope of the oracle: patterns whose block predicates ignore fed-back complex/action "
               "events (each instance generates its own complex event for a remote completion; a pattern that accepts "
               "complex events is the known finding D4). History-dependent predicates are data-based (timestamps are "
               "per-instance). Byte-level framing and timing of tcp.py are C09/C10/C15; link faults with all instances up are C06.",
    rule="C01-style patterns (loop, optional, negated, strict, singleton, history-dependent; all 4-block shapes over "
         "every pair of inner kinds), streams up to 6-8, every assignment of stream positions to 2 instances and sampled "
         "ones to 3, every crash point x every proper subset, finished-run memory on and off; non-trivial = a run spans "
         "at least two instances",
    trusted_base=["harness/sim_cluster.py, sim_engine.py, predlang.py"],
    assumptions=["replication messages are delivered between consecutive inputs (premise of the property)",
                 "run ids of different instances are distinct (C16)",
                 "theorem side conditions step_ok (checked on every generated step): unique active ids, fresh drawn ids, "
                 "records name existing patterns, receivers filter nothing out of the sender's note"])


def insensitive(p):
    """make block predicates ignore fed-back (non-simple) events"""
    p = copy.deepcopy(p)
    for b in p["blocks"]:
        if b["neg"]:
            b["preds"] = [("or", ("not", ("kind", 0)), q) for q in b["preds"]]
        else:
            b["preds"] = [("and", ("kind", 0), q) for q in b["preds"]]
    return p


def no_ts(p):
    return "tsgap" not in repr(p) and "tsfirst" not in repr(p)


def shift_data(p, off):
    """the same pattern looking for data off higher"""
    def sh(q):
        if q[0] == "deq":
            return ("deq", q[1] + off)
        if q[0] == "din":
            return ("din", [v + off for v in q[1]])
        return tuple(sh(x) if isinstance(x, tuple) else x for x in q)
    p = copy.deepcopy(p)
    for b in p["blocks"]:
        b["preds"] = [sh(q) for q in b["preds"]]
    return p


def gen_scenarios(ctx):
    rng = ctx.rng
    sc = []
    shapes = [s for s in G.shapes(3) if len(s) >= 2]
    # D4 (known finding): a pattern whose first block accepts complex events
    d4 = dict(phen=[(1, [G.pattern(1, [G.blk([("and", ("kind", 0), ("deq", 1))], "R", 1), G.blk([("and", ("kind", 0), ("deq", 2))], "R", 2)])]),
                    (2, [G.pattern(2, [G.blk([("cof", 1, 1)], "R", 1), G.blk([("and", ("kind", 0), ("deq", 3))], "R", 2)])])],
              maxcache=20, idbase=1000)
    sc.append(dict(cfg=d4, n=2, stream=[1, 2, 3], route=[0, 0, 0], crash=None))
    # D3 corpus: loop progress
    d3 = dict(phen=[(1, [insensitive(G.pattern(1, G.assign(["R", "RL", "R"], 0, "distinct")))])], maxcache=20, idbase=1000)
    sc.append(dict(cfg=d3, n=2, stream=[1, 2, 3], route=[0, 0, 1], crash=None))
    sc.append(dict(cfg=d3, n=2, stream=[1, 2, 2, 3], route=[0, 1, 0, 1], crash=(2, [0])))
    # a peer is lost while it is owed a backlog; a run started meanwhile is completed by another survivor
    ab = dict(phen=[(1, [insensitive(G.pattern(1, G.assign(["R", "R"], 0, "distinct")))])], maxcache=0, idbase=1000)
    for mc in (0, 20):
        for lost in (0, 1, 2):
            others = [k for k in range(3) if k != lost]
            x, y = others
            sc.append(dict(cfg=dict(ab, maxcache=mc), n=3, stream=[1, 2, 1, 2, 1, 2, 2], route=[lost, y, x, y, x, x, y],
                           crash=(2, [lost]), tcp=True))
            sc.append(dict(cfg=dict(ab, maxcache=mc), n=3, stream=[1, 2, 1, 2, 1, 2, 2], route=[lost, x, y, x, y, y, x],
                           crash=(2, [lost]), tcp=True))
    for shape in shapes:
        for scheme in (0, 1):
            for v in (0, 1, 3):
                pre, halt, single = G.VARIANTS[v]
                p = insensitive(G.pattern(1, G.assign(shape, scheme, "distinct"), pre, halt, single))
                cfg = dict(phen=[(1, [p])], maxcache=rng.choice([0, 30]), idbase=1000)
                for _ in range(2 if ctx.quick else 12):
                    L = rng.randint(3, 6)
                    stream = [rng.randint(1, 4) for _ in range(L)]
                    if rng.random() < 0.6:
                        routes = list(itertools.product(range(2), repeat=L))
                        rng.shuffle(routes)
                        for route in routes[:4 if ctx.quick else 16]:
                            sc.append(dict(cfg=cfg, n=2, stream=stream, route=list(route), crash=None))
                    n = rng.choice([2, 3])
                    route = [rng.randrange(n) for _ in range(L)]
                    for cp in range(1, L):
                        for subset in ([[0]] if n == 2 else [[0], [1], [0, 2]]):
                            if rng.random() < (0.5 if ctx.quick else 1.0):
                                sc.append(dict(cfg=cfg, n=n, stream=stream, route=route, crash=(cp, subset)))
    # four blocks: every pair of inner kinds (e.g. an optional block that is skipped into a looping one)
    for inner in itertools.product(G.INNER, repeat=2):
        shape = ["R"] + list(inner) + ["R"]
        p = insensitive(G.pattern(1, G.assign(shape, 0, "distinct")))
        cfg = dict(phen=[(1, [p])], maxcache=rng.choice([0, 30]), idbase=1000)
        for stream in ([1, 2, 3, 3, 4], [1, 3, 3, 4], [1, 3, 2, 4], [1, 2, 2, 3, 4], [1, 4, 3, 4]):
            for route in ([0] * len(stream), [0, 0] + [1] * (len(stream) - 2), [0, 1] * 3, [1, 0, 0, 1, 1, 0]):
                sc.append(dict(cfg=cfg, n=2, stream=stream, route=route[:len(stream)], crash=None))
            sc.append(dict(cfg=cfg, n=3, stream=stream, route=[0, 1, 2, 0, 1][:len(stream)], crash=(len(stream) - 1, [0])))
    # two phenomena whose patterns have the SAME name and different blocks (names are unique within a phenomenon
    # only): runs of either are started on one instance and continued on another
    for sa, sb in itertools.product([s for s in shapes if len(s) == 3][:6] + [["R", "R"]], [["R", "R"], ["R", "RL", "R"], ["S", "RO", "R"]]):
        pa = insensitive(G.pattern(1, G.assign(sa, 0, "distinct")))
        pb = shift_data(insensitive(G.pattern(1, G.assign(sb, 0, "distinct"))), 3)
        for mc in (0, 20):
            cfg = dict(phen=[(1, [pa]), (2, [pb])], maxcache=mc, idbase=1000)
            for stream in ([4, 1, 5, 2, 6, 3], [1, 4, 2, 5, 3, 6], [4, 5, 1, 6, 2, 3]):
                for route in ([0, 0, 1, 1, 1, 1], [0, 1, 0, 1, 0, 1], [1, 1, 0, 0, 1, 0]):
                    sc.append(dict(cfg=cfg, n=2, stream=stream, route=route, crash=None))
                sc.append(dict(cfg=cfg, n=2, stream=stream, route=[0, 0, 1, 1, 1, 1], crash=(2, [0])))
    for _ in range(250 if ctx.quick else 6000):
        cfg = G.rand_config(rng, maxcache=rng.choice([0, 40]), maxblocks=5)
        if not no_ts(cfg):
            continue
        cfg["phen"] = [(k, [insensitive(p) for p in ps]) for k, ps in cfg["phen"]]
        n = rng.choice([2, 2, 3])
        L = rng.randint(3, 8 if ctx.quick else 14)
        crash = None
        if rng.random() < 0.5:
            crash = (rng.randint(1, L - 1), sorted(rng.sample(range(n), rng.randint(1, n - 1))))
        sc.append(dict(cfg=cfg, n=n, stream=G.rand_stream(rng, L), route=[rng.randrange(n) for _ in range(L)], crash=crash))
    return sc


def accepts_complex(cfg):
    return any("cof" in repr(p["blocks"][0]["preds"]) or "kind" not in repr(p["blocks"][0]["preds"])
               for _ph, ps in cfg["phen"] for p in ps)


def run_on(cl, sc, want, want_exec, transport):
    """feed the scenario to a cluster (any transport); compare with what one engine reported"""
    cfg, n, stream, route, crash = sc["cfg"], sc["n"], sc["stream"], sc["route"], sc["crash"]
    fail = None
    live = list(range(n))
    settled = getattr(cl, "settled", True)
    for pos, d in enumerate(stream):
        if crash and pos == crash[0]:
            cl.crash(crash[1])
            live = [k for k in range(n) if k not in crash[1]]
        k = route[pos]
        if k not in live:
            k = live[pos % len(live)]       # the survivors are fed the remainder
        settled = cl.input(k, d) and settled
    sig_known = "first-block-accepts-complex-event" if accepts_complex(cfg) else None
    sfx = "" if transport == "notes" else "-through-tcp"
    for k in live:
        got = SC.complex_content(cl.nodes[k][2])
        if got != want and fail is None:
            fail = dict(signature=sig_known or (("survivor-differs-after-crash" if crash else "cluster-differs-from-single-engine") + sfx),
                        what="instance %d reports complex events %s, one engine fed the whole stream reports %s (replication: %s)"
                             % (k, got, want, transport), detail=dict(instance=k, transport=transport))
    execs = sum(len(cl.nodes[k][2]["execs"]) for k in range(n))
    if fail is None and execs != want_exec:
        fail = dict(signature=sig_known or ("action-execution-count" + sfx),
                    what="%d action executions in the cluster, %d in a single engine (replication: %s)" % (execs, want_exec, transport),
                    detail=dict(transport=transport))
    if fail is None and len(live) > 1:
        tabs = [SC.runs_content(cl.nodes[k][0]) for k in live]
        if any(t != tabs[0] for t in tabs):
            fail = dict(signature=sig_known or ("replicas-differ" + sfx), what="live replicas hold different partial runs (replication: %s)" % transport,
                        detail=dict(tables=tabs, transport=transport))
    return fail, settled


def through_tcp(sc):
    """which scenarios are also run with the real BoboDistributedTCP between the engines (costlier)"""
    if accepts_complex(sc["cfg"]):
        return False
    return bool(sc.get("tcp")) or sc["n"] == 3 or (len(repr(sc)) % 3 == 0)


def work(sc):
    cfg, n, stream, route, crash = sc["cfg"], sc["n"], sc["stream"], sc["route"], sc["crash"]
    phs = [k for k, _ in cfg["phen"]]
    ed = dict(cfg=cfg, tr=0, td=0, tp=0, tf=0, early=True, local_only=True, datagen=[],
              act=[(k, (k, True, 90 + k)) for k in phs])
    # one engine fed the whole stream
    single = SC.Cluster(ed, 1)
    for d in stream:
        single.input(0, d)
    want = SC.complex_content(single.nodes[0][2])
    want_exec = len(single.nodes[0][2]["execs"])
    tcp = False
    try:
        fail, settled = run_on(SC.Cluster(ed, n), sc, want, want_exec, "notes")
        if fail is None and through_tcp(sc):
            tcp = True
            fail, s2 = run_on(SC.TcpCluster(ed, n), sc, want, want_exec, "tcp.py")
            settled = settled and s2
    except Exception as ex:      # noqa: the library raised while replicating run records of valid runs
        fail, settled = dict(signature="replication-raises:%s" % type(ex).__name__, detail=None,
                             what="%s while the cluster replicated the runs of this stream (%s): %s"
                                  % (type(ex).__name__, "tcp.py" if tcp else "notes", str(ex)[:200])), False
    spans = len({route[i] for i in range(len(stream))}) > 1
    return fail, spans and len(want) > 0, settled, tcp


def work_dec(case):
    cfg, n, inputs = case
    try:
        out, eq = SC.run_deciders(cfg, n, inputs)
    except Exception:            # noqa (reported by work() with the scenario; here: the model comparison fails)
        return [-999], False
    return out, eq


# ------------------------------------------------------------------------------------------------------------
# clusters assembled by the library's own factory (BoboSetupSimple: its identifier generators, its wiring); replication
# notes are handed over between inputs; everything happens within one second of the clock
FACTORY_STREAMS = [["a1", "a2", "b"], ["a1", "b", "a2", "b"], ["a1", "a2", "a3", "b"], ["a1", "b"], ["a1", "a2", "b", "a3", "b"]]


def factory_case(stream, route, crash=None):
    """crash: (index in the stream, instance lost from then on) or None.  Returns a failure dict or None."""
    import bobocep.cep.gen.event_id as gm
    from bobocep.cep.action.action import BoboAction
    from bobocep.cep.action.handler import BoboActionHandlerBlocking
    from bobocep.cep.engine.decider.pubsub import BoboDeciderSubscriber
    from bobocep.cep.engine.producer.pubsub import BoboProducerSubscriber
    from bobocep.cep.phenom.pattern.builder import BoboPatternBuilder
    from bobocep.cep.phenom.phenom import BoboPhenomenon
    from bobocep.setup.simple import BoboSetupSimple

    class Act(BoboAction):
        def __init__(self, log):
            super().__init__(name="act")
            self.log = log

        def execute(self, event):
            self.log.append(tuple(e.data for e in event.history.all_events()))
            return True, None

    class Node(BoboDeciderSubscriber, BoboProducerSubscriber):
        def __init__(self, k, execs):
            self.k, self.notes, self.complex, self.error = k, [], [], None
            pat = BoboPatternBuilder("ab").followed_by(lambda e, h: str(e.data).startswith("a")) \
                                          .followed_by(lambda e, h: e.data == "b").generate()
            ph = BoboPhenomenon(name="ph", patterns=[pat], action=Act(execs))
            self.engine = BoboSetupSimple(phenomena=[ph], handler=BoboActionHandlerBlocking(), urn="dev%d" % k).generate()
            self.engine.decider.subscribe(self)
            self.engine.producer.subscribe(self)

        def on_decider_update(self, completed, halted, updated, local):
            if local:
                self.notes.append((list(completed), list(halted), list(updated)))

        def on_producer_update(self, event, local):
            self.complex.append(tuple(e.data for e in event.history.all_events()))

        def settle(self):
            try:
                for _ in range(6):
                    self.engine.update()
            except Exception as ex:     # noqa
                self.error = self.error or "%s: %s" % (type(ex).__name__, ex)

    def cluster(n, route_, crash_):
        execs = []
        nodes = [Node(k, execs) for k in range(n)]
        live = [True] * n
        for i, d in enumerate(stream):
            if crash_ and crash_[0] == i:
                live[crash_[1]] = False
            k = route_[i]
            if not live[k]:
                k = next(j for j in range(n) if live[j])
            nodes[k].engine.receiver.add_data(d)
            nodes[k].settle()
            for src in nodes:           # replication messages are delivered between consecutive inputs
                notes, src.notes = src.notes, []
                for c, h, u in notes:
                    for dst in nodes:
                        if dst is not src and live[dst.k]:
                            try:
                                dst.engine.decider.on_distributed_update(SC.wire_copy(c), SC.wire_copy(h), SC.wire_copy(u))
                            except Exception as ex:     # noqa
                                dst.error = dst.error or "%s: %s" % (type(ex).__name__, ex)
                            dst.settle()
        return nodes, live, execs
    old = gm.time
    gm.time = lambda: 1700000000
    try:
        single, _, sexec = cluster(1, [0] * len(stream), None)
        nodes, live, execs = cluster(max(route) + 1, route, crash)
    finally:
        gm.time = old
    want = sorted(single[0].complex)
    for nd in nodes:
        if not live[nd.k]:
            continue
        if nd.error:
            return dict(signature="factory-cluster-instance-raises", detail=None,
                        what="cluster of BoboSetupSimple engines, stream %r routed %r: instance %d raised %s" % (stream, route, nd.k, nd.error))
        if sorted(nd.complex) != want:
            return dict(signature="factory-cluster-differs-from-single-engine", detail=None,
                        what="cluster of BoboSetupSimple engines, stream %r routed %r%s: instance %d reports %r, one engine reports %r"
                             % (stream, route, " crash %r" % (crash,) if crash else "", nd.k, sorted(nd.complex), want))
    if not crash and sorted(execs) != sorted(sexec):
        return dict(signature="factory-cluster-action-count", detail=None,
                    what="cluster of BoboSetupSimple engines, stream %r routed %r: actions executed for %r, one engine executes for %r"
                         % (stream, route, sorted(execs), sorted(sexec)))
    return None


def factory_half(res):
    n = 0
    for stream in FACTORY_STREAMS:
        for route in itertools.product((0, 1), repeat=len(stream)):
            if len(set(route)) < 2:
                continue
            crashes = [None] + [(i, k) for i in range(1, len(stream)) for k in (0, 1)]
            for crash in crashes:
                n += 1
                f = factory_case(stream, list(route), crash)
                res.note_case(("factory", tuple(stream), route, crash), True)
                if f:
                    res.failures.append(dict(signature=f["signature"], what=f["what"], detail=None,
                                             case=dict(factory=True, fstream=stream, froute=list(route), fcrash=crash)))
                    return n
    return n


def run(ctx, res):
    scen = gen_scenarios(ctx)
    results = pmap(work, scen, chunksize=10)
    for sc, (fail, nontrivial, settled, tcp) in zip(scen, results):
        res.note_case(repr(sc), nontrivial)
        res.count("also_through_tcp" if tcp else "notes_only")
        res.count("instances_%d" % sc["n"])
        res.count("crash" if sc["crash"] else "no_crash")
        res.count("settled" if settled else "not_settled")
        if fail:
            res.failures.append(dict(signature=fail["signature"], what=fail["what"], case=sc, detail=fail["detail"]))
    res.failures.sort(key=lambda f: len(repr(f["case"])))
    res.extra["factory_cluster_scenarios"] = factory_half(res)
    res.samples = [scen[1], scen[-1]]
    # correspondence with Model/Cluster.v at decider level, including the premise sync_step (tables equal)
    rng = ctx.rng
    cases = []
    for sc in scen:
        if accepts_complex(sc["cfg"]):
            continue
        evs = G.events(sc["stream"])
        cases.append((sc["cfg"], sc["n"], [(sc["route"][i], evs[i]) for i in range(len(evs))]))
    cases = cases[:600 if ctx.quick else 6000]
    dres = pmap(work_dec, cases, chunksize=20)
    coq_cases = []
    n_eq = 0
    for (cfg, n, inputs), (out, eq) in zip(cases, dres):
        coq_cases.append((SC.cluster_case_coq(cfg, n, inputs), out))
        n_eq += 1 if eq else 0
        # the theorem's hypothesis on configurations: a singleton pattern has at least two blocks
        single1 = any(p["single"] and len(p["blocks"]) < 2 for _ph, ps in cfg["phen"] for p in ps)
        res.count("sync_cases_with_singleton_patterns" if any(p["single"] for _ph, ps in cfg["phen"] for p in ps)
                  else "sync_cases_without_singleton_patterns")
        if not eq and not single1:
            res.mismatches.append(dict(case=dict(cfg=cfg, n=n, inputs=inputs), impl="replica tables differ after a synchronous step, or a receiver filtered part of the note",
                                       model="C03_sync_step and its side conditions"))
    res.extra["sync_premise_checked_on"] = len(cases)
    res.extra["sync_premise_held_on"] = n_eq
    mism, errs = common.coq_run_cases("C03", IMPORTS, "run_cluster", "(cdesc * nat * list (nat * ev))", coq_cases, shard=150)
    res.errors += errs
    res.traces_validated = len(coq_cases) - len(mism)
    for idx, model_out in mism[:10]:
        res.mismatches.append(dict(case=dict(cfg=cases[idx][0], n=cases[idx][1], inputs=cases[idx][2]),
                                   impl=coq_cases[idx][1], model=model_out))


def replay(obj):
    import pC12
    case = obj.get("case")
    if case and case.get("factory"):
        f = factory_case(case["fstream"], case["froute"], tuple(case["fcrash"]) if case.get("fcrash") else None)
        print("cluster of BoboSetupSimple engines (pattern: a* then b), stream %r, routed to instances %r, crash %r"
              % (case["fstream"], case["froute"], case.get("fcrash")))
        print("oracle  :", f["what"] if f else "every live instance reports what one engine fed the whole stream reports")
        return 1 if f else 0
    if not case or "stream" not in case:
        print(obj)
        return 0
    cfg, _ = pC12.norm_case(dict(cfg=case["cfg"], ops=[]))

    def fix(p):
        return tuple(fix(x) if isinstance(x, list) and x and isinstance(x[0], str) else x for x in p)
    for _ph, ps in cfg["phen"]:
        for p in ps:
            p["pre"] = [fix(x) for x in p["pre"]]
            p["halt"] = [fix(x) for x in p["halt"]]
            for b in p["blocks"]:
                b["preds"] = [fix(x) for x in b["preds"]]
    sc = dict(case, cfg=cfg, crash=tuple(case["crash"]) if case["crash"] else None)
    fail, _, _, _ = work(sc)
    print("scenario:", dict(n=sc["n"], stream=sc["stream"], route=sc["route"], crash=sc["crash"]))
    print("oracle  :", fail or "cluster reports what one engine fed the whole stream reports")
    return 1 if fail else 0
