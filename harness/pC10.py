"""C10 Message delivery does not depend on how TCP splits the bytes."""
import itertools
import json
import os

import common
from common import zs, zz, cbool, clist
import stepped_tcp as S

PROP = "C10"
PROPERTY_FILES = ["Properties/C10.v"]
META = dict(
    level_text="Theorems (Coq, closed under the global context) about an executable model of the receive loop of "
               "tcp.py (_tcp_incoming_handle_client up to the decrypt attempt, and the accept loop), with the clock "
               "and the network as oracle lists: for EVERY message passing the end test, EVERY cut into reads of "
               "1..recv_bytes bytes (a last read shorter than min_length included), every rest of the connection and "
               "every timely clock, exactly the message is handed to decrypt, once, provided no proper prefix ending "
               "at a read boundary passes the end test (that premise cannot be dropped: D7, refuted with a witness "
               "and replayed on the real code as a known finding); oversize reads are re-splits; every truncation "
               "followed by any mixture of closed/silent reads never reaches decrypt, never hangs, and every recv is "
               "issued before accepted+timeout_receive with a socket timeout expiring exactly then; clients are "
               "independent, so later messages are served.  The pinned-commit loop is refuted twice (D5 last chunk, "
               "D6 silent client).  Tie to the code: the model is evaluated in Coq on the same scripted sockets and "
               "clocks as the real _tcp_incoming_handle_client / _tcp_incoming (fake socket/time modules, no source "
               "change) and compared on outcome, bytes handed to decrypt, number of recv calls, clock readings "
               "consumed and socket timeouts; an independent oracle checks delivery/give-up/timing on the code alone, incl. clients that stream for ever and the SENDER side (what _tcp_send reports as sent reaches the wire whole although send() takes only part).",
    level_note="Trusted: Coq kernel/vm_compute; harness/stepped_tcp.py (fake socket and time modules, SteppedTCP). "
               "Modelled, not verified: the kernel's TCP segmentation (any cut into non-empty reads), the wall clock "
               "(any list of integer readings), AES-GCM (only min_length/end_bytes and the fact that encrypt output "
               "passes the end test are used).  Partial in one named respect: D7 (no length field in the framing).",
    rule="scripted connections: stream x cut x tail x clock.  Streams: stub-crypto messages of every length "
         "min_length..min_length+k (all residues mod the small read sizes), real AES-GCM wire messages (PING, SYNC with real run "
         "records, multi-kB snapshots at recv_bytes=2048).  Cuts: every 2-way and 3-way cut (small messages "
         "exhaustively; large ones at all boundaries near both ends plus seeded random ones), uniform read sizes "
         "1..recv_bytes, seeded random cuts.  Truncation at every byte, then closed or silent.  Clocks: timely, "
         "stepping, deadline reached mid-message.  Non-trivial = more than one recv call.",
    trusted_base=["harness: stepped_tcp.py replaces bobocep.dist.tcp.socket/.time and budgets _thread_closed",
                  "recording crypto wrapper delegates min_length/end_bytes/decrypt to the real BoboDistributedCryptoAES "
                  "(or a stub with a small min_length for exhaustive small scopes)"],
    assumptions=["recv(n) returns between 1 and n bytes while the peer is sending, b'' once it has closed",
                 "int(time.time()) is read once per loop iteration (checked: clock readings consumed are compared)",
                 "encrypt() output is at least min_length long and ends in end_bytes (C17)",
                 "no proper prefix of a ciphertext that ends at a read boundary is >= min_length and ends in BOBO "
                 "(2^-32 per boundary; D7 is the counterexample, known finding premature-marker-prefix)"])

MARKER = b"BOBO"
STUB_PLAINTEXT = "dev1 key1 1 0 {}"
CORPUS_D7 = os.path.join(common.VERIF, "corpus", "C10-D7.json")


# --------------------------------------------------------------------------------------------- implementation
def _rec_crypto_class():
    from bobocep.dist.crypto.crypto import BoboDistributedCrypto

    class RecCrypto(BoboDistributedCrypto):
        """records every decrypt() input; delegates to the real crypto, or (stub) has a small min_length and
        'decrypts' everything to a harmless PING"""

        def __init__(self, inner=None, min_len=6):
            self.inner, self._min = inner, min_len
            self.calls = []
            self.net = None

        def encrypt(self, msg_str):
            return self.inner.encrypt(msg_str)

        def decrypt(self, msg_bytes):
            who = len(self.net.accepted) - 1 if self.net is not None else 0
            self.calls.append((who, bytes(msg_bytes)))
            if self.inner is not None:
                return self.inner.decrypt(msg_bytes)
            return STUB_PLAINTEXT

        def end_bytes(self):
            return self.inner.end_bytes() if self.inner is not None else MARKER

        def min_length(self):
            return self.inner.min_length() if self.inner is not None else self._min

    return RecCrypto


_DIST_CACHE = {}


def get_dist(crypto_kind, trecv, nrecv):
    """(dist, decider, recording crypto) for this configuration; cached"""
    key = (json.dumps(crypto_kind), trecv, nrecv, common.REPO)
    if key not in _DIST_CACHE:
        from bobocep.dist.crypto.aes import BoboDistributedCryptoAES
        Rec = _rec_crypto_class()
        if crypto_kind == "aes":
            cr = Rec(inner=BoboDistributedCryptoAES(S.DEFAULT_AES_KEY))
        else:
            cr = Rec(inner=None, min_len=crypto_kind[1])
        dist, dec = S.make_stepped(3, me=0, crypto=cr, timeout_receive=trecv, recv_bytes=nrecv)
        _DIST_CACHE[key] = (dist, dec, cr)
    return _DIST_CACHE[key]


def mk_script(stream, spec):
    out, pos = [], 0
    for k in spec:
        if k == 0:
            out.append(S.CLOSED)
        elif k < 0:
            out.append(S.TIMEOUT)
        else:
            out.append(stream[pos:pos + k])
            pos += k
    return out


def sum1(b):
    a = 0
    for x in b:
        a = (a + x) % 65521
    return a


def sum2(b):
    a = 0
    for i, x in enumerate(b, 1):
        a = (a + i * x) % 65521
    return a


def classify_end(client, exc, ndecrypt, clock, accepted):
    """outcome code of one connection, from what was observed"""
    last_recv = [e for e in client.log if e[0] == "recv"]
    kind = last_recv[-1][3] if last_recv else None
    if ndecrypt > 0:
        return 1, 0
    if isinstance(exc, S.BlockedForever) or kind == "blocked":
        return 4, 0
    if isinstance(exc, S.ScriptExhausted):
        return 5, 0
    if kind == "timeout":
        return 3, 0
    return 2, (int(clock.log[-1]) - accepted if clock.log else 0)


def impl_session(case, free_clock=False):
    """one call of the real _tcp_incoming_handle_client on a scripted client and clock"""
    stream = bytes.fromhex(case["stream"])
    dist, dec, cr = get_dist(case["crypto"], case["trecv"], case["nrecv"])
    cr.calls, cr.net = [], None
    accepted = case["clock"][0]
    if free_clock:
        clock = S.FakeClock(start=float(accepted), tick=0.02)
    else:
        clock = S.FakeClock(readings=case["clock"][1:])
    client = S.ScriptedClient(mk_script(stream, case["spec"]), clock)
    before = (dist.peer_state(), len(dist.incoming_items()))
    exc = None
    with S.installed(None, clock):
        try:
            dist.handle_client(client, "10.0.0.2", accepted)
        except BaseException as e:   # noqa: B902  (BlockedForever / ScriptExhausted are BaseException)
            if isinstance(e, (KeyboardInterrupt, SystemExit)):
                raise
            exc = e
    delivered = [b for _, b in cr.calls]
    code, elapse = classify_end(client, exc, len(delivered), clock, accepted)
    recvs = [e for e in client.log if e[0] == "recv"]
    touts = [(-1 if e[2] is None else e[2]) for e in recvs]
    return dict(code=code, elapse=elapse, delivered=delivered, nrecv=len(recvs), nclock=clock.calls,
                touts=touts, exc=(type(exc).__name__ + ": " + str(exc)[:100]) if exc is not None else None,
                closed=client.closed, finish=clock.now,
                changed=(dist.peer_state(), len(dist.incoming_items())) != before)


def impl_vector(case, r):
    stream = bytes.fromhex(case["stream"])
    if r["code"] == 1:
        b = r["delivered"][0]
        head = [1, 0, len(b), int(b == stream), sum1(b), sum2(b)]
    else:
        head = [r["code"], r["elapse"] if r["code"] == 2 else 0, 0, 0, 0, 0]
    nclock = r["nclock"] - (1 if r["code"] == 5 else 0)     # the read that found the script empty got no value
    return head + [r["nrecv"], nclock] + [int(t) for t in r["touts"]]


def min_len_of(case):
    return 52 if case["crypto"] == "aes" else case["crypto"][1]


def coq_cfg(case, fixed=(True, True)):
    return "((%d, %d, %d), (%s, %s))" % (min_len_of(case), case["trecv"], case["nrecv"],
                                          cbool(fixed[0]), cbool(fixed[1]))


def coq_input(case, stream_name=None, fixed=(True, True)):
    stream = stream_name or zs(list(bytes.fromhex(case["stream"])))
    return "(%s, (%s, %s), %s)" % (coq_cfg(case, fixed), stream, zs(case["spec"]), zs(case["clock"]))


# --------------------------------------------------------------------------------------------- oracle
def boundaries(case):
    """offsets in the stream after each effective recv that returned bytes (recv(n) re-splits)"""
    out, pos, n = [], 0, case["nrecv"]
    total = len(case["stream"]) // 2
    for k in case["spec"]:
        if k <= 0:
            if k < 0:
                break
            continue
        k = min(k, total - pos)
        while k > 0:
            step = min(k, n)
            pos += step
            k -= step
            out.append(pos)
    return out


def passes(case, b, stream):
    return b >= min_len_of(case) and stream[:b].endswith(MARKER)


def oracle(case, r):
    """the property itself, on the observed behaviour; returns a failure dict or None"""
    stream = bytes.fromhex(case["stream"])
    kind = case["kind"]
    bs = boundaries(case)
    small = dict(case)
    if r["code"] == 4:
        return dict(signature="silent-client-blocks-listener",
                    what="a client that sends nothing blocks recv() for ever: the accepted socket has no timeout "
                         "(timeout_receive=%d is never looked at again)" % case["trecv"], case=small,
                    detail=dict(recv_calls=r["nrecv"], socket_timeouts=r["touts"]))
    if len(r["delivered"]) > 1:
        return dict(signature="decrypt-attempted-twice", what="more than one decrypt attempt on one connection",
                    case=small, detail=[len(b) for b in r["delivered"]])
    if kind == "whole":
        if r["delivered"] == [stream]:
            return None
        prem = [b for b in bs if b < len(stream) and passes(case, b, stream)]
        if prem and r["delivered"] == [stream[:prem[0]]]:
            return dict(signature="premature-marker-prefix",
                        what="a proper prefix (%d of %d bytes) ending in BOBO at a read boundary was handed to decrypt "
                             "instead of the message" % (prem[0], len(stream)), case=small, detail=r["exc"])
        if not r["delivered"]:
            last = bs[-1] - (bs[-2] if len(bs) > 1 else 0) if bs else 0
            if last < min_len_of(case) and not prem:
                return dict(signature="last-read-shorter-than-min-length",
                            what="a complete %d-byte message whose last read has %d (< min_length %d) bytes is never "
                                 "recognised: the handler spins until timeout_receive and drops it"
                                 % (len(stream), last, min_len_of(case)), case=small, detail=r["exc"])
            return dict(signature="complete-message-not-delivered",
                        what="a complete message read in time was not handed to decrypt", case=small, detail=r["exc"])
        return dict(signature="wrong-bytes-delivered", what="decrypt was given something else than the message",
                    case=small, detail=dict(got=len(r["delivered"][0]), want=len(stream)))
    if kind == "trunc":
        if r["delivered"]:
            return dict(signature="truncated-message-handed-to-decrypt",
                        what="bytes that never pass the end test were handed to decrypt", case=small,
                        detail=len(r["delivered"][0]))
        if r["changed"]:
            return dict(signature="truncated-message-applied", what="peer state or queue changed", case=small,
                        detail=None)
    return None


def oracle_timing(case):
    """free-running clock: a truncated connection must be given up by accepted + timeout_receive (+1 s for the
    integer clock), closed or silent"""
    r = impl_session(case, free_clock=True)
    if r["code"] == 4:
        return None        # reported by oracle() already
    limit = case["clock"][0] + case["trecv"] + 1.0
    if r["finish"] > limit + 1e-9 or r["delivered"]:
        return dict(signature="give-up-later-than-receive-timeout",
                    what="connection given up %.2f s after accept, timeout_receive=%d"
                         % (r["finish"] - case["clock"][0], case["trecv"]), case=dict(case), detail=r["touts"])
    return None


# --------------------------------------------------------------------------------------------- generators
def stub_msg(n, seed=0):
    """n >= 6 bytes ending in BOBO, no other BOBO inside"""
    body = bytes(((i * 7 + seed) % 60) + 97 for i in range(n - 4))
    body = body.replace(b"B", b"c").replace(b"O", b"d")
    return body + MARKER


def timely_clock(a, n, trecv, rng=None, extra=3):
    """client_accepted followed by n readings before the deadline, then readings running past it"""
    if rng is None or trecv <= 1:
        rd = [a] * n
    else:
        rd = sorted(a + rng.randint(0, trecv - 1) for _ in range(n))
    return [a] + rd + [a + trecv + i for i in range(extra)]


def giveup_clock(a, n, trecv, spins):
    """n readings at a, then `spins` more stepping up to the deadline"""
    rd = [a] * n
    t = a
    for i in range(spins):
        if i % 2 == 1 and t < a + trecv - 1:
            t += 1
        rd.append(t)
    return [a] + rd + [a + trecv, a + trecv + 1]


def n_recvs(spec, stream_len, nrecv):
    """number of recv calls that return bytes for this spec"""
    cnt, pos = 0, 0
    for k in spec:
        if k > 0:
            k = min(k, stream_len - pos)
            pos += k
            cnt += -(-k // nrecv)
    return cnt


def case_of(crypto, trecv, nrecv, stream, spec, clock, kind, note=""):
    return dict(crypto=crypto, trecv=trecv, nrecv=nrecv, stream=stream.hex(), spec=list(spec), clock=list(clock),
                kind=kind, note=note)


def whole_case(crypto, trecv, nrecv, m, cuts, rng=None, a=1000, tail=(), note=""):
    sizes = [len(c) for c in S.cut(m, cuts)]
    spec = sizes + list(tail)
    n = n_recvs(spec, len(m), nrecv)
    return case_of(crypto, trecv, nrecv, m, spec, timely_clock(a, n, trecv, rng), "whole", note)


def trunc_case(crypto, trecv, nrecv, m, t, cuts, silent, a=1000, note=""):
    p = m[:t]
    sizes = [len(c) for c in S.cut(p, [c for c in cuts if c < t])]
    n = n_recvs(sizes, len(p), nrecv)
    # the stream is the whole message; the script only ever hands out its first t bytes
    if silent:
        return case_of(crypto, trecv, nrecv, m, sizes + [-1], timely_clock(a, n + 1, trecv), "trunc", note)
    return case_of(crypto, trecv, nrecv, m, sizes + [0], giveup_clock(a, n, trecv, 2 * trecv + 1), "trunc", note)


def aes_messages(quick):
    """real wire messages: (name, bytes)"""
    from bobocep.dist.crypto.aes import BoboDistributedCryptoAES
    cr = BoboDistributedCryptoAES(S.DEFAULT_AES_KEY)
    out = []
    with S.scripted_nonces(S.counter_nonces(1000)):
        out.append(("ping", S.wire_message(cr, "dev1", "key1", 1, 0, "{}")))
        out.append(("sync-empty", S.wire_message(cr, "dev1", "key1", 0, 1, S.payload_json())))
        out.append(("sync-1", S.wire_message(cr, "dev1", "key1", 0, 0,
                                             S.payload_json(updated=[S.make_run_serial(1, "abc")]))))
        out.append(("sync-2", S.wire_message(cr, "dev1", "key1", 0, 0, S.payload_json(
            completed=[S.make_run_serial(2, "k" * 21)], halted=[S.make_run_serial(3, 7)]))))
        big = [S.make_run_serial(i, "payload-%d-" % i + "z" * (37 + i), n_events=3) for i in range(8 if quick else 14)]
        out.append(("resync-big", S.wire_message(cr, "dev1", "key1", 2, 1, S.payload_json(updated=big))))
        big2 = [S.make_run_serial(i, list(range(i + 5)), n_events=2) for i in range(5 if quick else 9)]
        out.append(("resync-big2", S.wire_message(cr, "dev1", "key1", 2, 0, S.payload_json(completed=big2))))
    return out


def load_d7():
    """the committed D7 witness, re-encrypted with the scripted nonce on the current code"""
    if not os.path.exists(CORPUS_D7):
        return None
    w = json.load(open(CORPUS_D7))
    from bobocep.dist.crypto.aes import BoboDistributedCryptoAES
    try:
        cr = BoboDistributedCryptoAES(w["aes_key"])
        with S.scripted_nonces(lambda n: int(w["nonce_counter"]).to_bytes(n, "big")):
            m = S.wire_message(cr, w["urn"], w["id_key"], 0, 0,
                               S.payload_json(updated=[S.make_run_serial(0, w["data"], urn="dev1")]))
    except Exception:
        m = None
    if m is None or m[w["cut"] - 4:w["cut"]] != MARKER:
        m = bytes.fromhex(w["message_hex"])
    return w, m


def gen_cases(ctx, res):
    rng = ctx.rng
    q = ctx.quick
    cases = []

    # 0. corpus: D5 (60 + 40), D6 (silent), D7 (scripted nonce witness)
    aes = aes_messages(q)
    sync1 = dict(aes)["sync-1"]
    cases.append(whole_case("aes", 3, 2048, sync1, [len(sync1) - 40], note="corpus D5"))
    cases.append(trunc_case("aes", 3, 2048, sync1, 30, [], True, note="corpus D6"))
    d7 = load_d7()
    if d7:
        w, m = d7
        cases.append(whole_case("aes", 3, 2048, m, [w["cut"]], note="corpus D7 cut at the premature marker"))
        cases.append(whole_case("aes", 3, 2048, m, [w["cut"] - 1], note="corpus D7 one byte earlier"))

    # 1. stub crypto (min_length 6): every message length 6..L, every composition of small messages,
    #    every 2-way and 3-way cut of the longer ones; recv_bytes small so that every residue occurs
    stub = ["stub", 6]
    L = 18 if q else 26
    for n in range(6, L + 1):
        m = stub_msg(n, n)
        for nrecv in ((7, 64) if q else (5, 7, 16, 64)):
            cases.append(whole_case(stub, 3, nrecv, m, [], note="one read"))
            for c1 in range(1, n):
                cases.append(whole_case(stub, 3, nrecv, m, [c1], rng, note="2-way"))
            if nrecv in (7, 64) and (n <= 15 or (not q and n <= 22)):
                for c1, c2 in itertools.combinations(range(1, n), 2):
                    cases.append(whole_case(stub, 3 if (c1 + c2) % 2 else 2, nrecv, m, [c1, c2], rng, note="3-way"))
        # uniform read sizes 1..n via recv_bytes
        for nrecv in range(1, n + 1):
            cases.append(whole_case(stub, 3, nrecv, m, [], note="uniform"))
        # truncation at every byte, closed / silent, after a cut
        for t in range(1, n):
            for silent in (False, True):
                cases.append(trunc_case(stub, 3, 7, m, t, [t // 2] if t > 1 else [], silent, note="trunc"))
    # all compositions of a 9-byte message (2^8)
    m9 = stub_msg(9, 3)
    for mask in range(1 << 8):
        cuts = [i + 1 for i in range(8) if mask >> i & 1]
        cases.append(whole_case(stub, 3, 64, m9, cuts, note="composition"))
    # a marker inside the message (model-level D7 on the stub): prefix is >= min_length and ends in BOBO
    mp = b"abBOBOxyzBOBO"
    for c in (5, 6, 7):
        cs = whole_case(stub, 3, 64, mp, [c], note="stub premature marker")
        cs["kind"] = "other"          # correspondence only: the D7 report is the real-ciphertext witness of the corpus
        cases.append(cs)

    # 2. real AES-GCM wire messages at small read sizes: 2-way cuts at every byte, 3-way seeded,
    #    uniform read sizes, truncation at every byte
    for name, m in aes[:4]:
        n = len(m)
        for nrecv in ((7, 53, 64, 2048) if q else (7, 16, 52, 53, 61, 64, 127, 2048)):
            for c1 in range(1, n):
                cases.append(whole_case("aes", 3, nrecv, m, [c1], rng, note="2-way " + name))
        if name == "ping":        # every 3-way cut of the smallest real message
            for c1, c2 in itertools.combinations(range(1, n), 2):
                if q and (c1 + c2) % 3:
                    continue
                cases.append(whole_case("aes", 3, 64, m, [c1, c2], rng, note="3-way " + name))
        for _ in range(400 if q else 20000):
            cs = sorted(rng.sample(range(1, n), 2))
            cases.append(whole_case("aes", 3, rng.choice([7, 16, 52, 64, 2048]), m, cs, rng, note="3-way " + name))
        for nrecv in (list(range(1, 65)) if name in ("ping", "sync-1") or not q else [1, 7, 51, 52, 53]):
            cases.append(whole_case("aes", 3, nrecv, m, [], note="uniform " + name))
        for _ in range(150 if q else 8000):
            k = rng.randint(3, 12)
            cs = sorted(rng.sample(range(1, n), min(k, n - 1)))
            cases.append(whole_case("aes", rng.choice([1, 2, 3, 10]), rng.choice([16, 64, 2048]), m, cs, rng,
                                    note="random " + name))
        for t in range(1, n):
            for silent in (False, True):
                cuts = [rng.randint(1, t - 1)] if t > 2 and t % 3 == 0 else []
                cases.append(trunc_case("aes", 3, 64 if t % 2 else 2048, m, t, cuts, silent, note="trunc " + name))

    # 3. multi-kB snapshots at the default recv_bytes = 2048
    for name, m in aes[4:]:
        n = len(m)
        cases.append(whole_case("aes", 3, 2048, m, [], note="uniform 2048 " + name))
        edge = list(range(1, 8)) + list(range(n - 60, n))
        pts = edge + [2048, 2049, n - 2048, 4096] + [rng.randint(1, n - 1) for _ in range(10 if q else 300)]
        for c1 in sorted(set(p for p in pts if 0 < p < n)):
            cases.append(whole_case("aes", 3, 2048, m, [c1], rng, note="2-way " + name))
        for _ in range(10 if q else 300):
            cs = sorted(rng.sample(range(1, n), 2))
            cases.append(whole_case("aes", 3, 2048, m, cs, rng, note="3-way " + name))
        for nrecv in ((1000, 1024, 1460) if q else (512, 1000, 1024, 1460, 4096)):
            cases.append(whole_case("aes", 3, nrecv, m, [], note="uniform " + name))
        for t in ([1, 51, 52, 2048, n - 52, n - 4, n - 1] if q else
                  [1, 51, 52, 53, 2047, 2048, 2049, n - 53, n - 52, n - 5, n - 4, n - 1]):
            for silent in (False, True):
                cases.append(trunc_case("aes", 3, 2048, m, t, [], silent, note="trunc " + name))

    # 4. deadline reached while the message is still arriving; clock far too short; extra reads after the end
    m = dict(aes)["sync-2"]
    n = len(m)
    for c1 in (10, 60, n - 10):
        cs = case_of("aes", 3, 2048, m, [c1, n - c1], [500, 500, 503, 504], "other", "deadline before 2nd read")
        cases.append(cs)
        cases.append(case_of("aes", 3, 2048, m, [c1, n - c1], [500, 500], "other", "clock too short"))
        cases.append(case_of("aes", 3, 2048, m, [c1, 0, 0, n - c1], [500, 500, 501, 501, 502, 503], "whole",
                             "empty reads in between"))
    return cases


# --------------------------------------------------------------------------------------------- accept loop
def listen_scenarios(ctx):
    """lists of clients for the real _tcp_incoming: (stream, spec, clock); the last one carries a whole message"""
    aes = dict(aes_messages(True))
    good = aes["sync-1"]
    ping = aes["ping"]
    n = len(good)
    T = 3

    def g(a, cuts=()):
        sizes = [len(c) for c in S.cut(good, list(cuts))]
        return (good, sizes, timely_clock(a, len(sizes), T))
    sc = []
    sc.append(("silent, then valid", [(b"", [-1], timely_clock(100, 1, T)), g(200)]))
    sc.append(("half a message then silent, then valid", [(good[:40], [40, -1], timely_clock(100, 2, T)), g(200, [70])]))
    sc.append(("closed early, then valid", [(good[:33], [33, 0], giveup_clock(100, 1, T, 7)), g(200, [60])]))
    sc.append(("garbage, closed, then valid", [(b"\x00" * 80 + MARKER, [84], timely_clock(100, 1, T)),
                                                (ping[:-1] + b"X", [len(ping)], giveup_clock(100, 1, T, 7)), g(300)]))
    sc.append(("three silent clients, then valid", [(b"", [-1], timely_clock(100 + 10 * i, 1, T)) for i in range(3)]
               + [g(200, [1, 2])]))
    sc.append(("closed early, then valid with a short last read", [(good[:33], [33, 0], giveup_clock(100, 1, T, 7)),
                                                                   g(200, [n - 3])]))
    sc.append(("nobody, then valid", [None, g(50)]))
    return sc


def impl_listen(trecv, nrecv, clients, free_clock=False):
    """the real accept loop over scripted clients; returns per client [code, bytes to decrypt, checksum] and the
    time line (free clock)"""
    dist, dec, cr = get_dist("aes", trecv, nrecv)
    clock = S.FakeClock(start=0.0, tick=0.02) if free_clock else S.FakeClock(readings=[])
    incoming = []
    for cl in clients:
        if cl is None:
            incoming.append(S.ACCEPT_TIMEOUT)
        else:
            stream, spec, ck = cl
            incoming.append(S.ScriptedClient(mk_script(stream, spec), clock,
                                             clock_readings=None if free_clock else list(ck)))
    net = S.FakeNet(incoming, clock)
    cr.calls, cr.net = [], net
    todo = len(clients)
    dead = False
    marks = {}
    with S.installed(net, clock):
        while todo > 0 and not dead:
            before = len(net.accepted) + sum(1 for e in net.log if e[0] == "accept-timeout")
            try:
                dist.incoming_iterations(todo)
            except S.BlockedForever:
                dead = True
            except S.ScriptExhausted:
                marks[len(net.accepted) - 1] = 5
            except Exception as e:      # nothing may escape the accept loop: the listener thread would die
                dead = True
                marks[len(net.accepted) - 1] = 6
                net.escaped = "%s: %s" % (type(e).__name__, str(e)[:80])
            done = len(net.accepted) + sum(1 for e in net.log if e[0] == "accept-timeout")
            todo -= max(done - before, 1)
    out = []
    for i, cl in enumerate(net.accepted):
        mine = [b for who, b in cr.calls if who == i]
        if mine:
            out.append([1, len(mine[0]), sum1(mine[0])])
            continue
        recvs = [e for e in cl.log if e[0] == "recv"]
        kind = recvs[-1][3] if recvs else None
        code = marks.get(i, 4 if kind == "blocked" else 3 if kind == "timeout" else 2)
        out.append([code, 0, 0])
    return out, net, clock, cr


def coq_listen_input(trecv, nrecv, clients, fixed=(True, True)):
    cl = []
    for c in clients:
        if c is None:
            continue
        stream, spec, ck = c
        cl.append("((%s, %s), %s)" % (zs(list(stream)), zs(spec), zs(ck)))
    return "(((52, %d, %d), (%s, %s)), %s)" % (trecv, nrecv, cbool(fixed[0]), cbool(fixed[1]), clist(cl))


# --------------------------------------------------------------------------------------------- run
def run(ctx, res):
    import logging
    logging.disable(logging.CRITICAL)
    try:
        _run(ctx, res)
    finally:
        logging.disable(logging.NOTSET)


def _run(ctx, res):
    common.impl_modules_fresh()
    _DIST_CACHE.clear()
    cases = gen_cases(ctx, res)
    streams = {}
    coq_cases = []
    results = []
    for case in cases:
        r = impl_session(case)
        results.append(r)
        res.note_case((case["stream"], tuple(case["spec"]), tuple(case["clock"]), case["nrecv"], case["trecv"]),
                      r["nrecv"] > 1)
        res.count("kind_" + case["kind"])
        res.count("crypto_" + (case["crypto"] if isinstance(case["crypto"], str) else "stub"))
        res.count("outcome_%d" % r["code"])
        res.count("len_mod16_%d" % ((len(case["stream"]) // 2) % 16))
        name = streams.setdefault(case["stream"], "s%d" % len(streams))
        coq_cases.append((coq_input(case, name), impl_vector(case, r)))
        f = oracle(case, r)
        if f is None and case["kind"] == "trunc":
            f = oracle_timing(case)
        if f:
            res.failures.append(f)
    preamble = "\n".join("Definition %s : list Z := %s." % (nm, zs(list(bytes.fromhex(h))))
                         for h, nm in streams.items())
    mism, errs = common.coq_run_cases(
        "C10", "Model.Recv", "run_C10",
        "(((Z * Z * Z) * (bool * bool)) * (list Z * list Z) * list Z)", coq_cases, shard=400, preamble=preamble)
    res.errors += errs
    res.traces_validated = len(coq_cases) - len(mism)
    for idx, model_out in mism[:20]:
        res.mismatches.append(dict(case=cases[idx], impl=impl_vector(cases[idx], results[idx]), model=model_out))

    # the accept loop: correspondence (scripted clocks) and oracle (free-running clock)
    lcases, lmeta = [], []
    for name, clients in listen_scenarios(ctx):
        out, net, clock, cr = impl_listen(3, 2048, clients)
        flat = [x for o in out for x in o]
        lcases.append((coq_listen_input(3, 2048, clients), flat))
        lmeta.append((name, clients, out))
        res.note_case(("listen", name), True)
        res.count("listen")
        good = clients[-1][0]
        served = [b for who, b in cr.calls if who == len(net.accepted) - 1]
        if len(net.accepted) != sum(1 for c in clients if c is not None):
            served = []
        if getattr(net, "escaped", None):
            res.failures.append(dict(
                signature="exception-kills-listener", what="accept loop: %s escaped _tcp_incoming (%s)"
                % (net.escaped, name), case=dict(listen=name, clients=[None if c is None else dict(
                    stream=c[0].hex(), spec=c[1], clock=c[2]) for c in clients], trecv=3, nrecv=2048), detail=out))
            continue
        if any(o[0] == 4 for o in out):
            res.failures.append(dict(
                signature="silent-client-blocks-listener",
                what="accept loop: a client that connects and sends nothing blocks the only listener thread for "
                     "ever; the valid message behind it is never read (%s)" % name,
                case=dict(listen=name, clients=[None if c is None else dict(stream=c[0].hex(), spec=c[1], clock=c[2])
                                                for c in clients], trecv=3, nrecv=2048), detail=out))
            continue
        if served != [good]:
            last = [k for k in clients[-1][1] if k > 0][-1]
            res.failures.append(dict(
                signature="last-read-shorter-than-min-length" if last < 52 and not served
                else "later-message-not-served", what="accept loop: the valid message after %s was not handed "
                "to decrypt" % name,
                case=dict(listen=name, clients=[None if c is None else dict(stream=c[0].hex(), spec=c[1], clock=c[2])
                                                for c in clients], trecv=3, nrecv=2048), detail=out))
            continue
        # free-running clock: the bad clients together may hold the listener for at most (T + 1) each
        out2, net2, clock2, cr2 = impl_listen(3, 2048, clients, free_clock=True)
        nbad = len(clients) - 1
        t_served = clock2.now
        if any(o[0] == 4 for o in out2) or t_served > nbad * 4.0 + 1.0:
            res.failures.append(dict(
                signature="later-message-delayed-beyond-timeout",
                what="accept loop: valid message served %.1f s after %d bad client(s), timeout_receive=3"
                     % (t_served, nbad),
                case=dict(listen=name, clients=[None if c is None else dict(stream=c[0].hex(), spec=c[1], clock=c[2])
                                                for c in clients], trecv=3, nrecv=2048), detail=out2))
    mism2, errs2 = common.coq_run_cases(
        "C10L", "Model.Recv", "run_C10_listen",
        "(((Z * Z * Z) * (bool * bool)) * list ((list Z * list Z) * list Z))", lcases)
    res.errors += errs2
    res.traces_validated += len(lcases) - len(mism2)
    for idx, model_out in mism2:
        res.mismatches.append(dict(case=dict(listen=lmeta[idx][0]), impl=lmeta[idx][2], model=model_out))

    # bytes that trickle in late, then silence: the give-up bound must hold from the accept, not from the
    # last byte (oracle only: free-running clock, Delayed reads)
    for trecv in (1, 2, 3, 5):
        for dt in (0.5, trecv - 1, trecv - 0.5):
            for tail in (S.TIMEOUT, S.CLOSED):
                dist, dec, cr = get_dist("aes", trecv, 2048)
                cr.calls, cr.net = [], None
                clock = S.FakeClock(start=1000.0, tick=0.02)
                client = S.ScriptedClient([S.Delayed(dt, b"abc"), S.Delayed(dt, b"def"), tail], clock)
                hung = False
                with S.installed(None, clock):
                    try:
                        dist.handle_client(client, "10.0.0.2", 1000)
                    except S.BlockedForever:
                        hung = True
                    except Exception:
                        pass
                res.note_case(("late", trecv, dt, tail), True)
                res.count("late_bytes")
                if not hung and clock.now > 1000 + trecv + 1.0 + 1e-9:
                    res.failures.append(dict(
                        signature="give-up-later-than-receive-timeout",
                        what="bytes arriving %.1f s apart, then %s: connection given up %.2f s after accept, "
                             "timeout_receive=%d" % (dt, tail, clock.now - 1000, trecv),
                        case=dict(late=True, trecv=trecv, dt=dt, tail=tail),
                        detail=[e for e in client.log if e[0] == "recv"]))

    # a client that keeps STREAMING bytes (full-size reads, one byte short of it, several reads' worth at once) without
    # ever completing a message: given up by accept + timeout_receive all the same, and the next message is served
    for trecv in (2, 3):
        for nrecv in (16, 64, 2048):
            for chunk in (nrecv, nrecv - 1, 2 * nrecv, 5):
                for dt in (0.1, 0.4, trecv - 0.5):
                    r = S.streaming_junk_probe(trecv, nrecv, chunk, dt)
                    res.note_case(("stream", trecv, nrecv, chunk, dt), True)
                    res.count("streaming_junk_clients")
                    case = dict(streaming=True, trecv=trecv, nrecv=nrecv, chunk=chunk, dt=dt)
                    if r["hung"] or r["finish"] > trecv + 1.0 + 1e-9:
                        res.failures.append(dict(
                            signature="give-up-later-than-receive-timeout",
                            what="a client delivering %d bytes every %.1f s (recv_bytes=%d) and never a whole message was "
                                 "%s, timeout_receive=%d" % (chunk, dt, nrecv, "never given up" if r["hung"] else
                                                             "given up %.2f s after accept" % r["finish"], trecv),
                            case=case, detail=r))
                    elif not r["valid_queued"]:
                        res.failures.append(dict(signature="message-after-streaming-client-not-served",
                                                 what="the valid message after a streaming client was not delivered",
                                                 case=case, detail=r))

    # the sender's side: whatever _tcp_send reports as sent must have reached the wire whole (a socket's send() may
    # take only part of a large message), so that the receiver applies it
    # (device names are any text without a space: also names whose UTF-8 form is longer than their character count)
    NAMES = [None, (("dev0", "key0"), ("ger\u00e4t", "schl\u00fcssel")), (("\u03c3\u03c5\u03c3\u03ba\u03b5\u03c5\u03ae", "k"), ("dev1", "\u043a\u043b\u044e\u0447")),
             (("a", "b"), ("\U0001f4e1", "\u20ac\u20ac")),
             # only the ASCII space is excluded from a device name: other white space is part of it
             (("dev0", "key0"), ("\u4f1a\u8b70\u5ba4\u3000A", "k\u00a0ey")), (("Salle\u00a0B", "k\tk"), ("dev\u20031", "key\x0b1"))]
    for n in (50, 700, 3000, 20000, 300000) + (() if ctx.quick else (80000, 400000)):
        for send_max, names, kind in [(64, None, "updated"), (512, None, "halted"), (1460, None, "completed")] + \
                [(1460, nm, "updated") for nm in NAMES[1:]] + [(64, NAMES[1], "halted"), (512, None, "updated"), (64, None, "completed")]:
            r = S.sender_probe(n, send_max=send_max, names=names, kind=kind)
            res.note_case(("sender", n, send_max, repr(names), kind), True)
            res.count("sender_side_messages")
            if r["reported"] == 0 and not r["delivered"]:
                res.failures.append(dict(
                    signature="reported-sent-but-not-delivered",
                    what="_tcp_send reported success for a %s-byte message of which %d bytes reached the wire (send() takes "
                         "at most %d bytes per call); the receiver did not hand its %s runs to the subscribers" % (r["message_bytes"], r["wire_bytes"], send_max, kind),
                    case=dict(sender=True, text_len=n, send_max=send_max, names=names, kind=kind), detail=r))
            elif r["reported"] != 0:
                res.errors.append("sender probe: _tcp_send did not succeed on a healthy fake socket: %r" % (r,))
    # the shortest messages: a PING between devices with short names (every message LENGTH, also the smallest)
    for names in (None, (("a", "k1"), ("b", "k2")), (("x", "y"), ("z", "w")), (("dev0", "key0"), ("d", "k")), (("\u00e4", "k"), ("b", "\u00fc"))):
        r = S.sender_probe(0, send_max=1460, names=names, kind="ping")
        res.note_case(("sender-ping", repr(names)), True)
        res.count("sender_side_pings")
        if r["reported"] == 0 and not r["delivered"]:
            res.failures.append(dict(
                signature="reported-sent-but-not-delivered",
                what="_tcp_send reported success for a PING of %s bytes (device names %r); the receiver never recognised it as a "
                     "whole message / did not honour its RESET flag" % (r["message_bytes"], names),
                case=dict(sender=True, text_len=0, send_max=1460, names=names, kind="ping"), detail=r))
        elif r["reported"] != 0:
            res.errors.append("sender probe (ping): _tcp_send did not succeed on a healthy fake socket: %r" % (r,))

    # a connection reset (not in the model: oracle only) must not stop the listener either
    aes = dict(aes_messages(True))
    good = aes["sync-1"]
    clients = [(b"abc", [3], timely_clock(10, 1, 3)), (good, [len(good)], timely_clock(20, 1, 3))]
    dist, dec, cr = get_dist("aes", 3, 2048)
    clock = S.FakeClock(readings=[])
    rs = S.ScriptedClient([b"abc", S.Reset()], clock, clock_readings=[10, 10, 10, 11])
    ok = S.ScriptedClient([good], clock, clock_readings=[20, 20, 21])
    net = S.FakeNet([rs, ok], clock)
    cr.calls, cr.net = [], net
    with S.installed(net, clock):
        try:
            dist.incoming_iterations(2)
        except BaseException as e:   # noqa: B902
            if isinstance(e, (KeyboardInterrupt, SystemExit)):
                raise
    res.note_case(("listen", "reset"), True)
    if [b for _, b in cr.calls] != [good]:
        res.failures.append(dict(signature="later-message-not-served",
                                 what="accept loop: the valid message after a connection reset was not served",
                                 case=dict(listen="reset then valid"), detail=[len(b) for _, b in cr.calls]))

    res.samples = [dict(note=c["note"], bytes=len(c["stream"]) // 2, spec=c["spec"][:8], clock=c["clock"][:8],
                        recv_bytes=c["nrecv"], outcome=r["code"], recv_calls=r["nrecv"])
                   for c, r in list(zip(cases, results))[:3] + list(zip(cases, results))[len(cases) // 2:len(cases) // 2 + 3]]
    res.extra["exhaustive_scope"] = ("stub-crypto messages of every length 6..%d: all 2-way cuts, all 3-way cuts "
                                     "(length <= %d), all uniform read sizes, truncation at every byte closed/silent; "
                                     "all 256 compositions of a 9-byte message; real PING/SYNC wire messages: 2-way cut "
                                     "and truncation at every byte" % (18 if ctx.quick else 26, 15 if ctx.quick else 22))
    res.exhaustive = True
    res.extra["d7_witness"] = "corpus/C10-D7.json" if load_d7() else "missing"

    def size(f):
        c = f["case"]
        real = 0 if c.get("crypto") == "aes" else 1      # a real wire message makes the better replay
        return (real, len(c.get("stream", "")) if "stream" in c else 10 ** 6,
                len(boundaries(c)) if "spec" in c else 0)
    res.failures.sort(key=size)


# --------------------------------------------------------------------------------------------- replay
def replay_stream(case):
    r = S.streaming_junk_probe(case["trecv"], case["nrecv"], case["chunk"], case["dt"])
    print("a client delivering %d bytes every %.1f s, recv_bytes=%d, timeout_receive=%d, then a valid SYNC"
          % (case["chunk"], case["dt"], case["nrecv"], case["trecv"]))
    print("implementation:", r)
    bad = r["hung"] or r["finish"] > case["trecv"] + 1.0 + 1e-9 or not r["valid_queued"]
    print("held beyond the receive timeout" if bad else "given up within timeout_receive of the accept; next message served")
    return 1 if bad else 0


def replay(obj):
    case = obj.get("case") or {}
    if case.get("streaming"):
        return replay_stream(case)
    if case.get("sender"):
        nm = case.get("names")
        r = S.sender_probe(case["text_len"], send_max=case["send_max"], names=[tuple(x) for x in nm] if nm else None, kind=case.get("kind", "updated"))
        print("real _tcp_send on a socket whose send() takes at most %d bytes per call:" % case["send_max"], r)
        bad = r["reported"] == 0 and not r["delivered"]
        print("reported as sent, but the receiver applied nothing" if bad else "what was reported as sent was applied")
        return 1 if bad else 0
    if case.get("late"):
        dist, dec, cr = get_dist("aes", case["trecv"], 2048)
        clock = S.FakeClock(start=1000.0, tick=0.02)
        client = S.ScriptedClient([S.Delayed(case["dt"], b"abc"), S.Delayed(case["dt"], b"def"), case["tail"]], clock)
        with S.installed(None, clock):
            try:
                dist.handle_client(client, "10.0.0.2", 1000)
            except BaseException as e:   # noqa: B902
                print("handler ended with", type(e).__name__, e)
        print("recv calls (n, socket timeout, result, bytes):", [e[1:] for e in client.log if e[0] == "recv"])
        late = clock.now > 1000 + case["trecv"] + 1.0
        print("given up %.2f s after accept; timeout_receive=%d" % (clock.now - 1000, case["trecv"]))
        print("FAILS: later than timeout_receive (+1 s for the integer clock)" if late else "ok")
        return 1 if late else 0
    if "listen" in case:
        if "clients" not in case:
            print(obj)
            return 0
        clients = [None if c is None else (bytes.fromhex(c["stream"]), c["spec"], c["clock"]) for c in case["clients"]]
        out, net, clock, cr = impl_listen(case["trecv"], case["nrecv"], clients)
        print("scenario      :", case["listen"])
        print("implementation: per client [outcome, bytes handed to decrypt, checksum] =", out)
        model, log = common.coq_eval("C10L", "Model.Recv",
                                     "run_C10_listen %s" % coq_listen_input(case["trecv"], case["nrecv"], clients))
        print("model (repaired code):", model)
        model_u, _ = common.coq_eval("C10L", "Model.Recv", "run_C10_listen %s" % coq_listen_input(
            case["trecv"], case["nrecv"], clients, fixed=(False, False)))
        print("model (pinned commit):", model_u)
        bad = any(o[0] == 4 for o in out) or not out or out[-1][0] != 1
        print("outcome codes: 1 handed to decrypt, 2 given up by the clock, 3 given up by socket timeout, "
              "4 recv blocks for ever, 5 clock script too short")
        print("FAILS: the last client's message is not served" if bad else "ok: the last client's message is served")
        return 1 if bad else 0
    if "stream" not in case:
        print(obj)
        return 0
    r = impl_session(case)
    n = len(case["stream"]) // 2
    print("connection    : %d bytes available, reads %s, recv_bytes=%d, timeout_receive=%d, clock %s"
          % (n, case["spec"], case["nrecv"], case["trecv"], case["clock"][:12]))
    print("implementation:", impl_vector(case, r), "exception:", r["exc"])
    for label, fx in (("model (repaired code)", (True, True)), ("model (pinned commit)", (False, False))):
        model, _ = common.coq_eval("C10", "Model.Recv", "run_C10 %s" % coq_input(case, fixed=fx))
        print("%s:" % label, model)
    print("vector: [outcome (1 handed to decrypt, 2 given up by clock, 3 by socket timeout, 4 blocks for ever, "
          "5 clock script short); elapse; bytes handed to decrypt; equal to the stream; checksums; recv calls; "
          "clock readings] + socket timeout per recv (-1 none)")
    f = oracle(case, r) or (oracle_timing(case) if case.get("kind") == "trunc" else None)
    if f:
        print("FAILS [%s]: %s" % (f["signature"], f["what"]))
        return 1
    print("ok")
    return 0
