"""Process-parallel map (fork) for implementation-side work."""
import multiprocessing as mp
import os

_F = None


def _call(x):
    return _F(x)


def pmap(f, items, procs=None, chunksize=50):
    global _F
    items = list(items)
    procs = procs or int(os.environ.get("VERIF_JOBS", "16"))
    if len(items) < 200 or procs <= 1:
        return [f(x) for x in items]
    _F = f
    ctx = mp.get_context("fork")
    with ctx.Pool(procs) as pool:
        return pool.map(_call, items, chunksize)
