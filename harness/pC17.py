"""C17 Encryption round-trips, authenticates and never reuses a nonce.

Implementation under test: bobocep/dist/crypto/aes.py (imported from common.REPO, never copied).
Correspondence (model evaluated inside Coq, Model/Crypto.v run_C17, five kinds of case):
  0 toy     the implementation's own encrypt/decrypt code run with PyCryptodome's AES.new replaced by the toy
            cipher of the model and get_random_bytes (as imported in aes.py) scripted: output bytes and the
            decrypted text must equal the model's, byte for byte (padding, encoding, layout, slicing, rstrip)
  1 toydec  decrypt of crafted / damaged messages with the toy cipher
  2 layout  real AES: what the implementation fed to / got from the cipher (spy around AES.new) against the
            model's padding+encoding and the model's slicing of the implementation's bytes; min_length, marker,
            total length, decrypt result as predicted by theorem C17_roundtrip_general
  3 slices  decrypt's three negative-index slices (and the tag length the cipher is built for) on arbitrary,
            also too short, messages
  5 seq     two consecutive encrypt calls of one instance (toy cipher): the i-th call uses the i-th draw
  4 utf8    the model's strict UTF-8 decoder against bytes.decode (stand-in codec of the toy runs)
Oracle (implementation only, real AES): round trip over key sizes x nonce 8..32 x tag 4..16 x lengths 0..64 and
longer, ASCII / multi-byte; every single-bit flip of ciphertext|nonce|tag must raise; min length + marker for
non-empty texts; nonce freshness (real RNG: batch pairwise distinct; scripted RNG: nonce field is the draw)."""
import contextlib

import common
from common import zs, zz

PROP = "C17"
PROPERTY_FILES = ["Properties/C17.v"]
META = dict(
    level_text="Theorems (Coq, closed under the global context; AES-GCM and the UTF-8 codec enter only as explicit "
               "premises gcm_laws / utf8_laws / gcm_tag_length_checked): for every key, nonce length, tag length "
               "and every text, decrypt(encrypt s) = s without its trailing U+0000 (so = s iff s does not end in "
               "U+0000: D14 exactly); decrypt's slices recover ciphertext, nonce, tag for all field lengths; every "
               "non-empty text gives >= 16+n+m+4 bytes ending in BOBO (the empty text gives n+m+4); the nonce field "
               "is the call's draw, distinct draws give distinct messages, a non-repeating source gives no repeated "
               "nonce over any call sequence; the pinned-commit decrypt rejects every message when tag length != 16 "
               "(D13). Authentication is PARTIAL: proved that decrypt returns only what the cipher verified and that "
               "any change before the marker changes the verified triple; that GCM rejects it is assumed and tested "
               "(every single-bit flip). Tie to the code: aes.py's own encrypt/decrypt are executed with the model's "
               "toy cipher injected and compared byte for byte with the model run in Coq; with the real AES the "
               "model's padding/encoding/slicing are compared with what aes.py handed to and got from PyCryptodome; "
               "the oracle also keeps ONE instance per nonce length 8..32 alive for 160 (thorough 700) messages.",
    level_note="Trusted: Coq kernel/vm_compute; harness (scripted get_random_bytes, spy/toy replacement of "
               "Crypto.Cipher.AES.new, Python mirror of the toy cipher); PyCryptodome AES-GCM and CPython's UTF-8 "
               "codec as characterised by the premises; CSPRNG non-repetition. Partial: unforgeability of GCM is "
               "not a theorem.",
    rule="configurations: keys of 16/24/32 characters (ASCII; a few multi-byte and wrong-size ones), nonce length "
         "8..32 (+ 0,1,7,33,40), tag length 4..16 (+ 0,3,17); texts of every length 0..64 and sampled longer, ASCII, "
         "multi-byte (2/3/4-byte code points incl. range ends), JSON-like, with leading/inner/trailing U+0000; "
         "messages for slicing of every length around the field boundaries incl. shorter than nonce+tag+marker; "
         "non-trivial = padding applied, or multi-byte text, or (nonce,tag) != (16,16), or damaged/short message",
    trusted_base=["harness: aes.get_random_bytes scripted; Crypto.Cipher.AES.new wrapped (spy) or replaced by the "
                  "Python mirror of Model/Crypto.v's toy cipher", "PyCryptodome 3.20 AES-GCM (gcm_laws, "
                  "gcm_tag_length_checked) and CPython UTF-8 codec (utf8_laws): premises, not verified",
                  "GCM unforgeability and CSPRNG non-repetition: assumed, sampled by the oracle"],
    assumptions=["gcm_laws: for accepted (key,nonce,mac_len) |ct|=|pt|, |tag|=mac_len, decrypt_and_verify inverts "
                 "encrypt_and_digest", "gcm_tag_length_checked: a tag whose length differs from mac_len never "
                 "verifies (D13 theorem only)", "utf8_laws: encode('')=b'', |encode s|>=|s|, decode(encode s)=s "
                 "for texts of Unicode scalar values",
                 "get_random_bytes(n) returns n bytes; one call per encrypt; it does not repeat (CSPRNG)",
                 "AES-GCM rejects every modified (nonce, ciphertext, tag) (unforgeability; not a theorem)"])

SEP = -2
K_TOY, K_TOYDEC, K_LAYOUT, K_SLICES, K_UTF8, K_SEQ = 0, 1, 2, 3, 4, 5
MULTI = [0xE9, 0x20AC, 0x1F600, 0x80, 0x7FF, 0x800, 0xFFFF, 0x10000, 0x10FFFF, 0xD7FF, 0xE000, 0x4E2D, 0x3B1]


class CannotObserve(Exception):
    pass


def aesmod():
    import bobocep.dist.crypto.aes as m
    return m


def text_of(cps):
    return "".join(chr(c) for c in cps)


def cps_of(s):
    return [ord(ch) for ch in s]


# ------------------------------------------------------------------ patching points
@contextlib.contextmanager
def scripted_rng(draws):
    """Replace get_random_bytes as imported in aes.py; the i-th call returns the i-th of `draws` (a single draw or
    a list; the last one repeats), fitted to the size asked."""
    m = aesmod()
    if not hasattr(m, "get_random_bytes"):
        raise CannotObserve("bobocep.dist.crypto.aes has no get_random_bytes to script")
    log = []

    if not (draws and isinstance(draws[0], (list, bytes, bytearray))):
        draws = [draws]

    def grb(n):
        draw = draws[min(len(log), len(draws) - 1)]
        b = bytes(draw) if len(draw) == n else (bytes(draw) + bytes(max(n, 0)))[:max(n, 0)]
        log.append((n, b))
        return b
    old = m.get_random_bytes
    m.get_random_bytes = grb
    try:
        yield log
    finally:
        m.get_random_bytes = old


@contextlib.contextmanager
def patched_new(fn):
    import Crypto.Cipher.AES as A
    old = A.new
    A.new = fn
    try:
        yield
    finally:
        A.new = old


# ------------------------------------------------------------------ Python mirror of the model's toy cipher
def _wsum(xs):
    return sum((i + 1) * x for i, x in enumerate(xs))


def toy_seed(key, nonce):
    return sum(key) + 31 * _wsum(nonce)


def toy_xor(seed, data, off=0):
    return bytes(x ^ ((seed + 7 * (off + i)) % 256) for i, x in enumerate(data))


def toy_tag(key, nonce, m, ct):
    base = toy_seed(key, nonce) + _wsum(ct) + len(ct)
    return bytes((base + 13 * j) % 256 for j in range(max(m, 0)))


class ToyCipher:
    def __init__(self, key, nonce, mac_len, rec, permissive):
        self.key, self.nonce, self.mac_len, self.rec, self.permissive = key, nonce, mac_len, rec, permissive
        self.seed = toy_seed(key, nonce)
        self.acc = b""

    def encrypt(self, pt, *a, **k):
        pt = bytes(pt)
        ct = toy_xor(self.seed, pt, len(self.acc))
        self.acc += ct
        return ct

    def digest(self):
        return toy_tag(self.key, self.nonce, self.mac_len, self.acc)

    def encrypt_and_digest(self, pt, *a, **k):
        return self.encrypt(pt), self.digest()

    def decrypt(self, ct, *a, **k):
        ct = bytes(ct)
        self.rec.append(("ct", ct))
        pt = toy_xor(self.seed, ct, len(self.acc))
        self.acc += ct
        return pt

    def verify(self, tag):
        self.rec.append(("tag", bytes(tag)))
        if self.permissive or bytes(tag) != toy_tag(self.key, self.nonce, self.mac_len, self.acc):
            raise ValueError("MAC check failed")

    def decrypt_and_verify(self, ct, tag, *a, **k):
        pt = self.decrypt(ct)
        self.verify(tag)
        return pt

    def update(self, *a, **k):
        raise CannotObserve("associated data is not modelled")


def toy_new(rec, permissive=False):
    def new(key, mode, *args, **kw):
        nonce = kw.get("nonce", args[0] if args else None)
        if nonce is None:
            raise CannotObserve("AES.new called without a nonce")
        nonce, key = bytes(nonce), bytes(key)
        mac_len = kw.get("mac_len", 16)          # PyCryptodome's default
        rec.append(("new", nonce, mac_len))
        if not permissive:                        # PyCryptodome's argument checks
            if len(key) not in (16, 24, 32):
                raise ValueError("Incorrect AES key length (%d bytes)" % len(key))
            if len(nonce) == 0:
                raise ValueError("Nonce cannot be empty")
            if not 4 <= mac_len <= 16:
                raise ValueError("Parameter 'mac_len' must be in the range 4..16")
        return ToyCipher(key, nonce, mac_len, rec, permissive)
    return new


class SpyCipher:
    def __init__(self, inner, rec):
        self._i, self._r = inner, rec

    def encrypt(self, pt, *a, **k):
        ct = self._i.encrypt(pt, *a, **k)
        self._r["pt"] += bytes(pt)
        self._r["ct"] += bytes(ct)
        return ct

    def digest(self):
        t = self._i.digest()
        self._r["tag"] = bytes(t)
        return t

    def encrypt_and_digest(self, pt, *a, **k):
        ct, t = self._i.encrypt_and_digest(pt, *a, **k)
        self._r["pt"] += bytes(pt)
        self._r["ct"] += bytes(ct)
        self._r["tag"] = bytes(t)
        return ct, t

    def __getattr__(self, name):
        return getattr(self._i, name)


def spy_new(rec):
    import Crypto.Cipher.AES as A
    real = A.new

    def new(key, mode, *args, **kw):
        c = real(key, mode, *args, **kw)
        if mode != A.MODE_GCM:        # PyCryptodome's GCM builds its ECB/CTR sub-ciphers through AES.new too
            return c
        rec["new"].append((bytes(kw.get("nonce", args[0] if args else b"")), kw.get("mac_len", 16)))
        return SpyCipher(c, rec)
    return new


# ------------------------------------------------------------------ implementation drivers
def construct(key_cps, n, m):
    m_ = aesmod()
    from bobocep.dist.crypto.crypto import BoboDistributedCryptoError
    try:
        return m_.BoboDistributedCryptoAES(text_of(key_cps), n, m)
    except BoboDistributedCryptoError:
        return None


def impl_toy(key, n, m, draw, text):
    c = construct(key, n, m)
    if c is None:
        return [0]
    head = [1, c.min_length()]
    rec = []
    with scripted_rng(draw) as log, patched_new(toy_new(rec)):
        try:
            out = bytes(c.encrypt(text_of(text)))
        except ValueError:
            return head + [-1]
        if not rec:
            raise CannotObserve("encrypt did not go through Crypto.Cipher.AES.new")
        if not log:
            raise CannotObserve("encrypt did not call aes.get_random_bytes")
        try:
            dec = [1] + cps_of(c.decrypt(out))
        except ValueError:
            dec = [-1]
    return head + [1] + list(out) + [SEP] + dec


def impl_seq(key, n, m, d1, d2, text):
    c = construct(key, n, m)
    rec, res = [], []
    with scripted_rng([d1, d2]), patched_new(toy_new(rec)):
        for _ in range(2):
            try:
                res += [1] + list(bytes(c.encrypt(text_of(text)))) + [SEP]
            except ValueError:
                res += [-1, SEP]
    return res


def impl_toydec(key, n, m, msg):
    c = construct(key, n, m)
    rec = []
    with patched_new(toy_new(rec)):
        try:
            return [1] + cps_of(c.decrypt(bytes(msg)))
        except ValueError:
            return [-1]


def impl_layout(key, n, m, draw, text):
    """-> (encrypt output bytes or b'', expected observation list)"""
    c = construct(key, n, m)
    rec = dict(pt=b"", ct=b"", tag=None, new=[])
    with scripted_rng(draw) as log, patched_new(spy_new(rec)):
        try:
            out = bytes(c.encrypt(text_of(text)))
        except ValueError:
            return b"", [-1]
    if not rec["new"] or rec["tag"] is None:
        raise CannotObserve("encrypt did not go through Crypto.Cipher.AES.new / digest")
    try:
        dec = [1] + cps_of(c.decrypt(out))
    except ValueError:
        dec = [-1]
    try:
        nchars = len(rec["pt"].decode("utf-8"))
    except ValueError:
        nchars = -7
    exp = ([nchars, c.min_length(), len(out), int(len(out) >= c.min_length())] + list(rec["pt"]) + [SEP]
           + list(rec["ct"]) + [SEP] + list(rec["new"][-1][0]) + [SEP] + list(rec["tag"]) + [SEP]
           + list(c.end_bytes()) + [SEP] + dec)
    return out, exp


def impl_slices(n, m, msg):
    """what decrypt hands to the cipher: ct, nonce, tag and the tag length the cipher is built for"""
    c = construct([107] * 16, n, m)
    rec = []
    with patched_new(toy_new(rec, permissive=True)):
        try:
            c.decrypt(bytes(msg))
        except ValueError:
            pass
    new = [r for r in rec if r[0] == "new"]
    ct = [r for r in rec if r[0] == "ct"]
    tag = [r for r in rec if r[0] == "tag"]
    if not (new and ct and tag):
        return None
    return list(b"".join(r[1] for r in ct)) + [SEP] + list(new[-1][1]) + [SEP] + list(tag[-1][1]) + [SEP, new[-1][2]]


def impl_utf8(bs):
    try:
        return [1] + cps_of(bytes(bs).decode("utf-8"))
    except ValueError:
        return [-1]


# ------------------------------------------------------------------ Coq terms
def term(kind, a, nm, b, c):
    return "(%d, (%s, (%s, %s), %s, %s))" % (kind, zs(a), zz(nm[0]), zz(nm[1]), zs(b), zs(c))


def case_term(case):
    k = case["kind"]
    if k == K_TOY:
        return term(k, case["key"], (case["n"], case["m"]), case["draw"], case["text"])
    if k == K_TOYDEC:
        return term(k, case["key"], (case["n"], case["m"]), case["msg"], [])
    if k == K_LAYOUT:
        return term(k, case["key"], (case["n"], case["m"]), case["text"], case["out"])
    if k == K_SLICES:
        return term(k, [], (case["n"], case["m"]), case["msg"], [])
    if k == K_SEQ:
        return term(k, case["key"], (case["n"], case["m"]), case["draw"] + case["draw2"], case["text"])
    return term(k, case["bytes"], (0, 0), [], [])


def run_impl(case):
    """-> expected list (and fills case['out'] for layout); None = not observable"""
    k = case["kind"]
    if k == K_TOY:
        return impl_toy(case["key"], case["n"], case["m"], case["draw"], case["text"])
    if k == K_TOYDEC:
        return impl_toydec(case["key"], case["n"], case["m"], case["msg"])
    if k == K_LAYOUT:
        out, exp = impl_layout(case["key"], case["n"], case["m"], case["draw"], case["text"])
        case["out"] = list(out)
        return exp
    if k == K_SLICES:
        return impl_slices(case["n"], case["m"], case["msg"])
    if k == K_SEQ:
        return impl_seq(case["key"], case["n"], case["m"], case["draw"], case["draw2"], case["text"])
    return impl_utf8(case["bytes"])


# ------------------------------------------------------------------ generators
def gen_key(rng, size, kind="ascii"):
    if kind == "ascii":
        return [rng.randint(33, 126) for _ in range(size)]
    return [rng.choice([0xE9, 0x20AC, 97]) for _ in range(size)]


def gen_text(rng, L, kind):
    if kind == "ascii":
        return [rng.randint(32, 126) for _ in range(L)]
    if kind == "multi":
        return [rng.choice(MULTI) if rng.random() < 0.6 else rng.randint(32, 126) for _ in range(L)]
    if kind == "json":
        body = '{"k": "%s", "v": [1, 2.5, null, "\\u00e9"]}' % ("x" * max(L - 36, 0))
        return cps_of(body)[:L] if L < len(body) else cps_of(body)
    if kind == "nul":      # NULs anywhere but not at the end
        t = [0 if rng.random() < 0.3 else rng.randint(32, 126) for _ in range(L)]
        if t:
            t[-1] = rng.randint(33, 126)
        return t
    if kind == "trail":    # ends in 1..3 NULs
        k = min(L, rng.randint(1, 3))
        return [rng.choice([97, 0xE9, 0]) for _ in range(L - k)] + [0] * k
    raise ValueError(kind)


def gen_draw(rng, n, counter):
    n = max(n, 0)
    b = bytearray(rng.randbytes(n))
    ctr = (counter % (256 ** min(n, 4))).to_bytes(min(n, 4), "big") if n else b""
    if n:
        b[n - len(ctr):] = ctr
    return list(b)


def fixed_draw(n, i):
    return bytes((i * 37 + j * 11 + 1) % 256 for j in range(max(n, 0)))


def configs_grid():
    return [(k, n, m) for k in (16, 24, 32) for n in range(8, 33) for m in range(4, 17)]


def nontrivial_text(n, m, text):
    return (len(text) % 16 != 0) or any(c > 127 for c in text) or (n, m) != (16, 16)


def build_corr_cases(ctx):
    rng = ctx.rng
    q = ctx.quick
    cases = []
    ctr = [0]

    def draw(n):
        ctr[0] += 1
        return gen_draw(rng, n, ctr[0])

    kinds = ["ascii", "multi", "json", "nul", "trail"]
    # corpus: D13 / D14 witnesses and edge cases
    k16 = [107] * 16
    for kind in (K_TOY, K_LAYOUT):
        for (n, m, t) in [(8, 4, []), (16, 8, [104, 105]), (16, 16, [97, 0]), (16, 16, [0]), (16, 16, [0, 97]),
                          (12, 16, [0xE9] * 16), (32, 4, [0x1F600] * 17), (16, 16, [97] * 16), (16, 16, [97] * 15),
                          (8, 16, [])]:
            cases.append(dict(kind=kind, key=k16, n=n, m=m, draw=draw(n), text=t))
    # every nonce length and every tag length, all key sizes, all text kinds
    grid = configs_grid()
    per = 1 if q else 4
    for i, (k, n, m) in enumerate(grid):
        for j in range(per):
            L = rng.choice([rng.randint(0, 64), rng.randint(0, 64), rng.randint(65, 200)])
            t = gen_text(rng, L, kinds[(i + j) % len(kinds)])
            key = gen_key(rng, k)
            kind = K_TOY if (i + j) % 2 == 0 else K_LAYOUT
            cases.append(dict(kind=kind, key=key, n=n, m=m, draw=draw(n), text=t))
    # two consecutive calls of one instance: one draw each
    for i, (k, n, m) in enumerate(grid):
        if i % (13 if q else 3) == 0:
            cases.append(dict(kind=K_SEQ, key=gen_key(rng, k), n=n, m=m, draw=draw(n), draw2=draw(n),
                              text=gen_text(rng, rng.randint(0, 40), kinds[i % 2])))
    # every text length 0..64, ASCII and multi-byte, on a few configurations
    for (k, n, m) in [(16, 16, 16), (32, 12, 8)] + ([] if q else [(24, 8, 4), (16, 32, 15)]):
        key = gen_key(rng, k)
        for L in range(0, 65):
            for tk in ("ascii", "multi"):
                cases.append(dict(kind=K_TOY if tk == "ascii" else K_LAYOUT, key=key, n=n, m=m, draw=draw(n),
                                  text=gen_text(rng, L, tk)))
                if not q:
                    cases.append(dict(kind=K_LAYOUT if tk == "ascii" else K_TOY, key=key, n=n, m=m, draw=draw(n),
                                      text=gen_text(rng, L, tk)))
    # configurations outside what PyCryptodome / the constructor accept, odd keys
    odd = [(16, 0, 16), (16, 1, 16), (16, 7, 4), (16, 33, 16), (16, 40, 5), (16, 16, 3), (16, 16, 17), (16, 16, 0),
           (24, 12, 12), (15, 16, 16), (17, 16, 16), (0, 16, 16), (33, 16, 16), (31, 8, 8)]
    for (k, n, m) in odd:
        for t in ([], [97], gen_text(rng, 20, "multi")):
            cases.append(dict(kind=K_TOY, key=gen_key(rng, k), n=n, m=m, draw=draw(n), text=t))
            if k in (16, 24, 32):
                cases.append(dict(kind=K_LAYOUT, key=gen_key(rng, k), n=n, m=m, draw=draw(n), text=t))
    for key in ([0xE9] * 16, [0x20AC] * 16, [0xE9] * 8 + [97] * 8, [0xE9] * 12 + [97] * 12, [0x20AC] * 8 + [97] * 8):
        for kind in (K_TOY, K_LAYOUT):
            cases.append(dict(kind=kind, key=key, n=16, m=16, draw=draw(16), text=[104, 105]))
    # decrypt's slicing on arbitrary messages, all lengths around the boundaries
    nm = [(16, 16), (8, 4), (32, 16), (12, 7), (1, 4), (0, 16), (16, 0), (0, 0), (33, 17), (20, 3)]
    for (n, m) in nm:
        k = n + m + 4
        lens = sorted(set([0, 1, 2, 3, 4, 5, 6, m + 3, m + 4, m + 5, k - 1, k, k + 1, k + 2, k + 16, k + 33]))
        for L in lens:
            if L < 0:
                continue
            cases.append(dict(kind=K_SLICES, n=n, m=m, msg=list(rng.randbytes(L))))
    for _ in range(150 if q else 1500):
        n, m = rng.randint(0, 34), rng.randint(0, 18)
        L = rng.choice([rng.randint(0, n + m + 8), rng.randint(0, 120)])
        cases.append(dict(kind=K_SLICES, n=n, m=m, msg=list(rng.randbytes(L))))
    # toy decrypt of crafted and damaged messages
    for _ in range(250 if q else 2500):
        k, n, m = rng.choice([16, 24, 32]), rng.randint(1, 33), rng.randint(4, 16)
        key = gen_key(rng, k)
        nonce = bytes(gen_draw(rng, n, rng.randint(0, 10 ** 6)))
        mode = rng.choice(["valid-text", "valid-bytes", "badtag", "truncate", "extend", "flip", "short"])
        if mode == "valid-text":
            t = gen_text(rng, rng.randint(0, 40), rng.choice(kinds))
            pt = text_of(t).encode("utf-8") + bytes(rng.choice([0, 0, 1, 5]))   # also unaligned padding
        else:
            pt = bytes(rng.choice([rng.randint(0, 255), rng.randint(0, 127), 0xC3, 0xA9, 0xE2, 0x82, 0xAC, 0xF0, 0x9F,
                                   0x98, 0x80, 0xED, 0xA0, 0x80, 0xC0, 0xF4, 0x90]) for _ in range(rng.randint(0, 24)))
        ct = toy_xor(toy_seed(key, nonce), pt)
        tag = toy_tag(key, nonce, m, ct)
        msg = bytearray(ct + nonce + tag + b"BOBO")
        if mode == "badtag":
            msg[len(ct) + n + rng.randrange(m)] ^= 1 << rng.randrange(8)
        elif mode == "truncate":
            del msg[rng.randrange(len(msg))]
        elif mode == "extend":
            msg.insert(rng.randrange(len(msg) + 1), rng.randint(0, 255))
        elif mode == "flip":
            msg[rng.randrange(len(msg))] ^= 1 << rng.randrange(8)
        elif mode == "short":
            msg = msg[:rng.randint(0, n + m + 4)]
        cases.append(dict(kind=K_TOYDEC, key=key, n=n, m=m, msg=list(msg)))
    # the stand-in UTF-8 decoder
    lead = [0x00, 0x41, 0x7F, 0x80, 0xBF, 0xC0, 0xC1, 0xC2, 0xDF, 0xE0, 0xE1, 0xEC, 0xED, 0xEE, 0xEF, 0xF0, 0xF1, 0xF3,
            0xF4, 0xF5, 0xF7, 0xF8, 0xFF, 0x9F, 0xA0, 0x8F, 0x90]
    for _ in range(300 if q else 3000):
        if rng.random() < 0.5:
            bs = list(text_of(gen_text(rng, rng.randint(0, 12), "multi")).encode("utf-8"))
            if bs and rng.random() < 0.6:
                bs[rng.randrange(len(bs))] = rng.choice(lead)
        else:
            bs = [rng.choice(lead) for _ in range(rng.randint(0, 6))]
        cases.append(dict(kind=K_UTF8, bytes=bs))
    return cases


KIND_NAME = {K_SEQ: "seq", K_TOY: "toy", K_TOYDEC: "toydec", K_LAYOUT: "layout", K_SLICES: "slices", K_UTF8: "utf8"}


def case_nontrivial(case):
    k = case["kind"]
    if k in (K_TOY, K_LAYOUT, K_SEQ):
        return nontrivial_text(case["n"], case["m"], case["text"])
    if k == K_UTF8:
        return any(b > 127 for b in case["bytes"])
    return True


def public_case(case):
    c = dict(case)
    c["kind"] = KIND_NAME[case["kind"]]
    return c


# ------------------------------------------------------------------ oracle (implementation only)
def fail(res, sig, what, case, detail=None):
    n = sum(1 for f in res.failures if f["signature"] == sig)
    if n < 300:      # enough to pick the smallest from; the count of the rest is kept
        res.failures.append(dict(signature=sig, what=what, case=case, detail=detail))
    else:
        res.count("failures_not_listed_%s" % sig)


def rt_case(key, n, m, text):
    return dict(kind="roundtrip", key=key, nonce_length=n, mac_length=m, text=text, text_repr=repr(text_of(text)))


def check_roundtrip(res, c, key, n, m, text):
    """-> encrypt output if the round trip is fine, else None (failure recorded)"""
    s = text_of(text)
    case = rt_case(key, n, m, text)
    try:
        out = bytes(c.encrypt(s))
    except Exception as e:   # noqa
        fail(res, "encrypt-raises", "encrypt raised %s" % type(e).__name__, case, repr(e))
        return None
    if text:
        if len(out) < c.min_length():
            fail(res, "shorter-than-min-length", "non-empty text encrypted to %d < min_length() = %d bytes"
                 % (len(out), c.min_length()), case)
        if not out.endswith(bytes(c.end_bytes())) or bytes(c.end_bytes()) != b"BOBO":
            fail(res, "marker-missing", "encrypted message does not end with the frame marker", case, list(out[-8:]))
    try:
        back = c.decrypt(out)
    except ValueError as e:
        if m != 16:
            fail(res, "undecryptable-when-mac-length-not-16",
                 "decrypt rejects the instance's own encrypt output: mac_length=%d, %s" % (m, e), case, repr(e))
        else:
            fail(res, "own-output-rejected", "decrypt rejects the instance's own encrypt output: %s" % e, case, repr(e))
        return None
    if back != s:
        if s.endswith("\0") and back == s.rstrip("\0"):
            fail(res, "plaintext-trailing-NUL", "text ending in U+0000 comes back without its trailing U+0000", case,
                 dict(decrypted=cps_of(back)))
        else:
            fail(res, "roundtrip-differs", "decrypt(encrypt(text)) != text", case, dict(decrypted=cps_of(back)))
        return None
    # the message exactly as encrypt() returned it (a bytearray), read by two receivers one after the other: decrypt()
    # only reads it
    try:
        raw = c.encrypt(s)
        kept = bytes(raw)
        first = c.decrypt(raw)
        same = bytes(raw) == kept
        second = c.decrypt(raw) if same else None
    except Exception as e:   # noqa
        fail(res, "decrypt-alters-the-message", "the same encrypted message object decrypted twice: %s: %s" % (type(e).__name__, e), case)
        return None
    if not same or first != s or second != s:
        fail(res, "decrypt-alters-the-message", "decrypt() changed the message it was given (%d bytes before, %d after): a second "
             "receiver of the same object cannot read it" % (len(kept), len(bytes(raw))), case)
        return None
    return out


def check_tamper(res, c, key, n, m, text, out):
    body = len(out) - 4
    flips = 0
    for pos in range(body):
        for bit in range(8):
            t = bytearray(out)
            t[pos] ^= 1 << bit
            flips += 1
            try:
                if (pos * 8 + bit) % 5 == 0:
                    c.decrypt(bytes(out))       # the receiver opened the genuine message just before the altered copy arrives
                r = c.decrypt(bytes(t))
            except Exception:   # noqa  rejected
                continue
            field = "ciphertext" if pos < len(out) - (n + m + 4) else "nonce" if pos < len(out) - (m + 4) else "tag"
            fail(res, "tampered-%s-accepted" % field,
                 "a message with one bit of the %s flipped was decrypted instead of rejected" % field,
                 dict(kind="tamper", key=key, nonce_length=n, mac_length=m, text=text, message=list(out), byte=pos,
                      bit=bit), dict(decrypted=cps_of(r)))
            return flips
    return flips


def nonce_field(out, n, m):
    return bytes(out[len(out) - (n + m + 4): len(out) - (m + 4)]) if len(out) >= n + m + 4 else None


def check_nonces(res, key, n, m, text, batch):
    c = construct(key, n, m)
    s = text_of(text)
    case = dict(kind="nonce-batch", key=key, nonce_length=n, mac_length=m, text=text, batch=batch)
    try:
        outs = [bytes(c.encrypt(s)) for _ in range(batch)]
    except Exception:   # noqa  reported by the round trip
        return
    nonces = [nonce_field(o, n, m) for o in outs]
    if len(set(nonces)) != len(nonces):
        fail(res, "nonce-reused", "two encrypt calls of one instance used the same nonce", case)
    elif len(set(outs)) != len(outs) or (text and len(set(o[:len(o) - (n + m + 4)] for o in outs)) != len(outs)):
        fail(res, "equal-plaintexts-equal-ciphertexts", "two encryptions of the same text gave the same ciphertext",
             case)
    # scripted source: the nonce field is the draw
    for i in range(3):
        d = fixed_draw(n, i + 1)
        with scripted_rng(d) as log:
            try:
                o = bytes(c.encrypt(s))
            except Exception:   # noqa
                return
        if not log:
            continue
        if nonce_field(o, n, m) not in [b for (_, b) in log]:
            fail(res, "nonce-field-is-not-the-draw", "the nonce field of the message is not what get_random_bytes "
                 "returned in that call", dict(kind="nonce-draw", key=key, nonce_length=n, mac_length=m, text=text,
                                               draw=list(d)), dict(nonce_field=list(nonce_field(o, n, m) or b"")))


def seq_text(i):
    return [ord(ch) for ch in "m%d" % i] + [120] * (i % 5)


def check_sequence(res, key, n, m, count, record=True):
    """ONE long-lived instance encrypts `count` messages: each must round-trip, reach min_length, end in the marker,
    and no nonce may repeat.  -> index of the first bad message or None"""
    c = construct(key, n, m)
    seen = set()
    held = []          # (index, the object encrypt returned, a copy of its bytes at that moment, the text)
    for i in range(count):
        text = seq_text(i)
        before = len(res.failures)
        case = dict(kind="sequence", key=key, nonce_length=n, mac_length=m, count=i + 1, text=text)
        out = check_roundtrip(res, c, key, n, m, text)
        if len(res.failures) > before:
            for f in res.failures[before:]:
                f["case"] = case
                f["what"] = "message %d of one instance: %s" % (i + 1, f["what"])
                f["signature"] = "sequence-" + f["signature"]
            return i
        nf = nonce_field(out, n, m)
        if nf in seen:
            fail(res, "sequence-nonce-reused", "message %d of one instance reuses the nonce of an earlier message" % (i + 1), case)
            return i
        seen.add(nf)
        if i < 12:
            try:
                raw = c.encrypt(text_of(text))          # kept as returned (not copied) while later messages are encrypted
                held.append((i, raw, bytes(raw), text))
            except Exception:   # noqa  reported by the round trip above
                pass
        for (j, raw, snap, t0) in held:
            if bytes(raw) != snap:
                fail(res, "sequence-earlier-ciphertext-changed",
                     "the object returned by encrypt() for message %d changed when message %d was encrypted (outputs "
                     "share a buffer): an encrypted message held by the caller no longer decrypts to its text" % (j + 1, i + 1),
                     dict(kind="sequence", key=key, nonce_length=n, mac_length=m, count=i + 1, text=text))
                return i
    return None


def fsize(f):
    c = f["case"]
    t = c.get("text", [])
    key = c.get("key", [])
    return (len(t) if t else 1.5, sum(1 for x in t if x > 127), c.get("nonce_length", 0), c.get("mac_length", 0),
            len(key), len(set(key)))


def run_oracle(ctx, res):
    rng = ctx.rng
    q = ctx.quick
    grid = configs_grid()
    inst = {}
    n_rt = n_flip = n_tamper = 0
    tamper_every = 16 if q else 40
    kinds = ["ascii", "multi"]
    for i, (k, n, m) in enumerate(grid):
        key = gen_key(rng, k) if i % 2 else [107] * k
        c = construct(key, n, m)
        inst[(k, n, m)] = (key, c)
        # text lengths: quick: a rotating window of 0..64 so that all lengths x kinds are covered across the grid;
        # thorough: every length 0..64, both kinds, on every configuration
        if q:
            Ls = [(i * 7 + j * 11) % 65 for j in range(6)] + [rng.randint(65, 400)]
        else:
            Ls = list(range(65)) + [rng.randint(65, 3000), rng.randint(65, 300)]
        for j, L in enumerate(Ls):
            for tk in (kinds if not q else [kinds[(i + j) % 2]]):
                text = gen_text(rng, L, tk)
                res.note_case(("or", k, n, m, tuple(text)), nontrivial_text(n, m, text))
                res.count("oracle_len_%s" % ("0" if L == 0 else "1-15" if L < 16 else "16-64" if L <= 64 else ">64"))
                n_rt += 1
                out = check_roundtrip(res, c, key, n, m, text)
                if out is not None and (i * 131 + j) % tamper_every == 0 and L <= 64:
                    n_flip += check_tamper(res, c, key, n, m, text, out)
                    n_tamper += 1
    # all lengths 0..64 x both kinds on the default configuration and the extremes (quick tier too)
    for (k, n, m) in [(16, 16, 16), (32, 8, 4), (24, 32, 16)]:
        key, c = inst[(k, n, m)]
        for L in range(65):
            for tk in kinds:
                text = gen_text(rng, L, tk)
                res.note_case(("or", k, n, m, tuple(text)), nontrivial_text(n, m, text))
                n_rt += 1
                check_roundtrip(res, c, key, n, m, text)
    # texts with U+0000: inner / leading ones must survive; trailing ones are the known finding
    for (k, n, m) in [(16, 16, 16), (32, 12, 16), (24, 8, 16)] + ([] if q else [(16, 16, 8), (32, 32, 4)]):
        key, c = inst[(k, n, m)]
        for L in list(range(1, 20)) + [31, 32, 33, 64]:
            for tk in ("nul", "trail"):
                text = gen_text(rng, L, tk)
                res.note_case(("or", k, n, m, tuple(text)), True)
                res.count("oracle_text_%s" % tk)
                n_rt += 1
                check_roundtrip(res, c, key, n, m, text)
    # the application re-seeds Python's global `random` (reproducible simulations do): nonces must not follow it
    import random as _random
    for (k, n, m) in [(16, 16, 16), (24, 8, 4), (32, 12, 8)]:
        key, c = inst[(k, n, m)]
        outs = []
        for _ in range(3):
            _random.seed(1234)
            outs.append(bytes(c.encrypt(text_of([104, 105]))))
        res.note_case(("reseed", k, n, m), True)
        nn = [nonce_field(o, n, m) for o in outs]
        if len(set(nn)) != len(nn):
            fail(res, "nonce-repeats-after-random-seed", "three encryptions, each after random.seed(1234), used the nonces %s"
                 % [x.hex() if x else None for x in nn], dict(kind="reseed", key=key, nonce_length=n, mac_length=m, text=[104, 105]))
    # nonce freshness
    n_nonce = 0
    for i, (k, n, m) in enumerate(grid):
        if i % (25 if q else 5) == 0 or (n == 8 and m in (4, 16)):
            key, _ = inst[(k, n, m)]
            try:
                check_nonces(res, key, n, m, gen_text(rng, rng.choice([0, 1, 16, 40]), "ascii"), 64 if q else 256)
            except CannotObserve as e:
                res.errors.append("cannot observe the implementation: %s" % e)
                break
            n_nonce += 1
    # long-lived instances: every nonce length, one instance, many messages
    n_seq = 0
    per = 160 if q else 700
    for n in range(8, 33):
        k = (16, 24, 32)[n % 3]
        m = 4 + (n * 5) % 13
        key = gen_key(rng, k)
        res.note_case(("seq", k, n, m), True)
        check_sequence(res, key, n, m, per)
        n_seq += per
    res.extra["oracle_messages_on_long_lived_instances"] = n_seq
    res.extra["oracle_roundtrips"] = n_rt
    res.extra["oracle_tampered_messages"] = n_tamper
    res.extra["oracle_single_bit_flips"] = n_flip
    res.extra["oracle_nonce_batches"] = n_nonce
    # what the code does for the empty text (not part of the property: "every non-empty message")
    key, c = inst[(16, 16, 16)]
    res.extra["empty_text_encrypts_to_bytes"] = len(c.encrypt(""))
    res.extra["min_length_default"] = c.min_length()


# ------------------------------------------------------------------ one crypto object, two threads
def two_users_case(key, n, m, a_kind, b_kind, k):
    """The outgoing thread encrypts and the incoming thread decrypts with ONE crypto object (tcp.py shares it).
    User A performs a_kind ('enc' / 'dec'); when A is at line k inside aes.py user B performs b_kind to completion
    (or blocks, if the object serialises its users).  Both results must be what they are alone, and two encryptions
    never share a nonce.  Returns (failure text | None, whether line k was reached)."""
    import interleave as IL
    c = construct(key, n, m)
    ta, tb = "message of user A \u00e9", "B's longer message, two blocks long........"
    peer = construct(key, n, m)
    wire_a, wire_b = bytes(peer.encrypt(ta)), bytes(peer.encrypt(tb))
    fa = (lambda: bytes(c.encrypt(ta))) if a_kind == "enc" else (lambda: c.decrypt(wire_a))
    fb = (lambda: bytes(c.encrypt(tb))) if b_kind == "enc" else (lambda: c.decrypt(wire_b))
    r = IL.second_caller(fa, fb, ("aes.py",), k)
    if not r["reached"]:
        return None, False
    probs = []
    for who, kind, text, val, exc in (("A", a_kind, ta, r["a"], r["a_exc"]), ("B", b_kind, tb, r["b"], r["b_exc"])):
        if exc is not None:
            probs.append("%s's %s raised %s: %s" % (who, "encrypt" if kind == "enc" else "decrypt of an authentic message", type(exc).__name__, exc))
        elif kind == "dec" and val != text:
            probs.append("%s's decrypt returned %r for %r" % (who, val, text))
        elif kind == "enc":
            try:
                back = peer.decrypt(val)
            except Exception as ex:      # noqa
                back = "<%s: %s>" % (type(ex).__name__, ex)
            if back != text:
                probs.append("%s's encrypt output decrypts to %r, not to %r" % (who, back, text))
    nonces = [nonce_field(v, n, m) for kind, v in ((a_kind, r["a"]), (b_kind, r["b"])) if kind == "enc" and isinstance(v, bytes)]
    nonces += [nonce_field(w, n, m) for kind, w in ((a_kind, wire_a), (b_kind, wire_b)) if kind == "dec"]
    if len(set(nonces)) != len(nonces):
        probs.append("a nonce was used twice under one key: %s" % [x.hex() for x in nonces])
    return ("; ".join(probs) if probs else None), True


def two_users_half(res):
    n_cases = 0
    for (k, n, m) in [(16, 16, 16), (24, 8, 4), (32, 12, 8)]:
        key = [97 + (i % 20) for i in range(k)]
        for a_kind, b_kind in (("enc", "enc"), ("enc", "dec"), ("dec", "enc"), ("dec", "dec")):
            for line in range(1, 40):
                bad, reached = two_users_case(key, n, m, a_kind, b_kind, line)
                if not reached:
                    break
                n_cases += 1
                if bad:
                    fail(res, "two-users-of-one-crypto-object", "one BoboDistributedCryptoAES used by two threads, second user "
                         "(%s) running when the first (%s) is at line %d of aes.py: %s" % (b_kind, a_kind, line, bad),
                         dict(kind="two-users", key=key, nonce_length=n, mac_length=m, a=a_kind, b=b_kind, line=line))
                    break
            res.note_case(("two-users", k, n, m, a_kind, b_kind), True)
    res.extra["two_user_interleavings"] = n_cases


# ------------------------------------------------------------------ entry points
def run(ctx, res):
    common.impl_modules_fresh()
    cases = build_corr_cases(ctx)
    coq_cases, kept = [], []
    for case in cases:
        try:
            exp = run_impl(case)
        except CannotObserve as e:
            res.errors.append("cannot observe the implementation: %s (case %s)" % (e, public_case(case)))
            break
        except Exception as e:   # noqa  the implementation raised something that is not a ValueError
            case.setdefault("out", [])
            exp = [-9]
            res.count("implementation_raised_%s" % type(e).__name__)
        res.count("corr_%s" % KIND_NAME[case["kind"]])
        if exp is None:
            if case["kind"] == K_SLICES and len(case["msg"]) < case["n"] + case["m"] + 4:
                res.count("slices_short_message_not_handed_to_cipher")
                continue
            res.errors.append("decrypt did not hand its slices to Crypto.Cipher.AES.new: %s" % public_case(case))
            continue
        res.note_case(("corr", case_term(case)), case_nontrivial(case))
        coq_cases.append((case_term(case), exp))
        kept.append((case, exp))
    res.samples = [dict(case=public_case(c), implementation=e) for c, e in (kept[1:2] + kept[12:13] + kept[-400:-399])]
    # parsing the terms dominates: many small files, two waves on the available cores
    shard = max(40, -(-len(coq_cases) // (2 * common.NPROC)))
    mism, errs = common.coq_run_cases("C17", "Model.Crypto", "run_C17", "(Z * case_input)", coq_cases, shard=shard)
    res.errors += errs
    res.traces_validated = len(coq_cases) - len(mism)
    mism.sort(key=lambda im: len(coq_cases[im[0]][0]))
    for idx, model_out in mism[:20]:
        case, exp = kept[idx]
        res.mismatches.append(dict(case=public_case(case), impl=exp, model=model_out))
        # a disagreement that is itself a property failure is found by the oracle below; nothing to do here
    run_oracle(ctx, res)
    two_users_half(res)
    res.failures.sort(key=fsize)


def replay(obj):
    common.impl_modules_fresh()
    case = obj.get("case") or {}
    kind = case.get("kind")
    if kind == "sequence":
        key, n, m = case["key"], case["nonce_length"], case["mac_length"]
        print("one BoboDistributedCryptoAES(%r, nonce_length=%d, mac_length=%d) encrypts %d messages"
              % (text_of(key), n, m, case["count"]))
        res = common.Result()
        bad = check_sequence(res, key, n, m, case["count"])
        for f in res.failures:
            print("implementation:", f["what"])
        print("every message of the sequence round-trips with a fresh nonce" if bad is None else
              "message %d is not decryptable / well-formed / fresh" % (bad + 1))
        return 1 if bad is not None else 0
    if kind == "reseed":
        import random as _random
        c = construct(case["key"], case["nonce_length"], case["mac_length"])
        nn = []
        for _ in range(3):
            _random.seed(1234)
            nn.append(nonce_field(bytes(c.encrypt("hi")), case["nonce_length"], case["mac_length"]))
        print("nonces of three encryptions, each after random.seed(1234):", [x.hex() for x in nn])
        return 1 if len(set(nn)) != 3 else 0
    if kind == "two-users":
        bad, _ = two_users_case(case["key"], case["nonce_length"], case["mac_length"], case["a"], case["b"], case["line"])
        print("one crypto object, two threads (%s interrupted at line %d by %s):" % (case["a"], case["line"], case["b"]),
              bad or "both results are what they are alone; nonces distinct")
        return 1 if bad else 0
    if kind not in ("roundtrip", "tamper", "nonce-batch", "nonce-draw"):
        print(obj)
        return 0
    key, n, m, text = case["key"], case["nonce_length"], case["mac_length"], case["text"]
    print("BoboDistributedCryptoAES(%r, nonce_length=%d, mac_length=%d), text=%r"
          % (text_of(key), n, m, text_of(text)))
    res = common.Result()
    c = construct(key, n, m)
    if kind == "roundtrip":
        out = check_roundtrip(res, c, key, n, m, text)
        try:
            print("implementation: encrypt -> %d bytes; decrypt ->" % len(c.encrypt(text_of(text))), end=" ")
            print(repr(c.decrypt(c.encrypt(text_of(text)))))
        except Exception as e:   # noqa
            print("raises %s: %s" % (type(e).__name__, e))
        d = list(fixed_draw(n, 1))
        model, _ = common.coq_eval("C17", "Model.Crypto", "run_C17 %s" % term(K_TOY, key, (n, m), d, text))
        if model and SEP in model:
            dec = model[model.index(SEP) + 1:]
            print("model (fixed code, any cipher satisfying gcm_laws): decrypt ->",
                  repr(text_of(dec[1:])) if dec[0] == 1 else "raises ValueError")
        else:
            print("model:", model)
        if out is not None:
            print("round trip holds")
    elif kind == "tamper":
        t = bytearray(case["message"])
        t[case["byte"]] ^= 1 << case["bit"]
        try:
            r = c.decrypt(bytes(t))
            print("implementation: decrypt of the message with byte %d bit %d flipped -> %r (accepted)"
                  % (case["byte"], case["bit"], r))
            fail(res, "tampered", "", case)
        except Exception as e:   # noqa
            print("implementation: rejected with %s: %s" % (type(e).__name__, e))
    else:
        check_nonces(res, key, n, m, text, case.get("batch", 64))
        print("nonce check:", "fails" if res.failures else "holds")
    for f in res.failures:
        print("FAILS [%s] %s" % (f["signature"], f["what"]))
    return 1 if res.failures else 0
