"""In-process cluster of REAL engines + REAL BoboDistributedTCP instances wired through fakes (C06, C07),
and the yield-point machinery that gives deterministic, single-threaded control over the interleavings
inside one iteration of `_tcp_outgoing` (DESIGN.md 2.3).

Yield points.  Every BoboDeviceManager in `dist._devices` is replaced (after construction) by a delegating
proxy whose individually locked accessors call a hook BEFORE the access is performed; `dist._queue_outgoing`
is wrapped likewise for `empty()`.  An IterTracker turns the raw accesses of one iteration into the points of
coq/Model/Replication.v (k = index of the destination among the other devices, in the loop's order):

   ("lc", k)    first read of d.last_comms            ("la", k)   first read of d.last_attempt
   ("qe", k)    Queue.empty() right after ("la", k)   -- exists only in the pinned order (per-peer read)
   ("prep", k)  read of d.flag_reset in the send loop ("send", k) first read of d.addr after it (in _tcp_send)
   ("wlc", k)   d.last_comms = now                    ("wla", k)  d.last_attempt = now

At a point the scenario may run another thread's atomic action on the calling thread: an enqueue
(`on_decider_update` via the real decider), a whole incoming client incl. RESET -> clear_last, `_update()`,
or an outgoing iteration of ANOTHER instance (whose sendall delivers into this instance's real
`_tcp_incoming_handle_client`).  Hooks are ignored while an injected action runs.

Net: 2..3 instances.  The fake socket layer routes the bytes an instance hands to sendall to the destination
instance's real `_tcp_incoming_handle_client` (scripted read sizes), honouring a per-link state
up / down / fail (the bytes are delivered, then sendall raises); one scripted integer clock is shared by all
instances; each outgoing loop runs exactly one iteration at a time (budgeted `_thread_closed`, as in
out_driver.py); `_update()` (main thread) is called explicitly.

Private names of tcp.py touched: _thread_closed, _running, _devices, _queue_outgoing, _queue_incoming,
_subscribers, _tcp_outgoing, _tcp_incoming_handle_client, _update (DESIGN.md 4c)."""
import json
import logging

import out_driver as od
import sim_engine as SE

SYNC, PING, RESYNC = od.SYNC, od.PING, od.RESYNC
MODE_NAME = {0: "SYNC", 1: "PING", 2: "RESYNC"}
POINTS = ("lc", "la", "qe", "prep", "send", "wlc", "wla")

_GET = ("addr", "flag_reset", "last_comms", "last_attempt")
_CALL = ("clear_last", "stash", "append_stash", "size_stash", "clear_stash")


# ------------------------------------------------------------------------------------------ proxies
class DevProxy:
    """delegating wrapper around one BoboDeviceManager; every individually locked accessor is a yield point"""

    def __init__(self, real, hook):
        object.__setattr__(self, "_real", real)
        object.__setattr__(self, "_hook", hook)

    def __getattr__(self, name):
        real = object.__getattribute__(self, "_real")
        if name in _GET:
            object.__getattribute__(self, "_hook")(real, name, "get")
            return getattr(real, name)
        if name in _CALL:
            hook = object.__getattribute__(self, "_hook")

            def call(*a, **k):
                hook(real, name, "call")
                return getattr(real, name)(*a, **k)
            return call
        return getattr(real, name)

    def __setattr__(self, name, value):
        real = object.__getattribute__(self, "_real")
        if name in _GET:
            object.__getattribute__(self, "_hook")(real, name, "set")
        setattr(real, name, value)


class QueueProxy:
    """wrapper around dist._queue_outgoing: empty() is a yield point"""

    def __init__(self, real, hook):
        self._real, self._hook = real, hook

    def empty(self):
        self._hook(None, "queue.empty", "call")
        return self._real.empty()

    def __getattr__(self, name):
        return getattr(self._real, name)


class IterTracker:
    """raw accesses of ONE iteration of _tcp_outgoing -> points"""

    def __init__(self, index_of_urn):
        self.index_of = index_of_urn
        self.seen = {}
        self.after_la = None
        self.trace = []

    def point(self, real, name, kind):
        if real is None:                       # Queue.empty()
            k, self.after_la = self.after_la, None
            if k is not None and "qe" not in self.seen[k] and "prep" not in self.seen[k]:
                return self._mark(k, "qe")
            return None
        self.after_la = None
        k = self.index_of.get(real.urn)
        if k is None:
            return None
        seen = self.seen.setdefault(k, set())
        if kind == "get" and name == "last_comms" and "lc" not in seen:
            return self._mark(k, "lc")
        if kind == "get" and name == "last_attempt" and "la" not in seen:
            self.after_la = k
            return self._mark(k, "la")
        if kind == "get" and name == "flag_reset" and "prep" not in seen:
            return self._mark(k, "prep")
        if kind == "get" and name == "addr" and "prep" in seen and "send" not in seen:
            return self._mark(k, "send")
        if kind == "set" and name == "last_comms" and "wlc" not in seen:
            return self._mark(k, "wlc")
        if kind == "set" and name == "last_attempt" and "wla" not in seen:
            return self._mark(k, "wla")
        return None

    def _mark(self, k, what):
        self.seen.setdefault(k, set()).add(what)
        self.trace.append((what, k))
        return (what, k)


class Yielder:
    """the hook shared by the proxies of one instance"""

    def __init__(self):
        self.tracker = None
        self.table = {}          # point -> callable
        self.busy = False
        self.fired = []
        self.after = None        # callable(point): called when the actions injected at the point are done, i.e.
                                 # immediately before the access itself is performed

    def __call__(self, real, name, kind):
        if self.tracker is None or self.busy:
            return
        pt = self.tracker.point(real, name, kind)
        if pt is None:
            return
        f = self.table.get(pt)
        if f is not None:
            self.busy = True
            try:
                self.fired.append(pt)
                f()
            finally:
                self.busy = False
        if self.after is not None:
            self.after(pt)


def install_proxies(dist, self_urn):
    """wrap the device managers and the outgoing queue of a BoboDistributedTCP; -> (Yielder, urn -> peer index)"""
    y = Yielder()
    index_of, k = {}, 0
    for urn in list(dist._devices.keys()):
        real = dist._devices[urn]
        if isinstance(real, DevProxy):
            real = object.__getattribute__(real, "_real")
        dist._devices[urn] = DevProxy(real, y)
        if urn != self_urn:
            index_of[urn] = k
            k += 1
    q = dist._queue_outgoing
    if isinstance(q, QueueProxy):
        q = q._real
    dist._queue_outgoing = QueueProxy(q, y)
    return y, index_of


def stepped_class(tcpmod):
    """BoboDistributedTCP whose loops run exactly `_budget` iterations when called directly"""
    class Stepped(tcpmod.BoboDistributedTCP):
        _budget = 0
        _closed_mark = False

        @property
        def _thread_closed(self):
            if self._budget > 0:
                self._budget -= 1
                return False
            return True

        @_thread_closed.setter
        def _thread_closed(self, v):
            self._closed_mark = v
    return Stepped


# ------------------------------------------------------------------------------------------ one instance, stub decider
class YieldDriver(od.OutDriver):
    """out_driver.OutDriver + yield points: `iterate(..., table=...)` runs one iteration of the real loop and
    executes the injected actions at the named points.
    table: list of [point name, peer index, [inj, ...]], inj = ["enq", note] | ["in", from, type, flags]"""

    def __init__(self, n_peers, periods, flag_reset=True):
        super().__init__(n_peers, periods, flag_reset)
        self.yielder, self.index_of = install_proxies(self.dist, od.SELF_URN)
        self.last_trace = []
        self.inner_log = []

    def _do(self, x):
        if x[0] == "enq":
            self.enqueue(x[1])
        elif x[0] == "in":
            saved = self.sock.log            # deliver() leaves the socket log alone, but keep it safe
            self.deliver(x[1], x[2], x[3])
            self.sock.log = saved
        else:
            raise ValueError(x)

    def iterate(self, now, snap, sends, n=1, table=()):
        tab = {}
        for name, k, xs in table:
            tab.setdefault((name, k), []).extend(xs)
        self.yielder.table = {pt: (lambda xs=xs: [self._do(x) for x in xs]) for pt, xs in tab.items()}
        self.yielder.tracker = IterTracker(self.index_of)
        self.yielder.fired = []
        try:
            return super().iterate(now, snap, sends, n)
        finally:
            self.last_trace = self.yielder.tracker.trace
            self.yielder.tracker = None
            self.yielder.table = {}

    def probe_order(self):
        """True iff the code takes the queue item before it looks at any peer (the repaired order of D9)."""
        self.reset([dict(lc=1000, la=1000, fr=False, st=[[], [], []]) for _ in range(self.n_peers)], [[[], [], [1]]])
        seen = []
        self.yielder.table = {("lc", 0): lambda: seen.append(self.queue_len())}
        self.yielder.tracker = IterTracker(self.index_of)
        try:
            od.OutDriver.iterate(self, 1001, [[], [], []], [(0, 1001)] * self.n_peers)
        finally:
            self.yielder.tracker = None
            self.yielder.table = {}
        self.clear_queue()
        return seen == [0]


# ------------------------------------------------------------------------------------------ the cluster
class _Client:
    """accepted client socket: hands out the message in reads of scripted sizes (the final read is kept at
    least 64 bytes long, so that the end-of-message test of the receiver is not what is being examined)"""

    def __init__(self, data, sizes, clock, cap=2048):
        self.clock = clock
        data = bytes(data)
        chunks, pos, k = [], 0, 0
        sizes = list(sizes or [])
        while pos < len(data):
            want = sizes[k] if k < len(sizes) else cap
            k += 1
            size = max(1, min(cap, want, len(data) - pos))
            chunks.append(data[pos:pos + size])
            pos += size
        while len(chunks) > 1 and len(chunks[-1]) < 64:
            last = chunks.pop()
            prev = chunks.pop()
            joined = prev + last
            if len(joined) <= cap:
                chunks.append(joined)
            else:
                chunks += [joined[:-64], joined[-64:]]
        self.chunks = chunks

    def settimeout(self, _t):
        pass

    def recv(self, _n):
        if not self.chunks:
            self.clock.cur += 10 ** 6          # nothing more will come: let the receive timeout fire
            return b""
        return self.chunks.pop(0)

    def close(self):
        pass

    def __getattr__(self, name):
        if name.startswith("__"):
            raise AttributeError(name)
        return lambda *a, **k: None


class _NetSocket:
    def __init__(self, net, src):
        self.net, self.src, self.dst = net, src, None

    def settimeout(self, _t):
        pass

    def connect(self, dest):
        self.dst = self.net.port_index[dest[1]]
        self.dest_addr = dest[0]
        st = self.net.link.get((self.src, self.dst), "up")
        if st == "down":
            self.net.wire.append(dict(kind="refused", src=self.src, dst=self.dst, t=self.net.clock.cur))
            raise OSError("link down")
        if st == "slow":         # a black-holed peer: the connect attempt times out (the sender's outcome is "timeout")
            self.net.wire.append(dict(kind="refused", src=self.src, dst=self.dst, t=self.net.clock.cur))
            raise TimeoutError("timed out")

    def sendall(self, data):
        st = self.net.link.get((self.src, self.dst), "up")
        self.net._deliver(self.src, self.dst, bytes(data), sender_ok=(st != "fail"))
        if st == "fail":
            raise OSError("scripted failure after delivery")

    def send(self, data):
        """a real socket's send() may take only part of the data: at most 512 bytes per call here"""
        part = bytes(data[:512])
        self.sendall(part)
        return len(part)

    def close(self):
        pass

    def __enter__(self):
        return self

    def __exit__(self, *a):
        return False

    def __getattr__(self, name):
        if name.startswith("__"):
            raise AttributeError(name)
        return lambda *a, **k: None


class _NetSocketModule:
    AF_INET, SOCK_STREAM, SOL_SOCKET, SO_REUSEADDR, SHUT_RDWR = 2, 1, 1, 2, 2
    timeout = TimeoutError
    error = OSError

    def __init__(self, net):
        self.net = net

    def socket(self, *a, **k):
        return _NetSocket(self.net, self.net.src_stack[-1])

    def create_connection(self, dest, *a, **k):
        s = self.socket()
        s.connect(dest)
        return s


def rec_key(r):
    return (r.run_id, r.block_index, r.history.size())


def note_key(c, h, u):
    return (tuple(rec_key(r) for r in c), tuple(rec_key(r) for r in h), tuple(rec_key(r) for r in u))


class Node:
    pass


class Net:
    """n real engines + real BoboDistributedTCP.  ed: engine description of sim_engine (cfg.idbase is the id
    base of instance 0; instance k draws run ids from idbase*(k+1) + 400*generation)."""

    def __init__(self, ed, n, periods=(30, 60, 5, 5, 10), t0=1000, recv_sizes=None):
        import bobocep.dist.tcp as tcpmod
        self.tcpmod = tcpmod
        self.Stepped = stepped_class(tcpmod)
        self.ed, self.n, self.periods = ed, n, tuple(periods)
        self.clock = od.FakeClock()
        self.clock.cur = t0
        self.sockmod = _NetSocketModule(self)
        self.recv_sizes = recv_sizes
        self.urns = ["n%d" % k for k in range(n)]
        self.ports = [9100 + k for k in range(n)]
        self.port_index = {p: k for k, p in enumerate(self.ports)}
        self.addrs = ["10.0.1.%d" % (k + 1) for k in range(n)]
        self.link = {}
        self.wire = []
        self.src_stack = []
        self.events = []          # (what, ...) chronological trace used by the oracles
        self.nodes = [self._make(k, 0) for k in range(n)]

    # ---- construction
    def _make(self, k, gen):
        from bobocep.dist.device import BoboDevice
        from bobocep.dist.crypto.aes import BoboDistributedCryptoAES
        from bobocep.cep.engine.decider.pubsub import BoboDeciderSubscriber
        nd = Node()
        nd.k, nd.gen = k, gen
        edk = dict(self.ed)
        edk["cfg"] = dict(self.ed["cfg"], idbase=self.ed["cfg"]["idbase"] * (k + 1) + 400 * gen)
        nd.engine, nd.handler, nd.log = SE.make_engine(edk)
        devs = [BoboDevice(addr=self.addrs[j], port=self.ports[j], urn=self.urns[j], id_key="key%d" % j)
                for j in range(self.n)]
        nd.crypto = BoboDistributedCryptoAES(od.AES_KEY)
        pp, pr, ast, ap, ar = self.periods
        nd.dist = self.Stepped(urn=self.urns[k], decider=nd.engine.decider, devices=devs, crypto=nd.crypto,
                               period_ping=pp, period_resync=pr, attempt_stash=ast, attempt_ping=ap,
                               attempt_resync=ar, flag_reset=True)
        nd.dist._running = True
        nd.emitted = []            # note keys, in the order the decider announced them (local=True)
        nd.snap_seen = 0
        nd.iter_now = None
        nd.applied = []            # (completed, halted, updated) handed to the decider by _update, with result
        net = self

        class Spy(BoboDeciderSubscriber):
            def on_decider_update(self, completed, halted, updated, local):
                if local:
                    nd.emitted.append(note_key(completed, halted, updated))
                    net.events.append(("emit", k, len(nd.emitted) - 1))
        nd.engine.decider.subscribe(Spy())
        nd.engine.decider.subscribe(nd.dist)
        nd.dist.subscribe(_CheckedDecider(self, nd))
        dec = nd.engine.decider
        real_snapshot = dec.snapshot
        nd.real_snapshot = real_snapshot

        def snapshot():
            nd.snap_seen = len(nd.emitted)
            return real_snapshot()
        dec.snapshot = snapshot
        nd.yielder, nd.index_of = install_proxies(nd.dist, self.urns[k])
        nd.peer_of_index = {v: self.urns.index(u) for u, v in nd.index_of.items()}
        nd.index_of_peer = {v: i for i, v in nd.peer_of_index.items()}
        return nd

    class _Patched:
        def __init__(self, net):
            self.net = net

        def __enter__(self):
            m = self.net.tcpmod
            self.old = (m.socket, m.time, logging.root.manager.disable)
            m.socket, m.time = self.net.sockmod, self.net.clock
            logging.disable(logging.CRITICAL)

        def __exit__(self, *a):
            m = self.net.tcpmod
            m.socket, m.time = self.old[0], self.old[1]
            logging.disable(self.old[2])
            return False

    # ---- wire
    def decode(self, crypto, data):
        from bobocep.cep.engine.decider.runserial import BoboRunSerial
        text = crypto.decrypt(bytes(data))
        urn, idk, typ, flags, body = text.split(" ", 4)
        d = json.loads(body)

        def recs(key):
            return [rec_key(BoboRunSerial.from_json_str(x)) for x in d.get(key, [])]
        return dict(urn=urn, type=int(typ), flags=int(flags), c=recs("completed"), h=recs("halted"), u=recs("updated"))

    def _deliver(self, src, dst, data, sender_ok=True):
        snd, rcv = self.nodes[src], self.nodes[dst]
        try:
            m = self.decode(snd.crypto, data)
        except Exception:       # noqa  not a whole message (e.g. a sender that hands over only part of it)
            m = dict(type=-1, flags=0, c=[], h=[], u=[])
        rec = dict(kind="msg" if m["type"] >= 0 else "partial", src=src, dst=dst, t=self.clock.cur, type=m["type"], flags=m["flags"],
                   c=m["c"], h=m["h"], u=m["u"], seen=snd.snap_seen if m["type"] == RESYNC else len(snd.emitted),
                   dec_t=snd.iter_now, src_gen=snd.gen, dst_gen=rcv.gen, err=None, sender_ok=sender_ok)
        self.wire.append(rec)
        self.events.append(("wire", len(self.wire) - 1))
        saved = self.clock.cur
        try:
            with self._Patched(self):
                rcv.dist._tcp_incoming_handle_client(_Client(data, self.recv_sizes, self.clock), self.addrs[src],
                                                     self.clock.cur)
        except Exception as e:       # the real listener logs and carries on
            rec["err"] = e.__class__.__name__
        finally:
            self.clock.cur = saved

    # ---- actions
    def settle(self, k, cap=80):
        nd = self.nodes[k]
        it = 0
        while sum(SE.sizes(nd.engine, nd.handler)) > 0 and it < cap:
            nd.engine.update()
            it += 1

    def input(self, k, d):
        self.nodes[k].engine.receiver.add_data(d)
        self.settle(k)

    def main_update(self, k):
        """one pass of node k's run() loop body.  An exception out of _update() ends the real run() thread: from then
        on nothing that arrives at k is dispatched any more (recorded in self.main_errors)."""
        if not hasattr(self, "main_errors"):
            self.main_errors = {}
        nd = self.nodes[k]
        if (k, id(nd)) in self.main_errors:
            return
        try:
            nd.dist._update()
        except Exception as ex:      # noqa
            self.main_errors[(k, id(nd))] = "%s: %s" % (type(ex).__name__, ex)
            return
        self.settle(k)

    def out_iter(self, k, table=None):
        """one iteration of node k's real _tcp_outgoing; table: {(point, destination node): callable}"""
        nd = self.nodes[k]
        if not hasattr(self, "out_errors"):
            self.out_errors = {}
        if (k, id(nd)) in self.out_errors:
            return          # the real outgoing thread ended when the exception escaped: nothing is sent any more
        tab = {}
        for (name, dst), f in (table or {}).items():
            if dst in nd.index_of_peer:
                tab[(name, nd.index_of_peer[dst])] = f
        nd.yielder.table = tab
        nd.yielder.tracker = IterTracker(nd.index_of)
        nd.yielder.fired = []
        nd.iter_now = self.clock.cur
        self.events.append(("iter-begin", k))
        raw = nd.yielder.tracker
        hook_events = self.events
        # ("point", k, name, destination) is logged when the access is performed: whatever was injected at the point
        # precedes it in the trace
        nd.yielder.after = lambda pt: hook_events.append(("point", k, pt[0], nd.peer_of_index[pt[1]]))
        self.src_stack.append(k)
        try:
            with self._Patched(self):
                nd.dist._budget = 1
                nd.dist._tcp_outgoing()
        except (OSError, ValueError, TypeError, KeyError, AttributeError, RuntimeError) as ex:
            # (harness conditions such as the iteration budget are not among these)
            self.out_errors[(k, id(nd))] = "%s: %s" % (type(ex).__name__, ex)
        finally:
            self.src_stack.pop()
            nd.last_trace = [(w, nd.peer_of_index[i]) for w, i in raw.trace]
            nd.yielder.tracker = None
            nd.yielder.table = {}
            nd.yielder.after = None
            self.events.append(("iter-end", k))

    def set_link(self, i, j, state):
        self.link[(i, j)] = state

    def heal(self):
        self.link = {}

    def advance(self, s):
        self.clock.cur += s

    def restart(self, k):
        """instance k loses all its state and comes back (new engine, new BoboDistributedTCP, flag_reset=True)"""
        old = self.nodes[k]
        self.nodes[k] = self._make(k, old.gen + 1)
        self.events.append(("restart", k))

    # ---- observation
    def runs(self, k):
        return sorted((r.run_id, r.block_index) for r in self.nodes[k].engine.decider.all_runs())

    def runs_full(self, k):
        import sim_cluster as SC
        return sorted((r.run_id, r.block_index, SC.hist_content(r.history()))
                      for r in self.nodes[k].engine.decider.all_runs())

    def finished(self, k):
        c, h, _ = self.nodes[k].real_snapshot()
        return sorted(r.run_id for r in c), sorted(r.run_id for r in h)

    def dev(self, k, j):
        return self.nodes[k].dist._devices[self.urns[j]]

    def peer_state(self, k, j):
        d = self.dev(k, j)
        c, h, u = d.stash()
        return dict(lc=d.last_comms, la=d.last_attempt, fr=bool(d.flag_reset),
                    st=[[rec_key(r) for r in c], [rec_key(r) for r in h], [rec_key(r) for r in u]])

    def queue_notes(self, k):
        q = self.nodes[k].dist._queue_outgoing
        q = getattr(q, "_real", q)
        return [note_key(x["completed"], x["halted"], x["updated"]) for x in list(q.queue)]

    def quiet(self):
        return all(not self.queue_notes(k) for k in range(self.n)) and \
            all(sum(len(x) for x in self.peer_state(k, j)["st"]) == 0
                for k in range(self.n) for j in range(self.n) if j != k)


class _CheckedDecider:
    """stands between dist._update() and the decider: records, for every message applied, whether afterwards the
    decider holds every run the message names in a state at least as advanced (the premise of
    snapshot_supersedes_partial / fresh_holds_survivor_runs)."""

    def __init__(self, net, nd):
        self.net, self.nd = net, nd

    def on_distributed_update(self, completed, halted, updated):
        dec = self.nd.engine.decider
        want = dict(c=[r.run_id for r in completed], h=[r.run_id for r in halted], u=[rec_key(r) for r in updated])
        dec.on_distributed_update(completed=completed, halted=halted, updated=updated)
        cc, ch, _ = self.nd.real_snapshot()
        idc, idh = set(r.run_id for r in cc), set(r.run_id for r in ch)
        act = {r.run_id: (r.block_index, r.history().size()) for r in dec.all_runs()}
        bad = []
        for rid in want["c"]:
            if rid not in idc:
                bad.append(("completed-not-remembered", rid))
        for rid in want["h"]:
            if rid not in idc and rid not in idh:
                bad.append(("halted-not-remembered", rid))
        for rid, idx, hs in want["u"]:
            if rid in idc or rid in idh or rid in want["c"] or rid in want["h"]:
                continue
            if rid not in act or act[rid] < (idx, hs):
                bad.append(("update-not-reached", rid, idx, hs, act.get(rid)))
        for rid in act:
            if rid in idc or rid in idh:
                bad.append(("active-and-finished", rid))
        self.nd.applied.append(dict(want=want, bad=bad))
        self.net.events.append(("apply", self.nd.k, len(self.nd.applied) - 1))
