"""C07 A restarted instance recovers every partial run from a survivor."""
import itertools
import json

import common
import out_driver as od
import pC06
import pC15
import sim_cluster as SC
import sim_net as SN
from par import pmap

PROP = "C07"
PROPERTY_FILES = ["Properties/C07.v"]
KNOWN_SIG = "reset-arrives-between-decision-and-bookkeeping"
META = dict(
    level_text="Theorems (Coq, closed under the global context) on the small-step interleaving model of one instance "
               "(Model/Replication.v; pinned and repaired order of _tcp_outgoing alike): C07_restart_sequential - under "
               "every schedule with a real clock in which no RESET of peer j is handled between the outgoing thread's "
               "read of last_comms(j) and its write of last_comms(j) in the same iteration, every message attempted to j "
               "after a handled RESET is a RESYNC (carrying decider.snapshot(): C07_resync_carries_snapshot); a "
               "restarted instance (last_comms 0, flags set) first sends a RESYNC to every peer and flags every message "
               "up to and including the first delivered one (C07_flag_until_first_delivery holds for ANY schedule); "
               "C07_fresh_restores - an empty decider that applies a snapshot holds exactly the runs the snapshot "
               "reports as active, each at least as far; C07_reset_race_refuted - without the premise the announcement "
               "is lost (D10, known finding). PARTIAL: the thread scheduler is modelled by the interleaving semantics. "
               "Tie: the small-step model evaluated in Coq vs the real loop with RESET-flagged messages injected at "
               "every yield point and a restarted instance's first iterations. Oracle: real engines + real "
               "BoboDistributedTCP; one instance replaced by a fresh one at every position of bounded schedules; wire "
               "checks (RESET on the first delivered message, RESYNC as each survivor's answer), recovered runs, "
               "completion; every interleaving of the first message with a survivor's in-progress send.",
    level_note="Trusted: Coq kernel/vm_compute; harness (sim_net.py yield points, fake network, shared scripted clock). "
               "Known finding D10 is classified by its schedule shape only (RESET handled between the survivor's "
               "read and write of last_comms for that peer in one iteration, and the run is then never recovered).",
    rule="crash of each instance at every position of every schedule up to length 3 over {input at 0/1, outgoing "
         "iteration, main update} (2 instances) and of longer fixed schedules (2-3 instances, two phenomena); the restarted "
         "instance's first outgoing iteration injected at every yield point of each survivor's iteration (survivor with "
         "a change to send / a ping due / nothing to send) and vice versa; non-trivial = a survivor held a partial run "
         "at the crash",
    trusted_base=["harness/sim_net.py, out_driver.py, sim_engine.py, sim_cluster.py (history content)"],
    assumptions=["links healthy after the restart (the property's premise); finished-run memory enabled and large",
                 "run ids of the restarted instance differ from those of its previous life (as with BoboGenEventIDUnique)",
                 "each individually locked BoboDeviceManager accessor / Queue operation is atomic; nothing coarser"])

PERIODS = pC06.PERIODS
NOW = pC06.NOW


# ================================================================== correspondence
def corr_cases(ctx):
    rng = ctx.rng
    cases = []
    fresh = dict(lc=0, la=0, fr=True, st=pC06.EMPTY)
    # a restarted instance: first iterations, 1..2 peers, every outcome pattern
    outs = [0, 1, 2, 3, 4]
    for n in (1, 2):
        for o1 in itertools.product(outs, repeat=n):
            for o2 in itertools.product((0, 2), repeat=n):
                acts = [["iter", 5000, pC06.SNAP, [[o, 5000 + i] for i, o in enumerate(o1)], []],
                        ["enq", pC06.QNOTE],
                        ["iter", 5004, pC06.SNAP, [[o, 5004] for o in o2], []],
                        ["iter", 5011, pC06.SNAP, [[0, 5011]] * n, []],
                        ["iter", 5042, pC06.SNAP, [[0, 5042]] * n, []]]
                cases.append(dict(cfg=list(PERIODS), peers=[fresh] * n, queue=[], acts=acts))
    # a survivor: the restarted peer's RESET-flagged message handled at every yield point
    for n in (1, 2):
        for st in itertools.product(range(len(pC06.PEER_STATES)), repeat=n):
            peers = [pC06.shift(pC06.PEER_STATES[s], i) for i, s in enumerate(st)]
            for queue in ([], [pC06.QNOTE]):
                for pt in SN.POINTS:
                    for k in range(n):
                        for f in range(n):
                            for typ in (od.RESYNC, od.PING):
                                for sends in ([[0, NOW + 1]] * n, [[4, NOW + 1]] * n):
                                    tab = [[pt, k, [["in", f, typ, 1]]]]
                                    cases.append(dict(cfg=list(PERIODS), peers=peers, queue=queue,
                                                      acts=[["iter", NOW, pC06.SNAP, sends, tab],
                                                            ["iter", NOW + 1, pC06.SNAP, [[0, NOW + 1]] * n, []],
                                                            ["iter", NOW + 12, pC06.SNAP, [[0, NOW + 12]] * n, []]]))
    if ctx.quick:
        rng.shuffle(cases)
        cases = cases[:2600]
    for _ in range(400 if ctx.quick else 20000):
        cases.append(pC06.random_case(rng))
    return cases


# ================================================================== oracle
def complex_at(net, k):
    return SC.complex_content(net.nodes[k].log)


def d10_shape(net, k, s):
    """a RESET-flagged message of the restarted instance k was handled by survivor s after s's outgoing thread had read
    last_comms(k) for its decision and before the same iteration wrote last_comms(k) (overwriting the cleared value)"""
    ev = net.events
    start = max(i for i, e in enumerate(ev) if e == ("restart", k))
    win = None
    for e in ev[start:]:
        if e == ("iter-begin", s):
            win = "before"
        elif e == ("iter-end", s):
            win = None
        elif e[0] == "point" and e[1] == s and e[3] == k and win is not None:
            if e[2] == "lc":
                win = "open"
            elif e[2] == "wlc":
                if win == "hit":
                    return True
                win = "closed"
        elif e[0] == "wire" and win == "open":
            w = net.wire[e[1]]
            if w["src"] == k and w["dst"] == s and (w["flags"] & 1) and w["err"] is None:
                win = "hit"
    return False


def classify(net, k, missing):
    """signature of a failed recovery of instance k"""
    surv = [s for s in range(net.n) if s != k]
    if any(d10_shape(net, k, s) for s in surv):
        return KNOWN_SIG
    for s in surv:
        for w in net.wire:
            if w["kind"] == "msg" and w["src"] == s and w["dst"] == k and w["dst_gen"] == net.nodes[k].gen \
                    and w["type"] == SN.RESYNC and w.get("src_pending", 0) > 0:
                return "snapshot-taken-before-pending-update-applied"
    return "restart-not-recovered"


def wire_checks(net, k):
    out = []
    gen = net.nodes[k].gen
    for s in range(net.n):
        if s == k:
            continue
        # the restart is announced: every message of k to s up to and including the first delivered one carries RESET
        mine = [w for w in net.wire if w["kind"] == "msg" and w["src"] == k and w["dst"] == s and w["src_gen"] == gen]
        for w in mine:
            if not (w["flags"] & 1):
                out.append(("restart-not-announced", "a message of the restarted instance %d to %d before its first delivered "
                                                     "one lacks the RESET flag" % (k, s)))
            if w["err"] is None and w["sender_ok"]:
                break
        if mine and mine[0]["type"] != SN.RESYNC:
            out.append(("first-message-not-resync", "the first message of the restarted instance %d to %d is %s"
                        % (k, s, SN.MODE_NAME[mine[0]["type"]])))
        # each survivor answers with RESYNC: the first message it DECIDES after it handled the announcement
        # (a send that was already in progress when the announcement arrived is not an answer)
        ev = net.events
        first = None
        for i, e in enumerate(ev):
            if e[0] == "wire":
                w = net.wire[e[1]]
                if w["kind"] == "msg" and w["src"] == k and w["dst"] == s and w["src_gen"] == gen and (w["flags"] & 1) \
                        and w["err"] is None:
                    first = i
                    break
        if first is not None:
            inside = False           # s had already read last_comms(k) for the decision of an iteration still running
            for e in ev[:first]:
                if e == ("iter-begin", s) or e == ("iter-end", s):
                    inside = False
                elif e == ("point", s, "lc", k):
                    inside = True
            answer = None
            for e in ev[first + 1:]:
                if inside:
                    if e == ("iter-end", s):
                        inside = False
                    continue
                if e[0] == "wire":
                    w = net.wire[e[1]]
                    if w["kind"] == "msg" and w["src"] == s and w["dst"] == k:
                        answer = w
                        break
            sig = KNOWN_SIG if d10_shape(net, k, s) else "reset-not-answered"
            if answer is None:
                out.append((sig, "survivor %d sent nothing to the restarted instance %d after its announcement" % (s, k)))
            elif answer["type"] != SN.RESYNC:
                out.append((sig, "survivor %d answered the announcement of %d with %s, not RESYNC"
                            % (s, k, SN.MODE_NAME[answer["type"]])))
    return out


def do(net, a):
    if a[0] == "restart":
        net.restart(a[1])
    elif a[0] == "outinj2":     # ["outinj2", s, point, k]: k's outgoing iteration runs while s's loop is at that point (for k)
        net.out_iter(a[1], {(a[2], a[3]): (lambda: net.out_iter(a[3]))})
    else:
        pC06.do(net, a)


def run_scenario(sc, verbose=False, complete_at=None):
    """sc: dict(pat, n, acts (containing exactly one ["restart", k]), finish=[data fed to the restarted instance])"""
    net = SN.Net(pC06.engine_desc(sc["pat"]), sc["n"], PERIODS, t0=1000)
    real_deliver = net._deliver

    def deliver(src, dst, data, sender_ok=True):
        pend = net.nodes[src].dist.size_incoming()
        real_deliver(src, dst, data, sender_ok)
        net.wire[-1]["src_pending"] = pend
    net._deliver = deliver
    pC06.rounds(net, 2)
    k = None
    held = 0
    for i, a in enumerate(sc["acts"]):
        if a[0] == "restart":
            k = a[1]
            held = max(len(net.runs(s)) for s in range(net.n) if s != k)
        do(net, a)
        if verbose:
            print("  step %d %r -> runs %s" % (i, a, [net.runs(x) for x in range(net.n)]))
    net.heal()                                   # the property's premise: links healthy once the instance is back
    pC06.rounds(net, sc.get("settle", 14))
    fails = []
    surv = [s for s in range(net.n) if s != k]
    if verbose:
        print("  after %d quiet rounds: runs %s" % (sc.get("settle", 14), [net.runs_full(x) for x in range(net.n)]))
        for w in net.wire:
            if w["kind"] == "msg" and (w["src"] == k or w["dst"] == k) and w["t"] >= 1000:
                print("    wire t=%d %d->%d %s flags=%d updated=%s" % (w["t"], w["src"], w["dst"], SN.MODE_NAME[w["type"]],
                                                                       w["flags"], [x[:2] for x in w["u"]]))
    want = net.runs_full(surv[0])
    got = net.runs_full(k)
    missing = [r for r in want if r not in got]
    extra = [r for r in got if r not in want]
    if missing or extra:
        sig = classify(net, k, missing)
        st = net.peer_state(surv[0], k)
        fails.append((sig, "the restarted instance %d holds %s, survivor %d holds %s; survivor's last_comms for it = %d "
                           "(clock %d), its reset flag towards the survivor is %s"
                      % (k, [r[:2] for r in got], surv[0], [r[:2] for r in want], st["lc"], net.clock.cur,
                         "still set" if net.peer_state(k, surv[0])["fr"] else "already cleared")))
    for s in surv[1:]:
        if net.runs_full(s) != want:
            fails.append(("survivors-differ", "survivors hold different partial runs"))
    for (node, _i), err in getattr(net, "main_errors", {}).items():
        fails.insert(0, ("run-loop-died", "instance %d: %s escaped _update() while a well-formed message was dispatched: its run() "
                                          "thread ends and nothing that arrives later is applied" % (node, err)))
    for (node, _i), err in getattr(net, "out_errors", {}).items():
        fails.insert(0, ("outgoing-loop-died", "instance %d: %s escaped the outgoing iteration: its outgoing thread ends and "
                                               "nothing is sent any more" % (node, err)))
    fails += wire_checks(net, k)
    # completion: the completing events go to the restarted instance (or, for the reference, to a survivor)
    target = k if complete_at is None else complete_at
    for d in sc.get("finish", []):
        net.input(target, d)
        pC06.rounds(net, 2)
    done = complex_at(net, surv[0])
    return dict(fails=fails, nontrivial=held > 0, complex=done, runs=[net.runs(x) for x in range(net.n)], k=k, surv=surv)


def work(sc):
    r = run_scenario(sc)
    fails = list(r["fails"])
    if sc.get("finish"):
        ref = run_scenario(sc, complete_at=r["surv"][0])
        if r["complex"] != ref["complex"] and not fails:
            fails.append(("restarted-cannot-complete",
                          "completing events fed to the restarted instance yield complex events %s at survivor %d; fed to "
                          "the survivor they yield %s" % (r["complex"], r["surv"][0], ref["complex"])))
        elif r["complex"] != ref["complex"]:
            fails.append((fails[0][0], "and the restarted instance cannot complete: complex events %s vs %s"
                          % (r["complex"], ref["complex"])))
    return dict(fails=fails[:4], nontrivial=r["nontrivial"])


FINISH = {"abc": [2, 3], "two": [2, 3, 5, 6], "loop": [2, 3], "strict": [2, 3], "mix": [2, 3, 5, 6], "opt4": [4], "loop4": [4], "samename": [2, 3, 5]}
D10_SCENARIO = dict(pat="two", n=2, finish=[2, 3, 5, 6],
                    acts=[["in", 0, 1], ["in", 0, 4], ["out", 0], ["upd", 1], ["restart", 1], ["in", 0, 5],
                          ["outinj2", 0, "send", 1]])


def oracle_scenarios(ctx):
    rng = ctx.rng
    sc = [D10_SCENARIO]
    # every interleaving of the restarted instance's first message with an in-progress send of a survivor
    for n in (2, 3):
        for pre in ([["in", 0, 5]], [["clock", 31]], [], [["in", 0, 5], ["link", 0, 1, "fail"]]):
            for pt in SN.POINTS:
                base = [["in", 0, 1], ["in", 0, 4], ["out", 0], ["out", 0]] + [["upd", x] for x in range(1, n)]
                sc.append(dict(pat="two", n=n, finish=FINISH["two"],
                               acts=base + [["restart", 1]] + pre + [["outinj2", 0, pt, 1]] + [["link", 0, 1, "up"]]))
                # the other way round: the survivor's message arrives while the restarted instance is sending
                sc.append(dict(pat="two", n=n, finish=FINISH["two"],
                               acts=base + [["restart", 1]] + pre + [["outinj2", 1, pt, 0]] + [["link", 0, 1, "up"]]))
    # the restarted instance already holds a run of its own (or one a survivor's SYNC brought) when the snapshot
    # arrives, and the snapshot also carries the run of a singleton pattern
    for n in (2, 3):
        base = [["in", 0, 1], ["in", 0, 4], ["out", 0], ["out", 0]] + [["upd", x] for x in range(1, n)]
        for own in ([["in", 1, 1]], [["in", 1, 1], ["in", 1, 1]], [["in", 0, 1], ["out", 0], ["upd", 1]]):
            for order in ([["out", 1], ["upd", 0], ["out", 0], ["upd", 1]], [["out", 1], ["out", 0], ["upd", 0], ["upd", 1]],
                          [["out", 0], ["upd", 1], ["out", 1], ["upd", 0]]):
                sc.append(dict(pat="mix", n=n, finish=FINISH["mix"], acts=base + [["restart", 1]] + own + order))
            for pt in SN.POINTS:
                sc.append(dict(pat="mix", n=n, finish=FINISH["mix"],
                               acts=base + [["restart", 1]] + own + [["outinj2", 0, pt, 1], ["upd", 0], ["out", 0], ["upd", 1]]))
    # two phenomena share a pattern name: the recovered runs must be bound to their own phenomenon's pattern
    for n in (2, 3):
        base = [["in", 0, 1], ["in", 0, 2], ["in", 0, 4], ["out", 0], ["out", 0], ["out", 0]] + [["upd", x] for x in range(1, n)]
        for k in (0, 1):
            sc.append(dict(pat="samename", n=n, finish=FINISH["samename"], acts=base + [["restart", k]]))
            sc.append(dict(pat="samename", n=n, finish=FINISH["samename"], acts=base[:3] + [["restart", k]] + base[3:]))
    # the survivor's run has skipped an optional block (its position is ahead of the number of events it holds)
    for n in (2, 3):
        for pat, ins in (("opt4", [1, 3]), ("loop4", [1, 2, 2, 4]), ("loop4", [1, 2, 4]), ("opt4", [1, 2, 3])):
            base = [["in", 0, d] for d in ins] + [["out", 0], ["out", 0]] + [["upd", x] for x in range(1, n)]
            for k in (0, 1):
                sc.append(dict(pat=pat, n=n, finish=FINISH[pat], acts=base + [["restart", k]]))
                sc.append(dict(pat=pat, n=n, finish=FINISH[pat], acts=base[:len(ins)] + [["restart", k]] + base[len(ins):]))
    # the restarted instance's first attempts fail (link down / failure reported after delivery): the announcement must
    # still accompany the first message that gets through
    for n in (2, 3):
        for st in ("down", "fail"):
            base = [["in", 0, 1], ["in", 0, 4], ["out", 0], ["out", 0]] + [["upd", x] for x in range(1, n)]
            sc.append(dict(pat="two", n=n, finish=FINISH["two"],
                           acts=base + [["restart", 1], ["link", 1, 0, st], ["out", 1], ["clock", 4], ["out", 1],
                                        ["link", 1, 0, "up"]]))
    # crash at every position of every short schedule, 2 instances
    alpha = [["in", 0, 1], ["in", 1, 4], ["in", 0, 2], ["out", 0], ["out", 1], ["upd", 0], ["upd", 1]]
    depth = 3 if ctx.quick else 4
    for L in range(1, depth + 1):
        for seq in itertools.product(alpha, repeat=L):
            if not any(a[0] == "in" for a in seq):
                continue
            for p in range(L + 1):
                for k in (0, 1):
                    acts = [list(a) for a in seq[:p]] + [["restart", k]] + [list(a) for a in seq[p:]]
                    sc.append(dict(pat="two", n=2, acts=acts, finish=FINISH["two"]))
    # longer schedules, 2..3 instances, crash of each instance at each position
    longs = [
        (2, [["in", 0, 1], ["out", 0], ["upd", 1], ["in", 1, 4], ["out", 1], ["upd", 0], ["in", 0, 2], ["out", 0], ["upd", 1],
             ["clock", 1], ["in", 1, 5], ["out", 1], ["upd", 0]]),
        (3, [["in", 0, 1], ["out", 0], ["upd", 1], ["upd", 2], ["in", 2, 4], ["out", 2], ["upd", 0], ["upd", 1], ["in", 1, 2],
             ["out", 1], ["upd", 0], ["upd", 2], ["clock", 5], ["in", 0, 5], ["out", 0], ["upd", 1], ["upd", 2]]),
    ]
    for n, seq in longs:
        for p in range(len(seq) + 1):
            for k in range(n):
                sc.append(dict(pat="two", n=n, acts=seq[:p] + [["restart", k]] + seq[p:], finish=FINISH["two"]))
    for _ in range(300 if ctx.quick else 8000):
        n = rng.choice((2, 3))
        pat = rng.choice(("two", "abc", "loop", "strict", "opt4", "loop4", "samename"))
        hi = 6 if pat == "two" else 5 if pat == "samename" else 4 if pat in ("opt4", "loop4") else 3
        acts = []
        for _k in range(rng.randint(3, 12)):
            r, i = rng.random(), rng.randrange(n)
            if r < 0.35:
                acts.append(["in", i, rng.randint(1, hi)])
            elif r < 0.65:
                acts.append(["out", i])
            elif r < 0.92:
                acts.append(["upd", i])
            else:
                acts.append(["clock", rng.choice((1, 5, 31))])
        p = rng.randint(0, len(acts))
        k = rng.randrange(n)
        tail = []
        if rng.random() < 0.4:
            s = rng.choice([x for x in range(n) if x != k])
            tail = [["outinj2", s, rng.choice(SN.POINTS), k]] if rng.random() < 0.5 else [["outinj2", k, rng.choice(SN.POINTS), s]]
        sc.append(dict(pat=pat, n=n, acts=acts[:p] + [["restart", k]] + acts[p:] + tail, finish=FINISH[pat]))
    return sc


def sc_size(sc):
    return (len(sc["acts"]), sc["n"], len(json.dumps(sc)))


def shrink(sc, sig):
    cur, changed = sc, True
    while changed:
        changed = False
        for i in range(len(cur["acts"]) - 1, -1, -1):
            if cur["acts"][i][0] == "restart":
                continue
            cand = dict(cur, acts=cur["acts"][:i] + cur["acts"][i + 1:])
            if any(s == sig for s, _ in work(cand)["fails"]):
                cur, changed = cand, True
                break
    return cur


# ================================================================== entry points
def run(ctx, res):
    conv, notes = pC15.infer_conv()
    fixed = pC06.ydriver(PERIODS, 2).probe_order()
    res.extra["threshold_convention_inferred"] = notes
    res.extra["order_inferred"] = "repaired" if fixed else "pinned"
    cases = corr_cases(ctx)
    coq_cases = []
    for case in cases:
        enc, trace = pC06.run_impl(case)
        coq_cases.append((pC06.coq_input(case, conv, fixed), enc))
        res.note_case(json.dumps(case, sort_keys=True), any(s["fired"] for s in trace) or case["peers"][0]["fr"])
        for s in trace:
            for pt, _k in s["fired"]:
                res.count("corr_reset_handled_at_%s" % pt)
    mism, errs = common.coq_run_cases(pC06.gen_tag("C07"), "Model.Outgoing Model.Replication", "run_C06",
                                      "(bool * tcfg * (list peer * list note) * list top)", coq_cases, shard=250)
    res.errors += errs
    res.traces_validated = len(coq_cases) - len(mism)
    mism.sort(key=lambda m: len(json.dumps(cases[m[0]])))
    for idx, model_out in mism[:10]:
        res.mismatches.append(dict(case=cases[idx], impl=coq_cases[idx][1], model=model_out, convention=notes, fixed_order=fixed))
    if len(mism) > 10:
        res.mismatches += [dict(case=cases[i], impl=None, model=None) for i, _ in mism[10:]]

    scen = oracle_scenarios(ctx)
    results = pmap(work, scen, chunksize=8)
    fails = []
    for sc, r in zip(scen, results):
        res.note_case(("or", json.dumps(sc, sort_keys=True)), r["nontrivial"])
        res.count("oracle_instances_%d" % sc["n"])
        res.count("oracle_with_interleaved_first_message" if any(a[0] == "outinj2" for a in sc["acts"]) else "oracle_sequential")
        for sig, what in r["fails"]:
            res.count("oracle_fail_%s" % sig)
            fails.append(dict(signature=sig, what=what, case=sc, detail=None))
    fails.sort(key=lambda f: sc_size(f["case"]))
    res.extra["oracle_scenarios"] = len(scen)
    res.extra["oracle_failures_total"] = len(fails)
    kept, seen = [], set()
    for f in fails:
        if f["signature"] in seen:
            continue
        seen.add(f["signature"])
        small = f["case"] if f["signature"] == KNOWN_SIG and f["case"] is D10_SCENARIO else shrink(f["case"], f["signature"])
        what = [w for s, w in work(small)["fails"] if s == f["signature"]]
        kept.append(dict(f, case=small, what=what[0] if what else f["what"]))
    res.failures = sorted(kept, key=lambda f: sc_size(f["case"]))
    res.samples = [dict(correspondence_case=cases[0], impl=coq_cases[0][1]), dict(oracle_scenario=scen[1])]
    res.exhaustive = True
    res.extra["exhaustive_scope"] = (
        "crash of each instance at every position of every schedule up to length %d over a 7-letter alphabet (2 instances) "
        "and of two longer schedules (2 and 3 instances); the restarted instance's first iteration at every yield point of a "
        "survivor's iteration (4 survivor situations x 2-3 instances) and vice versa" % (3 if ctx.quick else 4))


def replay(obj):
    case = obj.get("case")
    if not case and obj.get("mismatches"):
        case = obj["mismatches"][0].get("case")
    if not case:
        print(json.dumps(obj, indent=1)[:3000])
        return 1 if obj.get("kind") == "unchecked" else 0
    if "pat" not in case:
        return pC06.replay(dict(case=case))
    print("scenario: %d instances, pattern set %r, periods %r; ['restart', k] replaces instance k by a fresh one; "
          "['outinj2', s, point, k] runs k's outgoing iteration while s's loop is at that yield point for k" % (case["n"], case["pat"], PERIODS))
    r = run_scenario(case, verbose=True)
    w = work(case)
    for sig, what in w["fails"]:
        print("PROPERTY FAILS [%s] %s" % (sig, what))
    if not w["fails"]:
        print("the restart was announced, every survivor answered with RESYNC, the restarted instance holds the survivors' "
              "partial runs and completes them")
    return 1 if w["fails"] else 0
