"""N real engines in one process with synchronous replication between inputs: every local decider note is
serialised (to_json_str / from_json_str, as on the wire) and handed to every other live instance's
on_distributed_update before the next input.  Also: N real deciders only (for the model correspondence)."""
import predlang as PL
import sim_decider as SD
import sim_engine as SE


def wire_copy(records):
    from bobocep.cep.engine.decider.runserial import BoboRunSerial
    return [BoboRunSerial.from_json_str(r.to_json_str()) for r in records]


class Cluster:
    def __init__(self, ed, n, base=1000):
        from bobocep.cep.engine.decider.pubsub import BoboDeciderSubscriber
        self.n = n
        self.nodes = []
        self.live = [True] * n
        self.outbox = [[] for _ in range(n)]
        for k in range(n):
            edk = dict(ed)
            edk["cfg"] = dict(ed["cfg"], idbase=base * (k + 1))
            engine, handler, log = SE.make_engine(edk)
            box = self.outbox[k]

            class Out(BoboDeciderSubscriber):
                def on_decider_update(self, completed, halted, updated, local, box=box):
                    if local:
                        box.append((list(completed), list(halted), list(updated)))
            engine.decider.subscribe(Out())
            self.nodes.append((engine, handler, log))

    def settle(self, cap=40):
        for _ in range(cap):
            busy = False
            for k in range(self.n):
                if not self.live[k]:
                    continue
                engine, handler, _ = self.nodes[k]
                it = 0
                while sum(SE.sizes(engine, handler)) > 0 and it < 60:
                    engine.update()
                    it += 1
                    busy = True
            for k in range(self.n):
                box = self.outbox[k]
                while box:
                    c, h, u = box.pop(0)
                    busy = True
                    if not self.live[k]:
                        continue
                    for j in range(self.n):
                        if j != k and self.live[j]:
                            self.nodes[j][0].decider.on_distributed_update(wire_copy(c), wire_copy(h), wire_copy(u))
            if not busy:
                return True
        return False

    def input(self, k, d):
        self.nodes[k][0].receiver.add_data(d)
        return self.settle()

    def crash(self, ks):
        for k in ks:
            self.live[k] = False


class TcpCluster:
    """Same interface as Cluster, but the instances replicate through their REAL BoboDistributedTCP (sim_net.Net:
    real _tcp_outgoing / _tcp_incoming_handle_client / _update, AES, fake sockets and clock).  After every input the
    protocol is pumped until nothing is queued and nothing new goes over the wire; a crashed instance stops and
    every link to it is down (connect refused), so the survivors stash for it and carry on."""

    def __init__(self, ed, n, periods=(30, 60, 5, 5, 10)):
        import sim_net
        self.n = n
        self.net = sim_net.Net(ed, n, periods=periods)
        self.live = [True] * n
        self.held = set()         # instances whose main thread is busy: incoming messages wait in their queue
        self.settled = self.pump()

    @property
    def nodes(self):
        return [(nd.engine, nd.handler, nd.log) for nd in self.net.nodes]

    def pump(self, cap=12):
        net = self.net
        for _ in range(cap):
            w0 = sum(1 for m in net.wire if m.get("kind") == "msg")
            for k in range(self.n):
                if self.live[k]:
                    net.out_iter(k)
            for k in range(self.n):
                if self.live[k] and k not in self.held:
                    net.main_update(k)
            w1 = sum(1 for m in net.wire if m.get("kind") == "msg")
            if w1 == w0 and all(not net.queue_notes(k) and (k in self.held or net.nodes[k].dist._queue_incoming.empty())
                                for k in range(self.n) if self.live[k]):
                return True
        return False

    def input(self, k, d):
        self.net.advance(1)
        self.net.input(k, d)
        return self.pump()

    def crash(self, ks):
        for k in ks:
            self.live[k] = False
            for i in range(self.n):
                self.net.set_link(i, k, "down")

    # link faults (instances stay up): "down" = connect refused, "fail" = bytes delivered, then the sender gets an error
    def link(self, i, j, state):
        self.net.set_link(i, j, state)

    def heal(self):
        dead = [k for k in range(self.n) if not self.live[k]]
        self.net.heal()
        self.crash(dead)

    def wait(self, seconds):
        self.net.advance(seconds)
        return self.pump()

    def hold(self, k):
        """the main thread of instance k does not get to run: what arrives waits in its incoming queue"""
        self.held.add(k)

    def release(self, k=None):
        self.held -= ({k} if k is not None else set(self.held))
        return self.pump()


def ev_content(e):
    k = PL.kind_of(e)
    if k == 1:
        return (1, e.phenomenon_name, e.pattern_name)
    if k == 2:
        return (2, e.phenomenon_name, e.pattern_name)
    return (0, PL.dval(e))


def hist_content(h):
    return tuple((g, tuple(ev_content(e) for e in h.group(g))) for g in h.all_groups())


def complex_content(log):
    return sorted((e.phenomenon_name, e.pattern_name, hist_content(e.history)) for e, _loc in log["complex"])


def runs_content(engine):
    return sorted((r.phenomenon_name, r.pattern.name, r.block_index, hist_content(r.history()))
                  for r in engine.decider.all_runs())


# ---------- decider-only cluster, for the correspondence with Model/Cluster.v ----------
def run_deciders(cfg, n, inputs):
    """inputs: [(instance, event tuple)].  Mirrors Cluster.crun: local step at i, note applied at every j != i."""
    decs = []
    for k in range(n):
        c = dict(cfg, idbase=cfg["idbase"] * (k + 1))
        decs.append(SD.make_decider(c))
    notes = []
    tables_equal = True
    filtered = [0]
    for i, et in inputs:
        dec, rec = decs[i]
        n0 = len(rec.calls)
        dec.on_receiver_update(PL.make_event(et))
        dec.update()
        calls = rec.calls[n0:]
        comp, halt, upd = (calls[0][0], calls[0][1], calls[0][2]) if calls else ([], [], [])
        notes += PL.enc_list(PL.enc_ser, comp) + PL.enc_list(PL.enc_ser, halt) + PL.enc_list(PL.enc_ser, upd)
        for j in range(n):
            if j != i:
                nj = len(decs[j][1].calls)
                decs[j][0].on_distributed_update(wire_copy(comp), wire_copy(halt), wire_copy(upd))
                got = decs[j][1].calls[nj]
                # side condition of C03_sync_step: the receiver filters nothing out of the sender's note
                if [len(got[0]), len(got[1]), len(got[2])] != [len(comp), len(halt), len(upd)]:
                    filtered[0] += 1
        tabs = [PL.enc_list(PL.enc_run, list(d.all_runs())) for d, _ in decs]
        if any(t != tabs[0] for t in tabs):
            tables_equal = False
    out = []
    for d, _ in decs:
        out += [-6] + PL.enc_list(PL.enc_run, list(d.all_runs()))
    return out + [-4] + notes, tables_equal and filtered[0] == 0


def cluster_case_coq(cfg, n, inputs):
    from common import clist, cnat
    evs = clist(["(%s, %s)" % (cnat(i), PL.event_coq(e)) for i, e in inputs])
    return "(%s, %s, %s)" % (PL.config_coq(cfg), cnat(n), evs)
