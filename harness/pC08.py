"""C08 No deadlock between engine, replication and input threads.

Parent part (imported by main.py): starts recording children (one per action-handler kind) with lockspy
active, unions the recorded acquisition facts, regenerates coq/Gen/Facts_C08.v and compiles it, checks the
Python mirror of the elimination against the Coq one, and - when facts survive the elimination - extracts a
cycle and forces it with real threads in a child that is killed afterwards.  A free-running stress child
looks for a real wait-for cycle independently of the model.

Child part (`python pC08.py --record|--force|--stress ...`): the workload itself.  lockspy is installed
before bobocep is imported; no real network (bobocep.dist.tcp.socket / .time are replaced by fakes)."""
import itertools
import json
import os
import subprocess
import sys
import threading
import time as _time

PROP = "C08"
PROPERTY_FILES = ["Properties/C08.v"]
KINDS = ["blocking", "threads", "processes", "blocking+bounded"]          # quick tier
KINDS_THOROUGH = KINDS + ["threads+bounded", "processes+bounded"]
BOUND = 60          # queue bound of the "+bounded" systems (every queue: tasks, handler, incoming, outgoing)
HERE = os.path.dirname(os.path.abspath(__file__))

META = dict(
    level_text="Theorems (Coq, closed under the global context): for ANY list of lock-acquisition facts (role, "
               "single/multi-instance, held set, requested lock; any number of threads and locks), if the "
               "elimination leaves nothing then no deadlock state exists (k>=2 distinct threads with pairwise "
               "disjoint held sets each waiting for a lock held by the next); facts of a deadlock are never "
               "eliminated; a two-thread inversion is a deadlock state and is always reported; the pair of facts "
               "of the tree before the D11 fix is refuted. Tie to the code: the facts of the CURRENT tree are "
               "recorded on every run from an instrumented workload and `current_tree_deadlock_free` is "
               "regenerated and re-checked over exactly those facts; surviving facts are turned into a cycle that "
               "is forced with real threads; a free-running stress run looks for a real wait-for cycle.",
    level_note="Partial: workload coverage is the assumption - paths that the workload does not exercise contribute "
               "no facts (entry points x roles driven are listed in the evidence). Real-thread scheduling is "
               "modelled by the facts (RLock mutual exclusion, re-entrancy). Thread.join on the distributed "
               "component's incoming / outgoing thread is a fact too: a request for the pseudo-lock alive:<role> "
               "which the joined thread holds from start to end (this is how D19, join() under _lock_local, was "
               "found and forced). pool.join() under the handler lock waits for pool-internal threads, which take "
               "no bobocep lock except through a user action calling receiver.add_data (recorded as role "
               "pool-worker): not part of the elimination. Queue operations: every put/get that could wait is recorded with the locks held; one that "
               "would really wait (full/empty queue, no timeout) is a failure - the bounded workloads fill the outgoing "
               "queue to provoke it.",
    rule="one case per distinct recorded fact (non-trivial = the thread already held a lock) plus random small "
         "fact lists for the elimination mirror (non-trivial = some fact survives or falls only in round >= 2)",
    trusted_base=["harness/lockspy.py (recording RLock replacement, role tags set by the driving code, instance->name "
                  "collapse rule), fake socket/clock modules, budgeted _thread_closed",
                  "threading.RLock semantics: mutual exclusion between threads, owner re-enters"],
    assumptions=["workload coverage: every lock acquisition path reachable in the field is exercised by the "
                 "recorded workload (entry points x roles in coverage.entrypoints)",
                 "a lock name that occurs in a held set denotes one lock instance per system (checked on the "
                 "recorded data; otherwise instances are kept apart)",
                 "user callbacks (predicates, datagen, actions) take no bobocep lock other than via "
                 "receiver.add_data (driven)"])

LIFE_ROLES = ("dist-incoming", "dist-outgoing")
ROLE_MULTI = {"engine": True, "dist-main": False, "dist-incoming": False, "dist-outgoing": False,
              "feeder": True, "pool-worker": True, "control": True, "observer": True}


# =============================================================================================
#                                      CHILD: the workload
# =============================================================================================
class Stall(Exception):
    pass


class FakeClock:
    def __init__(self, t0=1000, rate=0):
        self.t = t0
        self.rate = rate
        self._w0 = _time.time()

    def time(self):
        if self.rate:
            return self.t + (_time.time() - self._w0) * self.rate
        return self.t

    def __getattr__(self, n):
        return getattr(_time, n)


class _Sock:
    def __init__(self, net):
        self.net = net
        self.peer = None

    def connect(self, addr):
        if addr[1] in self.net.down:
            raise OSError("link down")
        self.peer = addr

    def sendall(self, b):
        self.net.sent.append((self.peer, bytes(b)))
        if len(self.net.sent) > 200:
            del self.net.sent[:100]

    def accept(self):
        msg = self.net.next_client()
        if msg is None:
            if self.net.idle_sleep:
                _time.sleep(self.net.idle_sleep)
            raise self.net.timeout()
        self.net.accepted += 1
        return _Client(msg), ("10.0.0.%d" % (2 + self.net.accepted % 2), 5000)

    def __getattr__(self, n):          # settimeout, bind, listen, close, setsockopt, ...
        return lambda *a, **k: None


class _Client:
    def __init__(self, msg):
        self.msg = msg

    def recv(self, n):
        m, self.msg = self.msg, b""
        if not m:
            raise TimeoutError("no more bytes")
        return m

    def __getattr__(self, n):
        return lambda *a, **k: None


class FakeNet:
    """stands in for the `socket` module inside bobocep.dist.tcp"""
    AF_INET, SOCK_STREAM = 2, 1
    timeout = TimeoutError
    error = OSError

    def __init__(self):
        self.down = set()
        self.sent = []
        self.inbox = []
        self.source = None
        self.accepted = 0
        self.idle_sleep = 0

    def socket(self, *a, **k):
        return _Sock(self)

    def next_client(self):
        if self.inbox:
            return self.inbox.pop(0)
        if self.source is not None:
            return self.source()
        return None

    def __getattr__(self, n):
        import socket as real
        return getattr(real, n)


class System:
    """One engine + one BoboDistributedTCP (urn A, peers B and C), wired as BoboSetupSimpleDistributed does."""

    def __init__(self, kind, clock_rate=0):
        import lockspy
        self.spy = lockspy
        lockspy.DISCRIMINATORS["devman"] = lambda o: o.urn
        lockspy.set_role(None)
        import multiprocessing.pool as mpp
        real_tp = mpp.ThreadPool

        class TaggedThreadPool(real_tp):
            def __init__(self, processes=None, initializer=None, initargs=()):
                real_tp.__init__(self, processes, lambda: lockspy.set_role("pool-worker", True), ())
        mpp.ThreadPool = TaggedThreadPool

        from bobocep.cep.action.handler import BoboActionHandlerBlocking, BoboActionHandlerMultithreading, \
            BoboActionHandlerMultiprocessing
        from bobocep.cep.engine.decider.decider import BoboDecider
        from bobocep.cep.engine.decider.pubsub import BoboDeciderSubscriber
        from bobocep.cep.engine.decider.runserial import BoboRunSerial
        from bobocep.cep.engine.engine import BoboEngine
        from bobocep.cep.engine.forwarder.forwarder import BoboForwarder
        from bobocep.cep.engine.producer.producer import BoboProducer
        from bobocep.cep.engine.receiver.receiver import BoboReceiver
        from bobocep.cep.engine.receiver.validator import BoboValidatorAll
        from bobocep.cep.event.history import BoboHistory
        from bobocep.cep.event.simple import BoboEventSimple
        from bobocep.cep.gen.event import BoboGenEventTime
        from bobocep.cep.gen.event_id import BoboGenEventIDUnique
        from bobocep.cep.gen.timestamp import BoboGenTimestampEpoch
        from bobocep.cep.phenom.pattern.builder import BoboPatternBuilder
        from bobocep.cep.phenom.phenom import BoboPhenomenon
        from bobocep.dist.crypto.aes import BoboDistributedCryptoAES
        from bobocep.dist.device import BoboDevice
        import bobocep.dist.tcp as tcpmod
        self.RunSerial, self.History, self.Simple = BoboRunSerial, BoboHistory, BoboEventSimple

        self.full_kind = kind
        kind, _, bounded = kind.partition("+")
        ms = BOUND if bounded else 0
        self.kind = kind
        self.bounded = bool(bounded)
        self.flood_full = self.flood_refused = None
        self.net = FakeNet()
        self.clock = FakeClock(1000, clock_rate)
        tcpmod.socket = self.net
        tcpmod.time = self.clock

        def is_(v):
            return lambda e, h: e.data == v
        p1 = BoboPatternBuilder("p1").followed_by(is_("a"), group="ga").followed_by(is_("b"), group="gb") \
            .haltcondition(is_("h")).generate()
        p3 = BoboPatternBuilder("p3").followed_by(is_("x"), group="gx").followed_by(is_("y"), group="gy") \
            .followed_by(is_("z"), group="gz").generate()
        ps = BoboPatternBuilder("ps", singleton=True).followed_by(is_("s1"), group="g1") \
            .followed_by(is_("s2"), group="g2").generate()

        if kind == "blocking":
            handler = BoboActionHandlerBlocking(max_size=ms)
        elif kind == "threads":
            handler = BoboActionHandlerMultithreading(threads=3, max_size=ms)
        else:
            handler = BoboActionHandlerMultiprocessing(processes=2, max_size=ms)
        self.handler = handler

        gen_id = BoboGenEventIDUnique("A")
        gen_run = BoboGenEventIDUnique("A")
        gen_ts = BoboGenTimestampEpoch()
        self.receiver = BoboReceiver(validator=BoboValidatorAll(), gen_event_id=gen_id, gen_timestamp=gen_ts,
                                     gen_event=BoboGenEventTime(millis=40, datagen=_tick), max_size=ms)
        action = ActionNoop("act") if kind == "processes" else ActionFeed("act", self.receiver)
        self.refill = False

        def datagen(phenom, history):
            # a user callback (runs in the producer, under its lock) that feeds data back - here until the receiver's
            # bounded queue is full, so that the complex event about to be published finds no room
            if self.refill:
                try:
                    for _ in range(4 * BOUND):
                        self.receiver.add_data("fill")
                except Exception:        # noqa: "queue is full"
                    pass
            return _datagen(phenom, history)
        self.phenomena = [BoboPhenomenon("ph", [p1, p3, ps], action=action, datagen=datagen)]
        self.decider = BoboDecider(phenomena=self.phenomena, gen_event_id=gen_id, gen_run_id=gen_run, max_cache=50,
                                   max_size=ms)
        self.producer = BoboProducer(phenomena=self.phenomena, gen_event_id=gen_id, gen_timestamp=gen_ts,
                                     max_size=ms)
        self.forwarder = BoboForwarder(phenomena=self.phenomena, handler=handler, gen_event_id=gen_id,
                                       gen_timestamp=gen_ts, max_size=ms)
        self.engine = BoboEngine(receiver=self.receiver, decider=self.decider, producer=self.producer,
                                 forwarder=self.forwarder)

        class Stepped(tcpmod.BoboDistributedTCP):
            """the real class; `_thread_closed` answers False for a per-thread budget of reads, so that calling
            _tcp_outgoing() / _tcp_incoming() runs exactly n iterations of the real loop body"""
            _vc = dict(flag=False, tls=threading.local())

            @property
            def _thread_closed(self):
                n = getattr(self._vc["tls"], "n", 0)
                if n > 0:
                    self._vc["tls"].n = n - 1
                    return False
                if n < 0:
                    return self._vc["flag"]
                return True

            @_thread_closed.setter
            def _thread_closed(self, v):
                self._vc["flag"] = v

            def budget(self, n):
                self._vc["tls"].n = n

            def _tcp_incoming(self):
                if getattr(lockspy._tls, "role", (None,))[0] is None:
                    lockspy.set_role("dist-incoming")
                return tcpmod.BoboDistributedTCP._tcp_incoming(self)

            def _tcp_outgoing(self):
                if getattr(lockspy._tls, "role", (None,))[0] is None:
                    lockspy.set_role("dist-outgoing")
                return tcpmod.BoboDistributedTCP._tcp_outgoing(self)

        self.key = "0123456789abcdef"
        devs = [BoboDevice("127.0.0.1", 9001, "A", "ka"), BoboDevice("10.0.0.2", 9002, "B", "kb"),
                BoboDevice("10.0.0.3", 9003, "C", "kc")]
        self.dist = Stepped(urn="A", decider=self.decider, devices=devs,
                            crypto=BoboDistributedCryptoAES(aes_key=self.key),
                            max_size_incoming=ms, max_size_outgoing=ms)
        self.decider.subscribe(self.dist)
        self.dist.subscribe(self.decider)
        self.peer_crypto = BoboDistributedCryptoAES(aes_key=self.key)

        outer = self

        class Probe(BoboDeciderSubscriber):
            def on_decider_update(self, completed, halted, updated, local):
                if local:
                    outer.seen_local += 1
                else:
                    outer.seen_remote += 1
        self.seen_local = self.seen_remote = 0
        self.probe = Probe()
        self.decider.subscribe(self.probe)

        class FlowProbe:                      # producer and forwarder subscriber; takes no lock
            def on_producer_update(self, event, local):
                if local:
                    outer.dispatched += 1

            def on_forwarder_update(self, event):
                outer.responded += 1
        self.dispatched = self.responded = 0
        self.flow = FlowProbe()
        self.producer.subscribe(self.flow)
        self.forwarder.subscribe(self.flow)
        self.errors = []
        self.tolerated = 0
        self.entry = {}
        self._n = 0

    # ---- helpers -------------------------------------------------------------------------
    def note(self, role, what):
        self.entry.setdefault(role, [])
        if what not in self.entry[role]:
            self.entry[role].append(what)

    def as_role(self, role, fn, *a, wait=True, what=None, tolerate=None):
        spy = self.spy
        self.note(role, what or getattr(fn, "__qualname__", str(fn)))
        box = {}

        def body():
            spy.set_role(role, ROLE_MULTI[role], life=role in LIFE_ROLES)
            try:
                box["r"] = fn(*a)
            except Exception as e:                      # noqa
                box["e"] = e
                if tolerate is not None and tolerate(e):
                    self.tolerated += 1
                    return
                self.errors.append("%s: %s: %s" % (role, type(e).__name__, e))
            finally:
                spy.end_role()
        t = threading.Thread(target=body, name=role, daemon=True)
        if role in LIFE_ROLES:
            # dist.join() waits for the END of the incoming / outgoing thread: here those roles run in this thread
            spy.JOIN_TARGETS[id(t)] = role
            setattr(self.dist, "_thread_" + role.split("-")[1], t)
        t.start()
        if wait:
            t.join(120)
            if t.is_alive():
                raise Stall("role %s did not return (wait-for cycle: %s)" % (role, spy.find_wait_cycle()))
        return t if not wait else box.get("r")

    def wait_until(self, cond, what, secs=90):
        end = _time.time() + secs
        while not cond():
            if _time.time() > end:
                raise Stall("%s (wait-for cycle: %s)" % (what, self.spy.find_wait_cycle()))
            _time.sleep(0.002)

    def ev(self, data):
        self._n += 1
        return self.Simple(event_id="B_ev_%d" % self._n, timestamp=1000 + self._n, data=data)

    def rs(self, run_id, pattern, datas):
        groups = {"p1": ["ga", "gb"], "p3": ["gx", "gy", "gz"], "ps": ["g1", "g2"]}[pattern]
        hist = self.History({g: [self.ev(d)] for g, d in zip(groups, datas)})
        return self.RunSerial(run_id=run_id, phenomenon_name="ph", pattern_name=pattern,
                              block_index=len(datas), history=hist)

    def message(self, urn, idkey, mtype, flags, completed=(), halted=(), updated=()):
        body = json.dumps({"completed": [r.to_json_str() for r in completed],
                           "halted": [r.to_json_str() for r in halted],
                           "updated": [r.to_json_str() for r in updated]}) if mtype != 1 else "{}"
        return self.peer_crypto.encrypt("%s %s %d %d %s" % (urn, idkey, mtype, flags, body))

    def deliver(self, msgs, remote_expected):
        """incoming role: n iterations of the real accept loop; then wait until run() has dispatched them"""
        before = self.seen_remote
        self.net.inbox.extend(msgs)

        def go():
            self.dist.budget(len(msgs))
            self.dist._tcp_incoming()
        self.as_role("dist-incoming", go, what="_tcp_incoming -> _tcp_incoming_handle_client")
        self.wait_until(lambda: self.dist._queue_incoming.empty() and self.seen_remote >= before + remote_expected,
                        "dist.run() did not dispatch the incoming messages")
        self.note("dist-main", "run -> _update -> decider.on_distributed_update")

    def outgoing(self, n):
        def go():
            self.dist.budget(n)
            self.dist._tcp_outgoing()
        self.as_role("dist-outgoing", go, what="_tcp_outgoing (RESYNC/SYNC/PING, stash)")

    def feed(self, datas, threads=3):
        ts = [self.as_role("feeder", lambda k=k: [self.receiver.add_data(d) for d in datas[k::threads]],
                           wait=False, what="receiver.add_data") for k in range(threads)]
        for t in ts:
            t.join(120)
            if t.is_alive():
                raise Stall("feeder did not return")

    def cycle_engine(self, rounds=2):
        """engine.update() until at least `rounds` were made and every dispatched action has been answered"""
        n = 0
        while n < 25:
            self.as_role("engine", self.engine.update, what="engine.update")
            n += 1
            if self.dispatched > self.responded:
                if self.kind != "blocking":       # the pool is working: wait for a response to forward
                    self.wait_until(lambda: self.handler.size() > 0, "no response from the action pool", 90)
                continue
            if n >= rounds:
                return
        raise Stall("engine does not come to rest (dispatched %d, responded %d)" % (self.dispatched, self.responded))

    def flood(self):
        """Bounded system: more local decider changes than the outgoing queue holds while the outgoing thread takes
        none.  The documented behaviour is a BoboDistributedSystemError("Outgoing queue is full.") out of the update
        cycle; an operation that WAITS for room here waits under the engine, decider and distributed locks, which
        the outgoing thread needs (decider.snapshot() for a RESYNC) before it can take an item."""
        import queue as _q

        def expected(e):
            return isinstance(e, _q.Full) or "queue is full" in str(e).lower()
        self.clock.t += 40                              # both peers are due for a RESYNC (snapshot) again
        n0 = self.tolerated
        for k in range(4 * BOUND):
            if k >= BOUND + 6 and self.dist.size_outgoing() >= BOUND and self.tolerated > n0:
                break
            self.as_role("feeder", self.receiver.add_data, "a", what="receiver.add_data", tolerate=expected)
            self.as_role("engine", self.engine.update, what="engine.update (outgoing queue full)", tolerate=expected)
        self.flood_full = self.dist.size_outgoing()
        self.flood_refused = self.tolerated - n0
        self.outgoing(BOUND + 8)                        # drain: the rest of the workload starts from an empty queue
        for _ in range(6):                              # ... and from empty task queues
            self.as_role("engine", self.engine.update, what="engine.update", tolerate=expected)
        self.outgoing(BOUND + 8)
        self.observe()
        # the receiver's bounded queue is full at the moment a complex event is handed back to it (documented: the
        # BoboReceiverError "queue is full" comes out of the update cycle); a remote completion is dispatched too
        self.refill = True
        for _ in range(3):
            for d in ("a", "b"):
                self.as_role("feeder", self.receiver.add_data, d, what="receiver.add_data", tolerate=expected)
                for _k in range(2):
                    self.as_role("engine", self.engine.update, what="engine.update (receiver queue full)", tolerate=expected)
        self.refill = False
        for _ in range(6 * BOUND):                     # back to empty task queues
            if self.receiver.size() + self.decider.size() + self.producer.size() + self.forwarder.size() == 0:
                break
            self.as_role("engine", self.engine.update, what="engine.update", tolerate=expected)
        self.outgoing(BOUND + 8)

    def getters(self):
        d = self.decider
        self.engine.is_closed(), self.receiver.size(), self.receiver.is_closed(), d.size(), d.is_closed()
        d.all_runs(), d.phenomena(), d.runs_from("ph", "p1"), d.run_at("ph", "p1", "none"), d.snapshot()
        self.producer.size(), self.producer.is_closed(), self.forwarder.size(), self.forwarder.is_closed()
        self.handler.size(), self.handler.is_closed()
        self.dist.size_incoming(), self.dist.size_outgoing(), self.dist.is_closed()

    def observe(self):
        self.as_role("observer", self.getters,
                     what="is_closed/size/all_runs/runs_from/run_at/snapshot/phenomena getters")

    # ---- the recorded workload -----------------------------------------------------------
    def record(self):
        spy = self.spy
        self.as_role("dist-main", self.dist.run, wait=False, what="run")
        self.wait_until(lambda: getattr(self.dist, "_running", True), "dist.run() did not start")
        _time.sleep(0.02)

        # local changes: completes (action runs), halts, 3-block pattern, singleton
        self.feed(["a", "b", "a", "h", "x", "y", "z", "s1", "junk"])
        self.cycle_engine(3)
        self.observe()

        # outgoing: RESYNC (snapshot) to B, C down; then SYNC of the queued local changes
        self.net.down = {9003}
        self.outgoing(3)
        self.clock.t += 12
        self.net.down = set()
        self.outgoing(2)

        # remote changes from B and C
        r1a = self.rs("B_r1", "p3", ["x"])
        r1b = self.rs("B_r1", "p3", ["x", "y"])
        r1c = self.rs("B_r1", "p3", ["x", "y", "z"])
        self.deliver([self.message("B", "kb", 0, 0, updated=[r1a])], 1)
        self.deliver([self.message("B", "kb", 0, 0, updated=[r1b]), self.message("C", "kc", 1, 0)], 1)
        self.deliver([self.message("B", "kb", 0, 0, completed=[r1c])], 1)
        self.cycle_engine(2)                      # remote completion -> complex event (local=False)
        self.deliver([self.message("B", "kb", 0, 0, halted=[self.rs("B_r2", "p1", ["a"])]),
                      self.message("B", "kb", 0, 0)], 1)
        self.deliver([self.message("B", "kb", 2, 1, completed=[self.rs("B_r4", "p1", ["a", "b"])],
                                   halted=[self.rs("B_r5", "p1", ["a"])],
                                   updated=[self.rs("B_r3", "p1", ["a"]), self.rs("B_rs", "ps", ["s1"])]),
                      self.message("C", "kc", 1, 1)], 1)
        self.cycle_engine(2)
        # local change on runs that came from the peer, singleton completed locally
        self.feed(["b", "s2", "a"])
        self.cycle_engine(2)
        self.deliver([self.message("B", "kb", 0, 0, completed=[self.rs("B_rs2", "ps", ["s1", "s2"])],
                                   updated=[self.rs("B_r6", "p3", ["x"])])], 1)
        self.cycle_engine(2)

        # outgoing: RESET made both peers due for RESYNC; then SYNC with C failing (stash), stash retry, PING
        self.outgoing(2)
        self.feed(["a", "x"])
        self.cycle_engine(2)
        self.net.down = {9003}
        self.outgoing(2)
        self.net.down = set()
        self.clock.t += 6
        self.outgoing(2)
        self.clock.t += 31
        self.outgoing(2)
        self.clock.t += 70
        self.outgoing(2)
        self.observe()
        if self.bounded:
            self.flood()

        if self.kind == "threads":
            # an action that fails in a pool thread (whatever the pool does about it happens on the pool's own threads)
            from bobocep.cep.event import BoboEventComplex, BoboHistory
            ce = BoboEventComplex(event_id="ce_x", timestamp=1, data=None, phenomenon_name="ph", pattern_name="p1",
                                  history=BoboHistory({}))
            self.as_role("engine", lambda: self.handler.handle(ActionRaises.make(), ce), what="handler.handle (failing action)")
            _time.sleep(0.3)
        # shutdown: engine.run() loop stopped by close(); dist closed, joined; handler closed
        et = self.as_role("engine", self.engine.run, wait=False, what="engine.run")
        _time.sleep(0.05)
        self.as_role("control", self.engine.close, what="engine.close")
        et.join(90)
        if et.is_alive():
            raise Stall("engine.run() did not return after close()")
        self.as_role("control", self.dist.close, what="dist.close")
        self.as_role("control", self.dist.join, what="dist.join")
        self.as_role("control", self.handler.close, what="handler.close")
        if self.kind != "blocking":
            self.as_role("control", self.handler.join, what="handler.join")
            self.note("pool-worker", "_pool_execute_action -> action.execute"
                      + (" -> receiver.add_data" if self.kind == "threads" else " (worker processes share no lock)"))
        out = spy.dump()
        out.update(kind=self.full_kind, entrypoints=self.entry, errors=self.errors,
                   flood_outgoing_size=self.flood_full, flood_refused=self.flood_refused,
                   local_notifications=self.seen_local, remote_notifications=self.seen_remote,
                   incoming_accepted=self.net.accepted, outgoing_sent=len(self.net.sent))
        return out

    # ---- free running (forcing / stress) -------------------------------------------------
    def free_run(self, seconds, targets):
        """All roles at once in real threads.  targets: list of facts to park at (forcing) or [] (stress)."""
        spy = self.spy
        k = len(targets)
        barrier = threading.Barrier(k) if k else None
        claimed = {}
        passed = threading.Event()
        glock = threading.Lock()
        want = [(f["role"], frozenset(f["held"]), f["req"]) for f in targets]

        def hook(role, held, req):
            if passed.is_set() or (role, held, req) not in want:
                return
            me = threading.get_ident()
            with glock:
                free = [i for i, w in enumerate(want) if w == (role, held, req) and i not in claimed.values()]
                if not free or me in claimed:
                    return
                claimed[me] = free[0]
            try:
                barrier.wait(10)
                passed.set()
            except threading.BrokenBarrierError:
                with glock:
                    claimed.pop(me, None)
        if k:
            spy.HOOK[0] = hook
        stop = threading.Event()
        self.net.idle_sleep = 0.001
        seq = itertools.count()

        def source():
            i = next(seq)
            rid = "B_f%d" % (i // 3)
            step = i % 3
            if step == 0:
                return self.message("B", "kb", 0, 0, updated=[self.rs(rid, "p3", ["x"])])
            if step == 1:
                return self.message("C", "kc", 2, i % 2, updated=[self.rs(rid, "p3", ["x", "y"])])
            return self.message("B", "kb", 0, 0, completed=[self.rs(rid, "p3", ["x", "y", "z"])])
        self.net.source = lambda: None if stop.is_set() else (_time.sleep(0.002), source())[1]
        if any(f["role"] == "dist-main" and f["req"].startswith("alive:") for f in targets):
            # the run loop itself waits for a thread: it gets there only when it is not busy dispatching (and not
            # waiting for the decider on behalf of a remote message), so no peer sends anything in this attempt
            self.net.source = lambda: None

        def loop(fn):
            def go():
                while not stop.is_set():
                    try:
                        fn()
                    except Exception:            # e.g. "queue is full" of a bounded system: keep going
                        _time.sleep(0.001)
            return go

        def feeder():
            for d in ["a", "b", "a", "h", "x", "y", "z", "s1", "s2"]:
                self.receiver.add_data(d)
            _time.sleep(0.003)

        def free(fn):
            def go():
                self.dist.budget(-1)
                fn()
            return go
        if self.bounded and any(f["role"] == "engine" and "receiver._lock" in f["held"] and "producer._lock" in f["held"]
                                for f in targets):
            self.refill = True       # the cycle goes through a complex event handed back to a FULL receiver queue
        # a cycle through something the run() thread does while HOLDING a lock may lie on its start-up path: the engine
        # and the feeders must then be at work already when run() starts (an application may start them in any order)
        early = any(f["role"] == "dist-main" and f["held"] and not f["req"].startswith("alive:") for f in targets)

        def start_engine_side():
            # engine.update() is a public entry point: as many engine threads as the cycle to force needs (two when
            # free-running: a second driver next to the engine loop)
            for _ in range(max(2 if not targets else 1, sum(1 for f in targets if f["role"] == "engine"))):
                self.as_role("engine", loop(self.engine.update), wait=False)
            self.as_role("feeder", loop(feeder), wait=False)
            self.as_role("feeder", loop(feeder), wait=False)
        if early:
            start_engine_side()
            _time.sleep(0.3)
        self.as_role("dist-main", self.dist.run, wait=False)
        self.wait_until(lambda: getattr(self.dist, "_running", True) or (early and (bool(claimed) or passed.is_set())),
                        "dist.run() did not start")
        if not early:
            start_engine_side()
        self.as_role("dist-incoming", free(self.dist._tcp_incoming), wait=False)
        self.as_role("dist-outgoing", free(self.dist._tcp_outgoing), wait=False)
        self.as_role("observer", loop(lambda: (self.getters(), _time.sleep(0.002))), wait=False)
        waits_for_thread = [f for f in targets if f["req"].startswith("alive:")]
        if any(f["role"] == "control" for f in targets) or waits_for_thread:
            # the shutdown calls, each on its own thread (one may park or block), once the others had time to park
            if any(f["role"] == "control" for f in waits_for_thread):
                # the cycle goes through join(): close() then join(), as a user shuts the component down
                calls = (lambda: (self.dist.close(), self.dist.join()),)
            elif waits_for_thread:
                # a library thread itself waits for another thread to end (which it does once the component is
                # closed): close() alone, the engine keeps running
                calls = (self.dist.close,)
            else:
                calls = (self.dist.close, self.engine.close, self.handler.close)
            for fn in calls:
                self.as_role("control", lambda fn=fn: (_time.sleep(0.6), fn()), wait=False)
        deadline = _time.time() + seconds
        released_at = None
        cyc = None
        while _time.time() < deadline:
            cyc = spy.find_wait_cycle()
            if cyc:
                _time.sleep(0.3)                     # still there a moment later: it never dissolves
                cyc2 = spy.find_wait_cycle()
                if cyc2 and sorted(map(str, cyc2)) == sorted(map(str, cyc)):
                    break
                cyc = None
            if targets and passed.is_set():
                # released from the barrier: give the threads 3 s to show a stable wait-for cycle
                if released_at is None:
                    released_at = _time.time()
                elif _time.time() - released_at > 3:
                    break
            _time.sleep(0.02)
        stop.set()
        return dict(hung=bool(cyc), wait_cycle=cyc, parked=bool(passed.is_set()) if targets else None,
                    kind=self.full_kind, errors=self.errors[:5],
                    progress=dict(local=self.seen_local, remote=self.seen_remote, accepted=self.net.accepted))


def _tick():
    return "tick"


def _datagen(phenom, history):
    return "cx"


def _child_classes():
    from bobocep.cep.action.action import BoboAction

    class ActionNoop(BoboAction):
        def execute(self, event):
            return True, "ok"

    class ActionFeed(BoboAction):
        """a user action that feeds a value back into the engine (runs on a pool worker, or on the engine
        thread under the forwarder and handler locks with the blocking handler)"""

        def __init__(self, name, receiver):
            super().__init__(name)
            self._receiver = receiver

        def execute(self, event):
            self._receiver.add_data("fed-back")
            return True, "fed"
    ActionNoop.__qualname__ = "ActionNoop"
    ActionFeed.__qualname__ = "ActionFeed"
    return ActionNoop, ActionFeed


class ActionRaises:
    """made a BoboAction subclass on first use (the library is imported in the child only)"""
    _cls = None

    @classmethod
    def make(cls):
        if cls._cls is None:
            from bobocep.cep.action.action import BoboAction

            class _ActionRaises(BoboAction):
                def execute(self, event):
                    raise RuntimeError("this action fails")
            cls._cls = _ActionRaises
        return cls._cls("a_raises")


def put_race(kind):
    """Action-handler workers and the engine at shutdown.  A bounded multithreaded handler (threads=2, max_size=1), an
    engine from BoboSetupSimple on its real run() thread, two slow actions in flight.  Only scheduling is forced: the two
    workers leave the handler queue's full() together (its return value is unchanged), and close() + join() are called
    while they do.  Liveness afterwards: join() returns, the engine goes on consuming data."""
    import queue
    import threading
    import time as _t
    import traceback
    from bobocep.cep.action.action import BoboAction
    from bobocep.cep.action.handler import BoboActionHandlerMultithreading
    from bobocep.cep.phenom.pattern.builder import BoboPatternBuilder
    from bobocep.cep.phenom.phenom import BoboPhenomenon
    from bobocep.setup.simple import BoboSetupSimple

    gate = threading.Event()

    class Slow(BoboAction):
        def execute(self, event):
            gate.wait(10)
            return True, None
    bounded = kind.endswith("+bounded")
    handler = BoboActionHandlerMultithreading(threads=2, max_size=1 if bounded else 0)
    pat = BoboPatternBuilder("p").followed_by(lambda e, h: e.data == "a").generate()
    ph = BoboPhenomenon(name="ph", patterns=[pat], action=Slow("slow"))
    engine = BoboSetupSimple(phenomena=[ph], handler=handler).generate()
    queues = [v for v in vars(handler).values() if isinstance(v, queue.Queue)]
    arrived, both, proceed = [], threading.Event(), threading.Event()
    if queues:
        q = queues[0]
        real_full = q.full

        def full():
            r = real_full()
            if threading.current_thread() is not threading.main_thread() and not proceed.is_set():
                arrived.append(threading.get_ident())
                if len(set(arrived)) >= 2:
                    both.set()
                proceed.wait(3)
            return r
        q.full = full
    th_engine = threading.Thread(target=engine.run, name="engine", daemon=True)
    th_engine.start()
    engine.receiver.add_data("a")
    engine.receiver.add_data("a")
    t0 = _t.time()
    while handler.size() + len(arrived) < 1 and _t.time() - t0 < 5:
        _t.sleep(0.01)
    _t.sleep(0.3)                    # both actions handed to the pool
    gate.set()                       # both finish now
    both.wait(3)
    joined = threading.Event()

    def shutdown():
        handler.close()
        handler.join()
        joined.set()
    th_join = threading.Thread(target=shutdown, name="handler-join", daemon=True)
    th_join.start()
    _t.sleep(0.4)                    # join() is waiting for the pool
    proceed.set()
    ok_join = joined.wait(8)
    before = None
    try:
        engine.receiver.add_data("b")
        _t.sleep(1.5)
        before = engine.receiver.size()
    except Exception as ex:          # noqa
        before = repr(ex)
    stacks = {}
    if not ok_join or before not in (0,):
        for t in threading.enumerate():
            fr = sys._current_frames().get(t.ident)
            if fr is not None and t is not threading.current_thread():
                stacks[t.name] = ["%s:%d %s" % (os.path.basename(f.filename), f.lineno, f.name)
                                  for f in traceback.extract_stack(fr)[-4:]]
    return dict(kind=kind, workers_met=len(set(arrived)), join_returned=bool(ok_join), receiver_backlog=before,
                queue_found=bool(queues), stacks=stacks)


def start_order(kind):
    """The start order of the project's example applications: the engine thread is started (data already waiting in the
    receiver) a moment BEFORE the thread of the distributed component.  Afterwards run() has started, and the size
    getters of the distributed component and of the decider still return."""
    import threading
    import traceback
    sysm = System(kind, clock_rate=25)
    stop = threading.Event()
    for d in ["a", "b", "a", "h", "x", "y"]:
        sysm.receiver.add_data(d)

    def eng():
        while not stop.is_set():
            try:
                sysm.engine.update()
            except Exception:        # noqa (a change reported before run() has started is refused with an error)
                _time.sleep(0.001)
    te = threading.Thread(target=eng, name="engine", daemon=True)
    te.start()
    _time.sleep(0.3)
    td = threading.Thread(target=sysm.dist.run, name="dist-main", daemon=True)
    td.start()
    t0 = _time.time()
    while _time.time() - t0 < 8 and not getattr(sysm.dist, "_running", False):
        _time.sleep(0.05)
    running = bool(getattr(sysm.dist, "_running", False))
    ok = [False]

    def getters():
        sysm.dist.size_outgoing()
        sysm.decider.size()
        ok[0] = True
    tg = threading.Thread(target=getters, name="observer", daemon=True)
    tg.start()
    tg.join(4)
    stacks = {}
    if not (running and ok[0]):
        for t in threading.enumerate():
            fr = sys._current_frames().get(t.ident)
            if fr is not None and t.name in ("engine", "dist-main", "observer"):
                stacks[t.name] = ["%s:%d %s" % (os.path.basename(f.filename), f.lineno, f.name)
                                  for f in traceback.extract_stack(fr)[-3:]]
    stop.set()
    return dict(kind=kind, run_started=running, getters_returned=ok[0], stacks=stacks)


def start_order_failure(kind, r):
    if r.get("timeout") or r.get("crashed") or "run_started" not in r:
        return None
    if r["run_started"] and r["getters_returned"]:
        return None
    return dict(signature="engine-started-before-run-blocks-both", detail=r.get("stacks"),
                what="engine thread started 0.3 s before the distributed component's run() (data waiting in the receiver): run() %s, "
                     "size getters %s.  Threads: %s" % ("started" if r["run_started"] else "never got started",
                     "return" if r["getters_returned"] else "never return",
                     "; ".join("[%s] %s" % (n, " <- ".join(reversed(st))) for n, st in sorted((r.get("stacks") or {}).items()))[:700]),
                case=dict(mode="startorder", kind=kind))


def put_race_failure(kind, r):
    if r.get("timeout") or r.get("crashed") or not r.get("queue_found"):
        return None
    if r.get("join_returned") and r.get("receiver_backlog") == 0:
        return None
    return dict(signature="worker-blocked-on-response-queue-at-join",
                what="multithreaded handler (%s, threads=2, max_size=%d), two actions finishing together while close() + join() "
                     "run: join() %s, the engine thread %s.  Threads: %s"
                     % (kind, 1 if kind.endswith("+bounded") else 0,
                        "returned" if r.get("join_returned") else "never returned",
                        "goes on consuming data" if r.get("receiver_backlog") == 0 else "stopped consuming data (receiver backlog %r)" % r.get("receiver_backlog"),
                        "; ".join("[%s] %s" % (n, " <- ".join(reversed(st[-3:]))) for n, st in sorted(r.get("stacks", {}).items())
                                  if any(x in " ".join(st) for x in ("handler.py", "forwarder.py", "engine.py")))[:900]),
                case=dict(mode="putrace", kind=kind), detail=r.get("stacks"))


def child_main(argv):
    global ActionNoop, ActionFeed
    mode, kind = argv[0], argv[1]
    if mode == "--startorder":
        import lockspy
        lockspy.install()
        ActionNoop, ActionFeed = _child_classes()
        try:
            out = start_order(kind)
        except Exception as ex:      # noqa
            import traceback
            out = dict(crashed=True, error=traceback.format_exc()[-1500:])
        sys.stdout.write("\n@@C08@@" + json.dumps(out, default=repr) + "\n")
        sys.stdout.flush()
        os._exit(0)
    if mode == "--putrace":
        try:
            out = put_race(kind)
        except Exception as ex:      # noqa
            import traceback
            out = dict(crashed=True, error=traceback.format_exc()[-1500:])
        sys.stdout.write("\n@@C08@@" + json.dumps(out, default=repr) + "\n")
        sys.stdout.flush()
        os._exit(0)
    import lockspy
    lockspy.install()
    ActionNoop, ActionFeed = _child_classes()
    try:
        sysm = System(kind, clock_rate=0 if mode == "--record" else 25)
        if mode == "--record":
            out = sysm.record()
        elif mode == "--force":
            out = sysm.free_run(14, json.loads(argv[2]))
        else:
            out = sysm.free_run(float(argv[2]), [])
    except Stall as e:
        out = dict(stalled=str(e), kind=kind, wait_cycle=lockspy.find_wait_cycle(), facts_so_far=lockspy.dump())
    sys.stdout.write("\n@@C08@@" + json.dumps(out, default=repr) + "\n")
    sys.stdout.flush()
    if os.getpid() == os.getpgrp():           # started by the parent in its own session: take the pool /
        import signal                         # manager processes down too
        signal.signal(signal.SIGTERM, signal.SIG_IGN)
        os.killpg(0, signal.SIGTERM)
    os._exit(0)


# =============================================================================================
#                                      PARENT
# =============================================================================================
def _spawn(args, timeout):
    """start a child; its output goes to files (pool / manager grandchildren would keep a pipe open)"""
    import common
    import tempfile
    env = dict(os.environ)
    env["PYTHONPATH"] = common.REPO + os.pathsep + HERE
    env["PYTHONHASHSEED"] = "0"
    env["PYTHONDONTWRITEBYTECODE"] = "1"
    env["PYTHONWARNINGS"] = "ignore"
    out = tempfile.TemporaryFile(mode="w+")
    err = tempfile.TemporaryFile(mode="w+")
    p = subprocess.Popen([sys.executable, os.path.abspath(__file__)] + args, env=env, cwd=HERE,
                         stdin=subprocess.DEVNULL, stdout=out, stderr=err, start_new_session=True)
    return p, timeout, out, err


def _collect(pt):
    import signal
    p, timeout, fout, ferr = pt
    timed_out = False
    try:
        p.wait(timeout=timeout)
    except subprocess.TimeoutExpired:
        timed_out = True
    try:
        os.killpg(p.pid, signal.SIGKILL)     # the child and the pool / manager processes it started
    except OSError:
        pass
    p.wait()
    fout.seek(0)
    ferr.seek(0)
    out, err = fout.read(), ferr.read()
    fout.close()
    ferr.close()
    if timed_out:
        return dict(timeout=True, stderr=err[-1500:])
    i = out.rfind("@@C08@@")
    if i < 0:
        return dict(crashed=True, stderr=err[-1500:], stdout=out[-500:])
    return json.loads(out[i + 7:].strip().splitlines()[0])


def fact_key(f):
    return (f["role"], bool(f["multi"]), tuple(sorted(f["held"])), f["req"])


# ---- Python mirror of Model/Locks.v ------------------------------------------------------------
def supports(p, q):
    return p[3] in q[2] and not (set(p[2]) & set(q[2])) and (p[0] != q[0] or p[1])


def elim(ps):
    ps = list(ps)
    for _ in range(len(ps)):
        ps = [p for p in ps if any(supports(p, q) for q in ps)]
    return ps


def find_deadlock(ps, maxk=5):
    """smallest deadlock state (Locks.deadlock) among the facts, by exhaustive search"""
    ps = list(ps)

    def ok_pair(p, q):
        return not (set(p[2]) & set(q[2])) and (p[0] != q[0] or p[1]) and (p[0] != q[0] or q[1])
    for k in range(2, maxk + 1):
        def ext(cyc):
            if len(cyc) == k:
                return cyc if cyc[-1][3] in cyc[0][2] else None
            for q in ps:
                if cyc[-1][3] in q[2] and all(ok_pair(p, q) for p in cyc) and \
                        (q not in cyc or q[1]):
                    r = ext(cyc + [q])
                    if r:
                        return r
            return None
        for p in ps:
            r = ext([p])
            if r:
                return r
    return None


def signature(req_names):
    names = sorted(set(req_names))
    return ("abba:" if len(names) == 2 else "cycle:") + "/".join(names)


def coq_fact(f, rcode, lcode):
    import common
    return "mkPair %d %s %s %d" % (rcode[f[0]], common.cbool(f[1]), common.zs([lcode[h] for h in f[2]]), lcode[f[3]])


def write_facts(facts, rcode, lcode, kinds_note):
    import common
    os.makedirs(common.GEN, exist_ok=True)
    path = os.path.join(common.GEN, "Facts_C08.v")
    with open(path, "w") as f:
        f.write("(* generated by harness/pC08.py on every run from the acquisitions recorded on %s - do not edit *)\n"
                % common.REPO)
        f.write("From Bobo Require Import Base.Prelude Model.Locks Proofs.LocksProofs.\n")
        f.write("(* roles: %s *)\n" % ", ".join("%d = %s%s" % (c, r, " (multi)" if ROLE_MULTI.get(r, True) else "")
                                                for r, c in sorted(rcode.items(), key=lambda x: x[1])))
        f.write("(* locks: %s *)\n" % ", ".join("%d = %s" % (c, n) for n, c in sorted(lcode.items(), key=lambda x: x[1])))
        f.write("(* %s *)\n" % kinds_note)
        f.write("Definition facts : list pair := [\n  ")
        f.write(";\n  ".join(coq_fact(x, rcode, lcode) for x in facts))
        f.write("\n].\n")
        f.write("Theorem current_tree_deadlock_free : forall cyc, ~ deadlock facts cyc.\n")
        f.write("Proof. apply elim_sound. vm_compute. reflexivity. Qed.\n")
        f.write("Print Assumptions current_tree_deadlock_free.\n")
    return "Gen/Facts_C08.v"


def run(ctx, res):
    import common
    rng = ctx.rng
    res.rule = META["rule"]
    kinds_run = KINDS if ctx.quick else KINDS_THOROUGH
    recs = [_spawn(["--record", k], 400) for k in kinds_run]
    stress = _spawn(["--stress", "threads", "2.5" if ctx.quick else "12"], 240)
    races = [(k, _spawn(["--putrace", k], 90)) for k in ("threads", "threads+bounded")]
    orders = [(k, _spawn(["--startorder", k], 90)) for k in ("blocking",)]
    recs = [_collect(p) for p in recs]
    for k, pt in races:
        r = _collect(pt)
        res.note_case(("putrace", k), True)
        res.extra.setdefault("put_race", {})[k] = {x: r.get(x) for x in ("workers_met", "join_returned", "receiver_backlog", "timeout", "crashed")}
        f = put_race_failure(k, r)
        if f:
            res.failures.append(f)
        elif r.get("timeout") or r.get("crashed") or not r.get("queue_found"):
            res.errors.append("put-race scenario (%s) did not run: %s" % (k, json.dumps(r, default=repr)[:500]))

    for k, pt in orders:
        r = _collect(pt)
        res.note_case(("startorder", k), True)
        res.extra.setdefault("start_order", {})[k] = {x: r.get(x) for x in ("run_started", "getters_returned", "timeout", "crashed")}
        f = start_order_failure(k, r)
        if f:
            res.failures.append(f)
        elif r.get("timeout") or r.get("crashed"):
            res.errors.append("start-order scenario (%s) did not run: %s" % (k, json.dumps(r, default=repr)[:500]))

    facts = {}            # key -> dict(kinds, count, site)
    acq = {}
    names = set()
    entry = {}
    bad = False
    for kind, r in zip(kinds_run, recs):
        if r.get("timeout") or r.get("crashed") or r.get("stalled"):
            bad = True
            res.errors.append("recording workload (%s handler) did not finish: %s"
                              % (kind, json.dumps({k: r[k] for k in r if k != "facts_so_far"}, default=repr)[:600]))
            if r.get("wait_cycle"):
                res.failures.append(dict(
                    signature=signature([w["waits_for"] for w in r["wait_cycle"]]),
                    what="the recording workload itself deadlocked: " + "; ".join(
                        "%s holds %s, waits for %s" % (w["thread"], w["holds"], w["waits_for"]) for w in r["wait_cycle"]),
                    case=dict(mode="stress", kind=kind, seconds=5), detail=r["wait_cycle"]))
            r = r.get("facts_so_far") or {}
        for f in r.get("facts", []):
            d = facts.setdefault(fact_key(f), dict(kinds=[], count=0, site=f["site"]))
            d["kinds"].append(kind)
            d["count"] += f["count"]
        for role, n in r.get("acquisitions", {}).items():
            acq[role] = acq.get(role, 0) + n
        names |= set(r.get("lock_names", []))
        for role, eps in r.get("entrypoints", {}).items():
            for e in eps:
                if e not in entry.setdefault(role, []):
                    entry[role].append(e)
        for e in r.get("errors", []):
            res.errors.append("workload (%s): %s" % (kind, e))
        for w in r.get("queue_would_block", []):
            res.failures.append(dict(signature="blocking-queue-op:%s" % w[3], what="a queue operation would block "
                                     "while the thread holds %s" % w[2], case=dict(mode="record", kind=kind), detail=w))
        if "facts" in r:
            if r["local_notifications"] == 0 or r["remote_notifications"] == 0 or r["outgoing_sent"] == 0 \
                    or r["incoming_accepted"] == 0:
                res.errors.append("workload (%s) lost its grip: local=%s remote=%s sent=%s accepted=%s"
                                  % (kind, r["local_notifications"], r["remote_notifications"], r["outgoing_sent"],
                                     r["incoming_accepted"]))
            res.extra.setdefault("per_kind", {})[kind] = {
                k: r[k] for k in ("acquisitions", "reentrant", "instances", "same_name_nesting", "distinguished",
                                  "never_acquired", "queue_blocking_calls", "local_notifications", "remote_notifications",
                                  "incoming_accepted", "outgoing_sent", "flood_outgoing_size", "flood_refused")}
            if "+bounded" in kind and (r["flood_outgoing_size"] != BOUND or not r["flood_refused"]):
                res.errors.append("workload (%s): the flood phase did not fill the outgoing queue (size %s, refused %s)"
                                  % (kind, r["flood_outgoing_size"], r["flood_refused"]))
    flist = sorted(facts)
    roles = sorted(set(f[0] for f in flist))
    untagged = [r for r in roles if r.startswith("untagged")]
    if untagged:
        res.errors.append("threads without a role tag acquired bobocep locks: %s" % untagged)
    missing = [r for r in ("engine", "dist-main", "dist-incoming", "dist-outgoing", "feeder", "control", "pool-worker")
               if r not in roles]
    if missing and not bad:
        res.errors.append("no acquisition recorded for role(s) %s" % missing)
    rcode = {r: i + 1 for i, r in enumerate(roles)}
    lcode = {n: i + 1 for i, n in enumerate(sorted(set(names) | set(f[3] for f in flist) |
                                                  set(h for f in flist for h in f[2])))}

    # regenerated obligation
    rel = write_facts(flist, rcode, lcode, "systems recorded: %s; %d distinct facts" % (", ".join(kinds_run), len(flist)))
    ok, log = common.coqc(rel)
    res.gen_obligations.append(("Gen/Facts_C08.v:current_tree_deadlock_free", ok, log))
    if ok:
        res.assumptions += ["Gen/Facts_C08.v: " + a for a in common.parse_assumptions(log)]

    # oracle 1: the residue of the elimination -> concrete cycle -> real threads
    surv = elim(flist)
    res.extra["survivors"] = [dict(role=s[0], held=list(s[2]), req=s[3], site=facts[s]["site"]) for s in surv]
    for f in flist:
        res.note_case(f, len(f[2]) > 0)
        res.count("role_" + f[0])
        res.count("held_%d" % min(len(f[2]), 4))
    if surv:
        cyc = find_deadlock(surv)
        if cyc is None:
            res.extra["cycle"] = "survivors support each other but no deadlock state with <= 5 threads exists"
        else:
            kinds = [k for k in kinds_run if all(k in facts[c]["kinds"] for c in cyc)] or [facts[cyc[0]]["kinds"][0]]
            case = dict(mode="force", kind=kinds[0],
                        cycle=[dict(role=c[0], multi=c[1], held=list(c[2]), req=c[3], site=facts[c]["site"]) for c in cyc])
            for attempt in range(3):        # the threads must all reach their parking places: retried when they do not
                r = _collect(_spawn(["--force", kinds[0], json.dumps(case["cycle"])], 60))
                if r.get("hung"):
                    break
            res.extra["forced"] = r
            res.extra["forcing_attempts"] = attempt + 1
            if r.get("hung"):
                # described by what the threads are really blocked on (another cycle of the residue may strike
                # before every thread has reached its parking place)
                wc = r["wait_cycle"]
                res.failures.append(dict(
                    signature=signature([w["waits_for"] for w in wc]),
                    what="deadlock forced with real threads: " + "; ".join(
                        "%s holds %s and waits for %s" % (w["thread"], w["holds"], w["waits_for"]) for w in wc),
                    case=case, detail=dict(parked_all=r.get("parked"), wait_cycle=wc)))
    # oracle 2: free-running real threads, wait-for cycle watchdog (no model involved)
    s = _collect(stress)
    res.extra["stress"] = {k: s.get(k) for k in ("hung", "wait_cycle", "progress", "timeout", "crashed", "stalled")}
    if s.get("hung"):
        res.failures.append(dict(
            signature=signature([w["waits_for"] for w in s["wait_cycle"]]),
            what="free-running threads deadlocked: " + "; ".join(
                "%s holds %s, waits for %s" % (w["thread"], w["holds"], w["waits_for"]) for w in s["wait_cycle"]),
            case=dict(mode="stress", kind="threads", seconds=8), detail=s["wait_cycle"]))
    elif s.get("timeout") or s.get("crashed") or s.get("stalled"):
        res.errors.append("stress child: %s" % json.dumps(s, default=repr)[:400])
    res.failures.sort(key=lambda f: (f["case"].get("mode") != "force", len(json.dumps(f["case"]))))

    # correspondence: the elimination used above (Python) against Model.Locks.elim, on the recorded facts,
    # on each handler kind's facts, on the facts minus one, and on random small fact lists
    cases = [flist] + [[f for f in flist if k in facts[f]["kinds"]] for k in kinds_run]
    for i in range(0, len(flist), max(1, len(flist) // (12 if ctx.quick else 40))):
        cases.append(flist[:i] + flist[i + 1:])
    rcase, lcase = dict(rcode), dict(lcode)
    for _ in range(300 if ctx.quick else 3000):
        nl, nr = rng.randint(2, 5), rng.randint(1, 4)
        ps = []
        for _ in range(rng.randint(1, 7)):
            held = sorted(rng.sample(range(1, nl + 1), rng.randint(0, min(3, nl - 1))))
            req = rng.choice([x for x in range(1, nl + 1) if x not in held])
            role = rng.randint(1, nr)
            ps.append((role, role == nr and rng.random() < 0.7, tuple(held), req))
        cases.append(ps)
    coq_cases = []
    for ci, ps in enumerate(cases):
        recorded = ci < len(cases) - (300 if ctx.quick else 3000)
        rc = rcase if recorded else {i: i for i in range(1, 9)}
        lc = lcase if recorded else {i: i for i in range(1, 9)}
        sv = elim(ps)
        exp = [len(sv)] + [i for i, p in enumerate(ps) if p in sv]
        term = common.clist(["(%d, %s, %s, %d)" % (rc[p[0]], common.cbool(p[1]), common.zs([lc[h] for h in p[2]]),
                                                    lc[p[3]]) for p in ps])
        coq_cases.append((term, exp))
        if not recorded:
            # the theorems, tried: an exhaustively found deadlock state is among the survivors
            dl = find_deadlock(ps, 4)
            rounds2 = len(sv) < len([p for p in ps if any(supports(p, q) for q in ps)])
            res.note_case(("rnd", tuple(ps)), bool(sv) or rounds2)
            res.count("random_%s" % ("deadlock" if dl else ("survivors-no-deadlock" if sv else "eliminated")))
            if dl and not all(p in sv for p in dl):
                res.mismatches.append(dict(case=ps, impl="deadlock %s" % (dl,), model="eliminated"))
    mism, errs = common.coq_run_cases("C08", "Model.Locks", "run_C08", "list (Z * bool * list Z * Z)", coq_cases)
    res.errors += errs
    res.traces_validated = len(coq_cases) - len(mism)
    for idx, model_out in mism[:10]:
        res.mismatches.append(dict(case=cases[idx], impl=coq_cases[idx][1], model=model_out))

    res.samples = [dict(role=f[0], multi=f[1], held=list(f[2]), req=f[3], site=facts[f]["site"],
                        seen_with=facts[f]["kinds"]) for f in flist if len(f[2]) >= 2][:6]
    res.extra.update(entrypoints=entry, acquisitions_recorded=acq, acquisitions_total=sum(acq.values()),
                     distinct_facts=len(flist), lock_names=sorted(lcode), roles=rcode,
                     eliminated=len(flist) - len(surv),
                     queue_operations="all queue accesses in bobocep are get_nowait / put_nowait or put after a "
                                      "full() test under the owner's lock (read: receiver, decider, producer, "
                                      "forwarder, handler, tcp); blocking-capable calls are counted per kind",
                     non_findings=["dist.join() joins the incoming/outgoing threads while holding _lock_local",
                                   "handler.join() joins the pool while holding the handler lock"])


def replay(obj):
    case = obj.get("case") or {}
    mode = case.get("mode")
    if mode == "force":
        print("forcing the cycle with real threads (%s handler):" % case["kind"])
        for c in case["cycle"]:
            print("  thread %-14s holds %-40s then requests %s   [%s]" % (c["role"], c["held"], c["req"], c.get("site")))
        r = _collect(_spawn(["--force", case["kind"], json.dumps(case["cycle"])], 40))
    elif mode == "stress":
        print("free-running threads, wait-for watchdog (%s handler, %s s)" % (case["kind"], case.get("seconds", 8)))
        r = _collect(_spawn(["--stress", case["kind"], str(case.get("seconds", 8))], 60))
    elif mode == "startorder":
        r = _collect(_spawn(["--startorder", case["kind"]], 90))
        f = start_order_failure(case["kind"], r)
        print("engine thread started before the distributed component's run():", json.dumps({k: r.get(k) for k in ("run_started", "getters_returned", "timeout", "crashed")}))
        print(f["what"] if f else "run() started and the getters return")
        return 1 if f else 0
    elif mode == "putrace":
        r = _collect(_spawn(["--putrace", case["kind"]], 90))
        f = put_race_failure(case["kind"], r)
        print("engine on its run() thread, multithreaded handler (%s), two actions finish together while close()+join() run" % case["kind"])
        print("implementation:", json.dumps({k: r.get(k) for k in ("workers_met", "join_returned", "receiver_backlog", "timeout", "crashed")}))
        print(f["what"] if f else "join() returned and the engine goes on consuming data")
        return 1 if f else 0
    elif mode == "record" and case.get("kind"):
        print("recorded workload (%s): every role once, then (bounded systems) the outgoing queue is filled while "
              "the outgoing thread takes nothing" % case["kind"])
        r = _collect(_spawn(["--record", case["kind"]], 90))
        wb = r.get("queue_would_block") or []
        for w in wb:
            print("  %s() with no timeout on a full/empty queue: role %s, holding %s, at %s" % tuple(w[:4]))
        if r.get("stalled"):
            print("  workload stalled:", r["stalled"])
        bad = bool(wb or (r.get("stalled") and r.get("wait_cycle")))
        print("a thread waits for a queue while holding locks the other side needs" if bad
              else "no waiting queue operation reproduced")
        return 1 if bad else 0
    else:
        print(json.dumps(obj, indent=1)[:3000])
        return 0
    print("implementation:", json.dumps({k: r.get(k) for k in ("hung", "parked", "wait_cycle", "progress", "stalled",
                                                                "timeout")}, indent=1))
    if mode == "force":
        ps = [(c["role"], c["multi"], tuple(c["held"]), c["req"]) for c in case["cycle"]]
        print("model         : elim leaves %d of %d facts; deadlock state: %s" % (len(elim(ps)), len(ps),
                                                                                 bool(find_deadlock(ps))))
    hung = bool(r.get("hung") or (r.get("stalled") and r.get("wait_cycle")))
    print("threads are blocked on each other for good" if hung else "no deadlock reproduced")
    return 1 if hung else 0


if __name__ == "__main__":
    child_main(sys.argv[1:])
