"""Shared machinery for the /verif checks: Coq build, case evaluation inside Coq,
evidence, known findings, violation reporting."""
import fcntl
import hashlib
import json
import os
import random
import re
import subprocess
import sys
import time
from concurrent.futures import ThreadPoolExecutor

VERIF = os.path.dirname(os.path.dirname(os.path.abspath(__file__)))
REPO = os.environ.get("VERIF_REPO", "/repo")
COQ = os.path.join(VERIF, "coq")
GEN = os.path.join(COQ, "Gen")
EVID = os.environ.get("VERIF_EVID", os.path.join(VERIF, "evidence"))   # (tools/try_mutant.sh redirects it)
REPLAY = os.path.join(EVID, "replay")
NPROC = int(os.environ.get("VERIF_JOBS", "16"))
COQ_TIMEOUT = int(os.environ.get("VERIF_COQ_TIMEOUT", "900"))

if REPO not in sys.path:
    sys.path.insert(0, REPO)


# ---------------------------------------------------------------- Coq terms
def zs(xs):
    """list[int] -> Coq list Z literal"""
    return "[" + "; ".join(("(%d)" % x) if x < 0 else str(x) for x in xs) + "]"


def zz(x):
    return "(%d)" % x if x < 0 else str(x)


def cbool(b):
    return "true" if b else "false"


def clist(items):
    return "[" + "; ".join(items) + "]"


def cnat(n):
    return "%d%%nat" % n


# ---------------------------------------------------------------- building
class BuildLock:
    def __enter__(self):
        self.f = open(os.path.join(VERIF, ".build.lock"), "w")
        fcntl.flock(self.f, fcntl.LOCK_EX)
        return self

    def __exit__(self, *a):
        fcntl.flock(self.f, fcntl.LOCK_UN)
        self.f.close()


def _big_stack():
    """coqc parses multi-megabyte case literals recursively: lift the stack limit for the children"""
    import resource
    try:
        resource.setrlimit(resource.RLIMIT_STACK, (resource.RLIM_INFINITY, resource.RLIM_INFINITY))
    except (ValueError, OSError):
        try:
            soft, hard = resource.getrlimit(resource.RLIMIT_STACK)
            resource.setrlimit(resource.RLIMIT_STACK, (hard, hard))
        except (ValueError, OSError):
            pass


def _sh(cmd, cwd, timeout):
    try:
        p = subprocess.run(cmd, cwd=cwd, shell=isinstance(cmd, str), timeout=timeout, preexec_fn=_big_stack,
                           stdout=subprocess.PIPE, stderr=subprocess.STDOUT, text=True)
        return p.returncode, p.stdout
    except subprocess.TimeoutExpired as e:
        out = e.stdout.decode() if isinstance(e.stdout, bytes) else (e.stdout or "")
        return 124, out + "\n[timeout after %ss]" % timeout


def coq_sources():
    out = []
    for d in ("Base", "Model", "Proofs", "Properties"):
        p = os.path.join(COQ, d)
        if os.path.isdir(p):
            for f in sorted(os.listdir(p)):
                if f.endswith(".v"):
                    out.append("%s/%s" % (d, f))
    return out


def coq_make(targets=None):
    """(Re)generate _CoqProject + Makefile and build.  Full .vo build, serialised by a lock.
    targets: list of .vo paths relative to coq/ (None = everything)."""
    with BuildLock():
        srcs = coq_sources()
        proj = "-Q . Bobo\n-arg -w -arg -all\n" + "\n".join(srcs) + "\n"
        pj = os.path.join(COQ, "_CoqProject")
        old = open(pj).read() if os.path.exists(pj) else None
        if old != proj or not os.path.exists(os.path.join(COQ, "Makefile")):
            open(pj, "w").write(proj)
            rc, out = _sh("coq_makefile -f _CoqProject -o Makefile", COQ, 120)
            if rc != 0:
                return False, out
        tgt = " ".join(targets) if targets else ""
        rc, out = _sh("timeout %d make -j%d %s" % (COQ_TIMEOUT, NPROC, tgt), COQ, COQ_TIMEOUT + 30)
        return rc == 0, out


def coqc(relpath, timeout=COQ_TIMEOUT):
    """Compile one file under coq/ (full check) and return (ok, output)."""
    if relpath.startswith("Gen/"):
        head = "".join(l for l in open(os.path.join(COQ, relpath)) if "Require" in l)
        berr = ensure_built(head)
        if berr:
            return False, berr[0]
    rc, out = _sh(["timeout", str(timeout), "coqc", "-noglob", "-Q", ".", "Bobo", "-w", "-all", relpath], COQ,
                  timeout + 30)
    return rc == 0, out


def theorems_in(relpath):
    src = open(os.path.join(COQ, relpath)).read()
    src = re.sub(r"\(\*.*?\*\)", "", src, flags=re.S)
    return re.findall(r"^\s*(?:Theorem|Lemma|Corollary|Example)\s+([A-Za-z0-9_']+)", src, flags=re.M)


def parse_assumptions(out):
    """Split coqc output of 'Print Assumptions' commands into one string per command."""
    res = []
    cur = None
    for line in out.splitlines():
        if line.startswith("Closed under the global context"):
            res.append("Closed under the global context")
            cur = None
        elif line.startswith("Axioms:") or line.startswith("Section Variables:"):
            cur = [line]
            res.append(cur)
        elif cur is not None and (line.startswith(" ") or ":" in line):
            cur.append(line)
        else:
            cur = None
    return [r if isinstance(r, str) else " ".join(x.strip() for x in r) for r in res]


def prove(prop_files):
    """Build the models/proofs and re-check the property files, capturing Print Assumptions.
    Returns dict(ok, obligations, discharged, theorems, assumptions, log, failed)."""
    targets = [f[:-2] + ".vo" for f in prop_files]
    ok, log = coq_make(targets)
    theorems, assumptions, failed, discharged = [], [], [], 0
    for f in prop_files:
        ths = theorems_in(f)
        theorems += ["%s:%s" % (f, t) for t in ths]
        if not ok:
            continue
        with BuildLock():
            ok1, out = coqc(f)
        if ok1:
            discharged += len(ths)
            assumptions += parse_assumptions(out)
        else:
            failed.append(f)
            log += "\n" + out
    if not ok:
        failed = list(prop_files)
    return dict(ok=ok and not failed, obligations=len(theorems), discharged=discharged,
                theorems=theorems, assumptions=sorted(set(assumptions)), log=log, failed=failed)


# ---------------------------------------------------------------- evaluating cases inside Coq
_MISM = re.compile(r"\(\s*(\d+)%nat\s*,\s*\[([^\]]*)\]\s*\)")


def _parse_mismatches(out):
    flat = " ".join(out.split())
    m = re.search(r"=\s*(.*?):\s*list \(nat \* list Z\)", flat)
    if not m:
        return None
    body = m.group(1)
    res = []
    for mm in _MISM.finditer(body):
        vals = [int(x.replace("%Z", "").replace("(", "").replace(")", "").strip())
                for x in mm.group(2).split(";") if x.strip()]
        res.append((int(mm.group(1)), vals))
    return res


def ensure_built(imports, preamble=""):
    """make the .vo of every module a generated file imports (they need not be dependencies of the property
    files, so the property build alone can leave them stale after a model change)"""
    mods = set(re.findall(r"\b((?:Base|Model|Proofs|Properties)\.[A-Za-z0-9_]+)", imports + " " + preamble))
    tg = sorted(m.replace(".", "/") + ".vo" for m in mods if os.path.exists(os.path.join(COQ, m.replace(".", "/") + ".v")))
    if not tg:
        return []
    ok, out = coq_make(tg)
    return [] if ok else ["building %s failed: %s" % (" ".join(tg), out[-1500:])]


def gen_gc(max_age_s=3 * 3600):
    """generated case files of disagreeing shards are kept for inspection: drop the ones older than a few hours
    (disk space is limited; a replay regenerates what it needs)"""
    import time
    now = time.time()
    try:
        for f in os.listdir(GEN):
            p = os.path.join(GEN, f)
            try:
                if (f.startswith("cases_") or f.startswith(".cases_") or f.startswith("eval_") or f.startswith(".eval_")) \
                        and now - os.path.getmtime(p) > max_age_s:
                    os.unlink(p)
            except OSError:
                pass
    except OSError:
        pass


def coq_run_cases(tag, imports, func, intype, cases, shard=300, preamble=""):
    """cases: list of (coq_input_term, expected list[int]).
    Evaluates `func input` inside Coq (vm_compute) for every case and returns
    (list of (case index, model output) for every disagreement, errors list)."""
    os.makedirs(GEN, exist_ok=True)
    gen_gc()
    berr = ensure_built(imports, preamble)
    if berr:
        return [], berr
    tag = "%s_p%d" % (tag, os.getpid())          # concurrent checks (other trees, other tiers) must not share files
    # at most `shard` cases and about 700 kB of text per generated file
    shards, cur, size = [], [], 0
    for a, e in cases:
        n = len(a) + 6 * len(e)
        if cur and (len(cur) >= shard or size + n > 700000):
            shards.append(cur)
            cur, size = [], 0
        cur.append((a, e))
        size += n
    if cur:
        shards.append(cur)
    names = []
    for k, sh in enumerate(shards):
        name = "cases_%s_%d" % (tag, k)
        names.append(name)
        with open(os.path.join(GEN, name + ".v"), "w") as f:
            f.write("From Bobo Require Import Base.Prelude %s.\n" % imports)
            f.write(preamble + "\n")
            f.write("Definition cases : list (%s * list Z) := [\n" % intype)
            f.write(";\n".join("  (%s, %s)" % (a, zs(e)) for a, e in sh))
            f.write("\n].\nEval vm_compute in mismatches (%s) cases.\n" % func)

    def one(name):
        return _sh(["timeout", str(COQ_TIMEOUT), "coqc", "-noglob", "-Q", ".", "Bobo", "-w", "-all",
                    "Gen/%s.v" % name], COQ, COQ_TIMEOUT + 30)

    with ThreadPoolExecutor(max_workers=NPROC) as ex:
        outs = list(ex.map(one, names))
    mism, errors = [], []
    offsets, bad_shards = [0], set()
    for sh in shards:
        offsets.append(offsets[-1] + len(sh))
    for k, (rc, out) in enumerate(outs):
        if rc != 0:
            errors.append("shard %d: coqc failed: %s" % (k, out[-2000:]))
            continue
        r = _parse_mismatches(out)
        if r is None:
            errors.append("shard %d: unparsable output: %s" % (k, out[-1000:]))
            continue
        for idx, vals in r:
            mism.append((offsets[k] + idx, vals))
            bad_shards.add(k)
    keep = set(sorted(k for k in range(len(names)) if k in bad_shards or outs[k][0] != 0)[:3])
    for k, name in enumerate(names):   # keep the sources of (at most three) disagreeing shards only
        exts = [".vo", ".vos", ".vok", ".glob", ".aux"] + ([] if k in keep else [".v"])
        for ext in exts:
            for p in (os.path.join(GEN, name + ext), os.path.join(GEN, "." + name + ext)):
                if os.path.exists(p):
                    os.unlink(p)
    return mism, errors


def coq_eval(tag, imports, expr, timeout=COQ_TIMEOUT):
    """Evaluate one expression of type list Z inside Coq; returns list[int] or None."""
    os.makedirs(GEN, exist_ok=True)
    berr = ensure_built(imports)
    if berr:
        return None, berr[0]
    name = "eval_%s_p%d" % (tag, os.getpid())
    with open(os.path.join(GEN, name + ".v"), "w") as f:
        f.write("From Bobo Require Import Base.Prelude %s.\n" % imports)
        f.write("Eval vm_compute in (%s).\n" % expr)
    rc, out = _sh(["timeout", str(timeout), "coqc", "-noglob", "-Q", ".", "Bobo", "-w", "-all", "Gen/%s.v" % name],
                  COQ, timeout + 30)
    if rc != 0:
        return None, out
    flat = " ".join(out.split())
    m = re.search(r"=\s*\[(.*?)\]\s*:\s*list Z", flat)
    if not m:
        return None, out
    return [int(x.replace("%Z", "").replace("(", "").replace(")", "").strip())
            for x in m.group(1).split(";") if x.strip()], out


# ---------------------------------------------------------------- context / results
class Ctx:
    def __init__(self, prop, tier, seed):
        self.prop, self.tier, self.seed = prop, tier, seed
        self.rng = random.Random((seed * 1000003) ^ int(hashlib.sha256(prop.encode()).hexdigest()[:8], 16))
        self.quick = tier == "quick"


class Result:
    def __init__(self):
        self.evaluations = 0
        self.nontrivial = set()      # hashes of distinct non-trivial cases
        self.rule = ""
        self.samples = []
        self.mismatches = []         # correspondence disagreements: dict(case=..., impl=..., model=...)
        self.failures = []           # property failures on the implementation: dict(signature, what, case)
        self.errors = []             # machinery errors (Coq evaluation failed etc.)
        self.distribution = {}
        self.traces_validated = 0
        self.gen_obligations = []    # (name, ok, log) regenerated obligations
        self.assumptions = []
        self.exhaustive = False
        self.extra = {}

    def note_case(self, key, nontrivial):
        self.evaluations += 1
        if nontrivial:
            self.nontrivial.add(hashlib.sha1(repr(key).encode()).hexdigest())

    def count(self, name, k=1):
        self.distribution[name] = self.distribution.get(name, 0) + k


def load_known():
    p = os.path.join(VERIF, "known_findings.json")
    if not os.path.exists(p):
        return []
    return json.load(open(p)).get("findings", [])


def write_replay(prop, obj):
    os.makedirs(REPLAY, exist_ok=True)
    s = json.dumps(obj, sort_keys=True, default=repr)
    h = hashlib.sha1(s.encode()).hexdigest()[:10]
    p = os.path.join(REPLAY, "%s-%s.json" % (prop, h))
    with open(p, "w") as f:
        json.dump(obj, f, indent=1, sort_keys=True, default=repr)
    return p


def write_evidence(prop, obj):
    os.makedirs(EVID, exist_ok=True)
    p = os.path.join(EVID, "%s.json" % prop)
    try:
        import jsonschema
        schema = json.load(open("/root/.vp/EVIDENCE.schema.json"))
        jsonschema.validate(obj, schema)
    except (ImportError, FileNotFoundError):
        pass
    except Exception as e:   # still write it; say so
        print("warning: evidence does not validate: %s" % str(e)[:200], file=sys.stderr)
    with open(p, "w") as f:
        json.dump(obj, f, indent=1, default=repr)
    return p


def impl_modules_fresh():
    """Drop any cached bobocep modules so that the implementation is re-imported from REPO."""
    for k in list(sys.modules):
        if k == "bobocep" or k.startswith("bobocep."):
            del sys.modules[k]


def now():
    return time.time()
