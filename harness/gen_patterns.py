"""Generators of patterns, configurations and event streams shared by C01, C12, C13, C14, C19, C02-C05."""
import itertools

KINDS = {  # legal flag combinations (strict, loop, neg, opt)
    "S": (True, False, False, False), "R": (False, False, False, False),
    "SL": (True, True, False, False), "RL": (False, True, False, False),
    "SN": (True, False, True, False), "RN": (False, False, True, False),
    "RO": (False, False, False, True)}
INNER = ["S", "R", "SL", "RL", "SN", "RN", "RO"]
ENDS = ["S", "R"]


def blk(preds, kind, group=0):
    s, l, n, o = KINDS[kind]
    return dict(preds=list(preds), group=group, strict=s, loop=l, neg=n, opt=o)


def shapes(maxblocks):
    """all legal flag shapes with up to maxblocks blocks"""
    out = []
    for n in range(1, maxblocks + 1):
        if n == 1:
            out += [[a] for a in ENDS]
        else:
            for a in ENDS:
                for inner in itertools.product(INNER, repeat=n - 2):
                    for z in ENDS:
                        out.append([a] + list(inner) + [z])
    return out


def assign(shape, scheme, groups="distinct"):
    """predicates per block.  scheme 0: block i accepts symbol i+1; 1: block i accepts {i+1, i+2}
    (overlaps with its successor); 2: two or three predicates per block [i+1, 4]."""
    blocks = []
    for i, k in enumerate(shape):
        if scheme == 0:
            preds = [("deq", i + 1)]
        elif scheme == 1:
            preds = [("din", [i + 1, i + 2])]
        else:
            preds = [("deq", i + 1), ("deq", 4)] + ([("const", False)] if i % 2 else [])
        g = {"distinct": i + 1, "shared": 1, "empty": 0}[groups]
        blocks.append(blk(preds, k, g))
    return blocks


def pattern(name, blocks, pre=(), halt=(), single=False):
    return dict(name=name, blocks=blocks, pre=list(pre), halt=list(halt), single=single)


def streams(alphabet, maxlen):
    for n in range(1, maxlen + 1):
        for s in itertools.product(alphabet, repeat=n):
            yield list(s)


def events(data, start=0, ts=None):
    """simple events: id = position; ts = position unless an assignment of (distinct) timestamps is given -
    events carry their own timestamps, so arrival order and timestamp order need not agree"""
    return [(start + i, start + (i if ts is None else ts[i]), 0, d, 0, 0) for i, d in enumerate(data)]


def shuffled_ts(rng, n):
    """distinct timestamps 0..n-1 in an order that is mostly increasing with a few late arrivals"""
    ts = list(range(n))
    for _ in range(rng.randint(1, max(1, n // 2))):
        i, j = rng.randrange(n), rng.randrange(n)
        ts[i], ts[j] = ts[j], ts[i]
    return ts


VARIANTS = [  # (pre, halt, single)
    ((), (), False),
    ((), (("deq", 4),), False),
    ((("not", ("deq", 4)),), (), False),
    ((), (), True),
    ((), (("hsz", 3),), True),
    ((("const", True), ("not", ("deq", 4))), (("const", False), ("gsz", 1, 2)), False),
]


def rand_pred(rng, nblocks, depth=0):
    r = rng.random()
    if depth < 2 and r < 0.15:
        return (rng.choice(["and", "or"]), rand_pred(rng, nblocks, depth + 1), rand_pred(rng, nblocks, depth + 1))
    if depth < 2 and r < 0.2:
        return ("not", rand_pred(rng, nblocks, depth + 1))
    c = rng.random()
    if c < 0.45:
        return ("deq", rng.randint(1, 5))
    if c < 0.7:
        return ("din", sorted(rng.sample(range(1, 6), rng.randint(1, 3))))
    if c < 0.78:
        return ("hsz", rng.randint(0, 4))
    if c < 0.86:
        return ("gsz", rng.randint(0, 3), rng.randint(0, 2))
    if c < 0.92:
        return ("lastplus", rng.randint(0, 3), rng.choice([0, 1, -1]))
    if c < 0.955:
        return ("tsgap", rng.randint(0, 4))
    if c < 0.985:
        return ("tsfirst", rng.randint(1, 6))
    return ("const", rng.random() < 0.5)


def rand_pattern(rng, name, maxblocks=6):
    n = rng.randint(1, maxblocks)
    shape = [rng.choice(ENDS)] if n == 1 else \
        [rng.choice(ENDS)] + [rng.choice(INNER) for _ in range(n - 2)] + [rng.choice(ENDS)]
    blocks = [blk([rand_pred(rng, n) for _ in range(rng.choice([1, 1, 2, 3]))], k, rng.randint(0, 3)) for k in shape]
    pre = [rand_pred(rng, n) for _ in range(rng.choice([0, 0, 0, 1, 2]))]
    if pre and rng.random() < 0.7:          # most preconditions should usually hold
        pre = [("or", p, ("const", True)) if rng.random() < 0.5 else ("not", ("deq", 5)) for p in pre]
    halt = [rand_pred(rng, n) for _ in range(rng.choice([0, 0, 0, 1, 2]))]
    if halt and rng.random() < 0.7:
        halt = [("and", p, ("deq", 5)) for p in halt]
    return pattern(name, blocks, pre, halt, rng.random() < 0.25)


def rand_config(rng, maxcache=None, idbase=1000, maxblocks=6):
    nph = rng.choice([1, 1, 2, 3])
    phen, name = [], 1
    shared = rng.random() < 0.35        # pattern names are unique within a phenomenon only: reuse them across phenomena
    for k in range(1, nph + 1):
        ps = []
        if shared:
            name = 1
        for _ in range(rng.choice([1, 1, 2])):
            ps.append(rand_pattern(rng, name, maxblocks))
            name += 1
        phen.append((k, ps))
    if maxcache is None:
        maxcache = rng.choice([0, 0, 50])
    return dict(phen=phen, maxcache=maxcache, idbase=idbase)


def add_raises(rng, cfg, n=None, span=12):
    """wrap n randomly chosen predicates / preconditions / haltconditions of the configuration so that they raise on
    the events with some timestamps (a predicate that fails on malformed input)"""
    slots = []
    for _ph, ps in cfg["phen"]:
        for p in ps:
            slots += [(b["preds"], i) for b in p["blocks"] for i in range(len(b["preds"]))]
            slots += [(p[k], i) for k in ("pre", "halt") for i in range(len(p[k]))]
    for lst, i in rng.sample(slots, min(len(slots), n or rng.choice([1, 1, 2, 3]))):
        lst[i] = ("raiseon", sorted(rng.sample(range(span), rng.randint(1, 4))), lst[i])
    return cfg


def rand_stream(rng, n):
    return [rng.randint(1, 5) for _ in range(n)]


# ---------- remote records / mixed local-remote operation sequences ----------
import predlang as _PL


def first_matches(cfg, et):
    """the patterns for which the local generator draws a run id for this event, in order
    (first block against the empty history)"""
    import ref_oracle as RO
    e = RO.FakeE(et)
    out = []
    for ph, ps in cfg["phen"]:
        for p in ps:
            for q in p["blocks"][0]["preds"]:
                try:
                    if _PL.ev_eval(q, e, RO.H([])):
                        out.append((ph, p))
                        break
                except _PL.PredRaise:
                    pass
    return out


def rand_record(rng, cfg, idmap, evpool, kind, unknown=0.05):
    """a run record as a peer might send it: ahead / equal / behind / unknown pattern.  Every run id belongs to
    one pattern for the whole case (idmap); kind 'upd': an active position (1..nblocks-1); 'comp': the final
    position; 'halt': any position"""
    if rng.random() < unknown:
        return dict(id=rng.choice([2990, 2991]), ph=1, pat=99, idx=1, hist=[(0, [rng.choice(evpool)])])
    ids = [i for i, (ph, p) in idmap.items() if kind != "upd" or len(p["blocks"]) > 1]
    if not ids:
        return None
    rid = rng.choice(ids)
    ph, p = idmap[rid]
    nb = len(p["blocks"])
    if kind == "upd":
        idx = rng.randint(1, nb - 1)
    elif kind == "comp":
        idx = nb
    else:
        idx = rng.randint(1, max(1, nb - 1))
    hist = []
    for j in range(idx):
        b = p["blocks"][min(j, nb - 1)]
        es = [rng.choice(evpool)] + ([rng.choice(evpool)] if (b["loop"] and rng.random() < 0.6) else [])
        for g, l in hist:
            if g == b["group"]:
                l.extend(es)
                break
        else:
            hist.append((b["group"], list(es)))
    return dict(id=rid, ph=ph, pat=p["name"], idx=idx, hist=hist)


def rand_note(rng, cfg, idmap, evpool, multi_single=False):
    n = dict(comp=[], halt=[], upd=[])
    for _ in range(rng.choice([1, 1, 1, 2, 3, 3] if multi_single else [1, 1, 1, 2, 3])):
        k = rng.choice(["upd", "upd", "upd", "comp", "halt"])
        r = rand_record(rng, cfg, idmap, evpool, k)
        if r is None or any(r["id"] == x["id"] for x in n[k]):
            continue
        single = r["id"] in idmap and idmap[r["id"]][1]["single"]
        if single and not multi_single and k == "upd" and any(x["pat"] == r["pat"] and x["ph"] == r["ph"] for x in n["upd"]):
            continue      # a peer never has two active runs of a singleton pattern
        n[k].append(r)
    if rng.random() < 0.1 and n["upd"]:           # a merged backlog: the same run also finished
        k = rng.choice(["comp", "halt"])
        if all(x["id"] != n["upd"][0]["id"] for x in n[k]):
            n[k].append(dict(n["upd"][0]))
    return n


def rand_ops(rng, cfg, nlocal, premote=0.35, remote_ids=(2000, 2001, 2002), multi_single=False):
    """interleaving of local events and remote notes; remote records name run ids the local generator has
    already produced (idbase+k, k < drawn) or ids of another instance - never an id it will produce later;
    a run id is tied to one pattern"""
    ops, pos, drawn = [], 0, 0
    pats = [(ph, p) for ph, ps in cfg["phen"] for p in ps]
    idmap = {rid: rng.choice(pats) for rid in remote_ids}
    evpool = [(900 + k, 50 + k, 0, (k % 5) + 1, 0, 0) for k in range(6)]
    while pos < nlocal:
        if rng.random() < premote:
            live = {i: v for i, v in idmap.items() if i >= 2000 or i >= cfg["idbase"] + drawn - 4}
            ops.append(("remote", rand_note(rng, cfg, live, evpool, multi_single)))
        else:
            et = (pos, pos, 0, rng.randint(1, 5), 0, 0)
            ops.append(("local", et))
            for php in first_matches(cfg, et):
                idmap[cfg["idbase"] + drawn] = php
                drawn += 1
            pos += 1
    return ops
