"""Single-threaded driver for the OUTGOING side of bobocep.dist.tcp.BoboDistributedTCP.

Builds a real BoboDistributedTCP (2..3 devices, stub decider with a scripted snapshot()) WITHOUT starting
its threads and executes exactly n iterations of the real `_tcp_outgoing` loop body by answering the
attribute `_thread_closed` from a budget.  The module globals `bobocep.dist.tcp.socket` and
`bobocep.dist.tcp.time` are replaced (only while an operation runs) by fakes:

* socket: connect/sendall outcomes are scripted per destination
      0 delivered | 1 connect raises TimeoutError | 2 connect raises OSError
      3 sendall raises TimeoutError after the bytes were handed over | 4 sendall raises OSError after them
  every connect and every byte string handed to sendall is recorded; the bytes are decrypted with the same
  crypto object and decoded to (type, flags, run ids completed/halted/updated).
* time: time() returns a scripted integer; the script may set a new reading per destination, applied when
  that destination is connected to (so the `now` read after `_tcp_send` is the scripted one).

Peers are addressed by index 0.. in the order in which the outgoing loop visits them (dict order of the
devices, this instance skipped).  Run records are real BoboRunSerial objects with run id "r<k>"; the driver
speaks integers k.  Only public BoboDeviceManager accessors are used to set and read peer state; the private
names touched are _thread_closed, _devices, _tcp_outgoing, _tcp_incoming_handle_client, _running,
_queue_outgoing (drain only), as DESIGN.md 2.3/4c allow.

Used by pC15; meant to be extended for C06/C07 (yield points are not provided here).
"""
import json
import logging

SYNC, PING, RESYNC = 0, 1, 2
OUT_OK, OUT_CONNECT_TIMEOUT, OUT_CONNECT_ERROR, OUT_SEND_TIMEOUT, OUT_SEND_ERROR = 0, 1, 2, 3, 4
AES_KEY = "0123456789abcdef"
SELF_URN = "self"


def err_of(outcome):
    """the value _tcp_send is documented to return for a scripted outcome"""
    return 0 if outcome == 0 else (1 if outcome in (1, 3) else 2)


def visible(outcome):
    return outcome in (0, 3, 4)


class FakeClock:
    """stands in for the module `time` inside bobocep.dist.tcp"""

    def __init__(self):
        self.cur = 0

    def time(self):
        return self.cur

    def sleep(self, _s):
        pass

    # the other clocks of the module `time`, consistent with time(): the monotonic clock runs at the same rate from
    # an origin of its own - a host that booted a few seconds before the clock was first asked (a valid environment)
    def monotonic(self):
        if not hasattr(self, "boot"):
            self.boot = self.cur - 7
        return self.cur - self.boot

    perf_counter = monotonic

    def time_ns(self):
        return int(self.cur * 10 ** 9)

    def monotonic_ns(self):
        return int(self.monotonic() * 10 ** 9)

    perf_counter_ns = monotonic_ns


class _FakeSocket:
    def __init__(self, net):
        self.net = net
        self.dest = None

    def settimeout(self, _t):
        pass

    def connect(self, dest):
        self.dest = tuple(dest)
        outcome, now_after = self.net.script.get(self.dest[1], (0, None))
        self.net.log.append(("connect", self.dest))
        if now_after is not None:
            self.net.clock.cur = now_after
        if outcome == OUT_CONNECT_TIMEOUT:
            raise TimeoutError("scripted connect timeout")
        if outcome == OUT_CONNECT_ERROR:
            raise OSError("scripted connect failure")

    def sendall(self, data):
        self.net.log.append(("sendall", self.dest, bytes(data)))
        outcome, _ = self.net.script.get(self.dest[1], (0, None))
        if outcome == OUT_SEND_TIMEOUT:
            raise TimeoutError("scripted send timeout")
        if outcome == OUT_SEND_ERROR:
            raise OSError("scripted send failure")

    def send(self, data):
        """a real socket's send() may take only part of the data: at most 512 bytes per call here"""
        part = bytes(data[:512])
        self.sendall(part)
        return len(part)

    def close(self):
        pass

    def __enter__(self):
        return self

    def __exit__(self, *a):
        self.close()
        return False

    def __getattr__(self, name):      # shutdown(), setsockopt(), ... : harmless no-ops
        if name.startswith("__"):
            raise AttributeError(name)
        return lambda *a, **k: None


class FakeSocketModule:
    """stands in for the module `socket` inside bobocep.dist.tcp"""
    AF_INET = 2
    SOCK_STREAM = 1
    SOL_SOCKET = 1
    SO_REUSEADDR = 2
    SHUT_RDWR = 2
    timeout = TimeoutError
    error = OSError

    def __init__(self, clock):
        self.clock = clock
        self.script = {}      # port -> (outcome, clock after the send or None)
        self.log = []

    def socket(self, *a, **k):
        return _FakeSocket(self)

    def create_connection(self, dest, *a, **k):
        s = _FakeSocket(self)
        s.connect(dest)
        return s


class _FakeClient:
    """an accepted client socket that delivers one message in one read"""

    def __init__(self, data, clock):
        self.data, self.clock, self.reads = bytes(data), clock, 0

    def settimeout(self, _t):
        pass

    def recv(self, _n):
        self.reads += 1
        if self.reads == 1:
            return self.data
        self.clock.cur += 10 ** 6      # nothing more will come: let the receive timeout fire
        return b""

    def close(self):
        pass

    def __getattr__(self, name):
        if name.startswith("__"):
            raise AttributeError(name)
        return lambda *a, **k: None


class _StubDecider:
    def __init__(self):
        self.snap = ([], [], [])
        self.calls = 0

    def snapshot(self):
        self.calls += 1
        c, h, u = self.snap
        return list(c), list(h), list(u)

    def subscribe(self, _s):
        pass


def addr_of(code):
    return "10.0.0.%d" % code


def code_of(addr):
    return int(addr.rsplit(".", 1)[1])


class OutDriver:
    def __init__(self, n_peers, periods, flag_reset=True):
        """periods = (period_ping, period_resync, attempt_stash, attempt_ping, attempt_resync)"""
        import bobocep.dist.tcp as tcpmod
        from bobocep.dist.device import BoboDevice
        from bobocep.dist.crypto.aes import BoboDistributedCryptoAES
        from bobocep.cep.engine.decider.runserial import BoboRunSerial
        from bobocep.cep.event import BoboHistory, BoboEventSimple
        assert 1 <= n_peers <= 2
        self.tcpmod = tcpmod
        self.n_peers = n_peers
        self.periods = tuple(periods)
        self._RunSerial, self._History, self._Simple = BoboRunSerial, BoboHistory, BoboEventSimple
        self._rs_cache = {}

        class Stepped(tcpmod.BoboDistributedTCP):
            _budget = 0
            _closed_mark = False

            @property
            def _thread_closed(self):
                if self._budget > 0:
                    self._budget -= 1
                    return False
                return True

            @_thread_closed.setter
            def _thread_closed(self, v):
                self._closed_mark = v

        self.peer_urns = ["p%d" % i for i in range(n_peers)]
        self.peer_ports = [9001 + i for i in range(n_peers)]
        self.home_addr = [11 + i for i in range(n_peers)]
        devs = [BoboDevice(addr=addr_of(self.home_addr[i]), port=self.peer_ports[i], urn=self.peer_urns[i],
                           id_key="key%d" % i) for i in range(n_peers)]
        me = BoboDevice(addr=addr_of(1), port=9000, urn=SELF_URN, id_key="keyself")
        # this instance sits between the peers in dict order, so that the loop's skip of itself is exercised
        order = [devs[0], me] + devs[1:]
        self.crypto = BoboDistributedCryptoAES(AES_KEY)
        self.decider = _StubDecider()
        pp, pr, ast, ap, ar = self.periods
        self.dist = Stepped(urn=SELF_URN, decider=self.decider, devices=order, crypto=self.crypto,
                            period_ping=pp, period_resync=pr, attempt_stash=ast, attempt_ping=ap,
                            attempt_resync=ar, flag_reset=flag_reset)
        self.dist._running = True          # so that on_decider_update accepts notes; no thread is started
        self.clock = FakeClock()
        self.sock = FakeSocketModule(self.clock)

    # ------------------------------------------------------------ plumbing
    class _Patched:
        def __init__(self, drv):
            self.drv = drv

        def __enter__(self):
            m = self.drv.tcpmod
            self.old = (m.socket, m.time, logging.root.manager.disable)
            m.socket, m.time = self.drv.sock, self.drv.clock
            logging.disable(logging.CRITICAL)

        def __exit__(self, *a):
            m = self.drv.tcpmod
            m.socket, m.time = self.old[0], self.old[1]
            logging.disable(self.old[2])
            return False

    def rs(self, k):
        r = self._rs_cache.get(k)
        if r is None:
            h = self._History(events={"g": [self._Simple(event_id="e%d" % k, timestamp=1, data=k)]})
            r = self._RunSerial(run_id="r%d" % k, phenomenon_name="ph", pattern_name="pa", block_index=1, history=h)
            self._rs_cache[k] = r
        return r

    @staticmethod
    def ids(runs):
        return [int(r.run_id[1:]) for r in runs]

    def dev(self, i):
        return self.dist._devices[self.peer_urns[i]]

    # ------------------------------------------------------------ state
    def set_peer(self, i, lc, la, fr, stash, addr=None):
        d = self.dev(i)
        d.last_comms = lc
        d.last_attempt = la
        d.flag_reset = bool(fr)
        d.clear_stash()
        d.append_stash([self.rs(k) for k in stash[0]], [self.rs(k) for k in stash[1]], [self.rs(k) for k in stash[2]])
        d.addr = addr_of(self.home_addr[i] if addr is None else addr)

    def peer_state(self, i):
        d = self.dev(i)
        c, h, u = d.stash()
        return dict(lc=d.last_comms, la=d.last_attempt, fr=bool(d.flag_reset),
                    st=[self.ids(c), self.ids(h), self.ids(u)], addr=code_of(d.addr))

    def state(self):
        return dict(queue=self.queue_len(), peers=[self.peer_state(i) for i in range(self.n_peers)])

    def queue_len(self):
        return self.dist.size_outgoing()

    def clear_queue(self):
        q = self.dist._queue_outgoing
        while not q.empty():
            q.get_nowait()

    def reset(self, peers, queue):
        """peers: list of dict(lc, la, fr, st=[c,h,u], addr?) ; queue: list of [c,h,u]"""
        self.clear_queue()
        for i, p in enumerate(peers):
            self.set_peer(i, p["lc"], p["la"], p["fr"], p["st"], p.get("addr"))
        for n in queue:
            self.enqueue(n)

    # ------------------------------------------------------------ actions
    def enqueue(self, note):
        c, h, u = note
        self.dist.on_decider_update(completed=[self.rs(k) for k in c], halted=[self.rs(k) for k in h],
                                    updated=[self.rs(k) for k in u], local=True)

    def decode(self, data):
        text = self.crypto.decrypt(bytes(data))
        urn, idk, typ, flags, body = text.split(" ", 4)
        d = json.loads(body)

        def runs(key):
            return [int(json.loads(x)["run_id"][1:]) for x in d.get(key, [])]
        return dict(urn=urn, id_key=idk, type=int(typ), flags=int(flags),
                    c=runs("completed"), h=runs("halted"), u=runs("updated"))

    def iterate(self, now, snap, sends, n=1):
        """n iterations of the real loop body at clock reading `now`.
        sends: per peer index (outcome, clock after the send or None).
        Returns the socket-layer records in order:
          dict(kind='msg', peer, addr, type, flags, c, h, u) for bytes handed to sendall,
          dict(kind='connect', peer, addr) for every connect (a 'msg' follows iff sendall was reached)."""
        self.clock.cur = now
        self.decider.snap = tuple([self.rs(k) for k in part] for part in snap)
        self.sock.script = {self.peer_ports[i]: (o, t) for i, (o, t) in enumerate(sends) if i < self.n_peers}
        self.sock.log = []
        with self._Patched(self):
            self.dist._budget = n
            self.dist._tcp_outgoing()
        out = []
        for rec in self.sock.log:
            dest = rec[1]
            pi = self.peer_ports.index(dest[1]) if dest[1] in self.peer_ports else -1
            if rec[0] == "connect":
                out.append(dict(kind="connect", peer=pi, addr=code_of(dest[0])))
            else:
                m = self.decode(rec[2])
                out.append(dict(kind="msg", peer=pi, addr=code_of(dest[0]), type=m["type"], flags=m["flags"],
                                c=m["c"], h=m["h"], u=m["u"], urn=m["urn"]))
        return out

    def deliver(self, frm, typ, flags, caddr=None, note=((), (), ())):
        """one authenticated, well-formed message from peer `frm` handled by the real
        _tcp_incoming_handle_client.  Returns None or the name of the exception it raised."""
        d = self.dev(frm)
        if typ == PING:
            body = "{}"
        else:
            body = json.dumps(dict(completed=[self.rs(k).to_json_str() for k in note[0]],
                                   halted=[self.rs(k).to_json_str() for k in note[1]],
                                   updated=[self.rs(k).to_json_str() for k in note[2]]))
        text = "%s %s %d %d %s" % (d.urn, d.id_key, typ, flags, body)
        data = bytes(self.crypto.encrypt(text))
        caddr = code_of(d.addr) if caddr is None else caddr
        saved = self.clock.cur
        try:
            with self._Patched(self):
                self.dist._tcp_incoming_handle_client(_FakeClient(data, self.clock), addr_of(caddr), self.clock.cur)
            return None
        except Exception as e:      # the real listener logs and carries on
            return e.__class__.__name__
        finally:
            self.clock.cur = saved
            q = self.dist._queue_incoming
            while not q.empty():
                q.get_nowait()
