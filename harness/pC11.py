"""C11 Only authenticated peers can influence an instance."""
import json

import common
from common import zs, zz, cbool, clist
import stepped_tcp as S

PROP = "C11"
PROPERTY_FILES = ["Properties/C11.v"]
META = dict(
    level_text="Theorems (Coq, closed under the global context; decrypt and the payload parser universally "
               "quantified) about an executable model of what tcp.py does with a decrypted plaintext "
               "(_split_plaintext with CPython's int(), device lookup, key comparison, type check, payload parse, "
               "BoboDeviceManager.addr/clear_last, incoming queue) and of the accept loop on top of the receive loop: "
               "for ALL plaintexts/byte strings, a rejection leaves the whole state identical; everything that is not "
               "an authenticated well-formed message (specification independent of the order of checks) IS rejected; "
               "the exact conjunction under which state changes and the exact change (only the named peer, only "
               "address and contact times; names, keys, reset requests, backlogs never); after ANY list of clients "
               "that deliver no authenticated well-formed message (any bytes, any cuts, closed, silent, half-open) the "
               "next valid message is handled as if it were the first and a SYNC/RESYNC is in the queue.  The "
               "pinned-commit order of checks is refuted (D8, two witnesses) and so is its listener (D6).  Tie to the "
               "code: every generated wire message is run through the real _tcp_incoming (accept loop) followed by a "
               "valid message; the device-manager state and queue after each client are compared with the model "
               "evaluated in Coq; an independent oracle checks unchanged/changed state, decider calls and acceptance "
               "of the following valid message by construction of the case.",
    level_note="Trusted: Coq kernel/vm_compute; harness (stepped_tcp.py fakes; an independent AES-GCM reference "
               "decrypt built on PyCryptodome feeds the model the plaintext of each byte string).  Assumed, not "
               "provable here: AES-GCM authenticity (a modified ciphertext/nonce/tag, or another key, makes decrypt "
               "fail) - exercised by every single-bit flip and truncation of sample messages.  Partial in that respect.",
    rule="wire messages through the real accept loop, each followed by a valid SYNC: valid PING/SYNC/RESYNC (with "
         "and without RESET, from each peer, changed/unchanged address, two pre-states); every single-bit flip and "
         "every truncation of a PING and a SYNC; other AES key; known/unknown urn x right/wrong id key x type; "
         "headers with < 4 spaces, non-integer / exotic integer type and flags (sign, white space, underscores, "
         "non-ASCII digits), unknown types x RESET; payloads: invalid JSON, JSON of the wrong shape, bad run "
         "records; random bytes (with and without the end marker); silent, half-open, closed-early connections. "
         "Non-trivial = the bytes reached decrypt (passed the end test).",
    trusted_base=["harness: stepped_tcp.py (fake socket/time modules, SteppedTCP)",
                  "harness: reference AES-GCM decrypt (PyCryptodome) used to give the model decrypt's answer",
                  "payload parser: the model takes 'parses / does not parse' from the real _incoming_from_json "
                  "(Section variable `parse`); the oracle has its own notion of a well-shaped payload"],
    assumptions=["AES-GCM authenticity: a modified ciphertext/nonce/tag or a different key makes decrypt raise",
                 "client addresses are what accept() returns: non-empty, no white space",
                 "integer header fields have fewer than 4300 digits",
                 "unbounded incoming queue (max_size_incoming=0, the default) in generated cases"])

TRECV = 3
OTHER_KEY = "fedcba9876543210"


# --------------------------------------------------------------------------------------------- helpers
def ref_decrypt(data, key=S.DEFAULT_AES_KEY):
    """independent of bobocep: layout ciphertext | nonce(16) | tag(16) | BOBO, AES-GCM, NUL padding stripped"""
    from Crypto.Cipher import AES
    if len(data) < 52 or not data.endswith(b"BOBO"):
        return None
    ct, nonce, tag = data[:-36], data[-36:-20], data[-20:-4]
    try:
        return AES.new(key.encode(), AES.MODE_GCM, nonce=nonce).decrypt_and_verify(ct, tag).decode("utf-8").rstrip("\0")
    except ValueError:
        return None


def split4(pt):
    ix = [i for i, c in enumerate(pt) if c == " "][:4]
    if len(ix) < 4:
        return None
    return pt[:ix[0]], pt[ix[0] + 1:ix[1]], pt[ix[1] + 1:ix[2]], pt[ix[2] + 1:ix[3]], pt[ix[3] + 1:]


def new_dist(pre):
    """fresh instance dev0 with peers dev1, dev2 in one of the pre-states"""
    dist, dec = S.make_stepped(3, me=0, timeout_receive=TRECV, recv_bytes=65536)
    if pre == 1:
        for i, urn in enumerate(("dev1", "dev2")):
            d = dist._devices[urn]
            d.last_comms = 50 + i
            d.last_attempt = 60 + i
            d.flag_reset = False
            d.append_stash(completed=[S.make_run_serial(90 + i)], halted=[], updated=[S.make_run_serial(95), S.make_run_serial(96)])
        dist._devices["dev0"].last_comms = 7
    return dist, dec


def state_vector(dist):
    out = []
    ps = dist.peer_state()
    for urn in dist._devices:
        p = ps[urn]
        out += [ord(c) for c in p["addr"]] + [-1, p["last_comms"], p["last_attempt"], int(p["flag_reset"])]
        out += list(p["stash"]) + [-2]
    return out + [len(dist.incoming_items())]


def coq_str(s):
    return zs([ord(c) for c in s])


def coq_peers(dist):
    ps = dist.peer_state()
    items = []
    for urn, d in dist._devices.items():
        p = ps[urn]
        items.append("((%s, %s, %s), (%d, %d, %s, %s))" % (coq_str(urn), coq_str(d.id_key), coq_str(p["addr"]),
                                                           p["last_comms"], p["last_attempt"], cbool(p["flag_reset"]),
                                                           zs(list(p["stash"]))))
    return clist(items)


def parses(dist, js):
    try:
        dist._incoming_from_json(js)
        return True
    except BaseException as e:   # noqa: B902
        if isinstance(e, (KeyboardInterrupt, SystemExit)):
            raise
        return False


def well_shaped(js):
    """the oracle's own notion: an object with the three lists of run-record strings"""
    from bobocep.cep.engine.decider.runserial import BoboRunSerial
    try:
        d = json.loads(js)
        if not isinstance(d, dict):
            return False
        for k in ("completed", "halted", "updated"):
            if not isinstance(d.get(k), list):
                return False
            for rt in d[k]:
                BoboRunSerial.from_json_str(rt)
        return True
    except Exception:
        return False


GOOD_ADDR = "10.9.9.9"


def good_message(crypto):
    return S.wire_message(crypto, "dev2", "key2", 0, 0, S.payload_json(updated=[S.make_run_serial(777, "ok", urn="dev2")]))


def run_pair(case, follow=True):
    """the real accept loop on [case's client, a valid SYNC from dev2]; returns observations"""
    dist, dec = new_dist(case["pre"])
    dist.mark_running()
    data = bytes.fromhex(case["bytes"])
    good = good_message(dist._crypto)
    if case.get("tamper"):          # the bad message is a copy of the VALID one that follows, one bit flipped
        pos, mask = case["tamper"]
        b = bytearray(good)
        b[pos % len(b)] ^= mask
        data = bytes(b)
    a = 100
    if case.get("script") == "silent":
        script, readings = [S.TIMEOUT], [a, a]
    elif case.get("script") == "half-open":
        script, readings = [data, S.TIMEOUT], [a, a, a]
    else:   # bytes, then the peer closes
        script, readings = [data], [a, a, a, a + 1, a + 1, a + 2, a + 2, a + TRECV, a + TRECV + 1]
    clock = S.FakeClock(readings=[])
    c1 = S.ScriptedClient(script, clock, origin=(case["addr"], 40000), clock_readings=readings)
    c2 = S.ScriptedClient([good], clock, origin=(GOOD_ADDR, 40001), clock_readings=[200, 200, 200])
    snap = {}

    def on_accept(i, cl):
        if i == 1:
            snap["mid"] = (dist.peer_state(), [S.run_ids(x) if isinstance(x, dict) and all(
                isinstance(x.get(k), list) for k in ("completed", "halted", "updated")) else repr(x)[:40]
                for x in dist.incoming_items()], state_vector(dist))
    pre_state = dist.peer_state()
    pre_vec = state_vector(dist)
    pre_coq = coq_peers(dist)
    net = S.FakeNet([c1, c2] if follow else [c1], clock, on_accept=on_accept)
    blocked = None
    with S.installed(net, clock):
        try:
            dist.incoming_iterations(2 if follow else 1)
        except S.BlockedForever as e:
            blocked = str(e)
        except S.ScriptExhausted as e:
            blocked = "clock: " + str(e)
        except Exception as e:       # nothing may escape the accept loop: the listener thread would die
            blocked = "escaped: %s: %s" % (type(e).__name__, str(e)[:80])
    if "mid" not in snap:
        snap["mid"] = (dist.peer_state(), [S.run_ids(x) if isinstance(x, dict) and all(
            isinstance(x.get(k), list) for k in ("completed", "halted", "updated")) else repr(x)[:40]
            for x in dist.incoming_items()], state_vector(dist))
    end_state = dist.peer_state()
    end_queue = list(dist.incoming_items())
    disp = None
    try:
        dist.dispatch()
    except Exception as e:
        disp = type(e).__name__ + ": " + str(e)[:60]
    return dict(dist=dist, dec=dec, pre=pre_state, pre_vec=pre_vec, pre_coq=pre_coq, mid=snap["mid"], end=end_state,
                end_queue=end_queue, blocked=blocked, dispatch_error=disp, reached_decrypt=ref_end_test(data),
                recv_log=[e for e in c1.log if e[0] == "recv"], updates=[S.run_ids(u) for u in dec.updates])


# cluster key / forger's key: equal up to some point, different after it.  A key is 16, 24 or 32 CHARACTERS whose
# UTF-8 form is 16, 24 or 32 bytes - so it need not be ASCII
KEY_PAIRS = [
    ("0123456789abcdef", "0123456789abcdeX"), ("0123456789abcdef", "01234567XXXXXXXX"),
    ("\u043f\u0430\u0440\u043e\u043b\u044c\u0443\u0437\u043b\u0430\u0431\u043e\u0431\u043e\u0446\u0435",
     "\u043f\u0430\u0440\u043e\u043b\u044c\u0443\u0437\u0414\u0420\u0423\u0413\u041e\u0419\u041a\u041b"),
    ("\u043a\u043b\u044e\u0447\u043a\u043b\u044e\u0447abcdefgh", "\u043a\u043b\u044e\u0447\u043a\u043b\u044e\u0447abcdefgX"),
    ("k" * 24, "k" * 23 + "K"), ("q" * 32, "q" * 16 + "Q" * 16),
]


def other_key_case(pair):
    """a message built exactly like a peer's (known URN, right id key, RESET flag, well-formed payload) but encrypted
    with ANOTHER key must change nothing; a valid one afterwards is accepted.  -> failure text | None"""
    from bobocep.dist.crypto.aes import BoboDistributedCryptoAES
    good_key, bad_key = pair
    try:
        forger = BoboDistributedCryptoAES(bad_key)
        dist, dec = S.make_stepped(3, me=0, aes_key=good_key, timeout_receive=TRECV, recv_bytes=65536)
    except Exception as ex:      # noqa: the library refuses one of the keys: nothing to check
        return None
    for i, urn in enumerate(("dev1", "dev2")):
        d = dist._devices[urn]
        d.last_comms, d.last_attempt, d.flag_reset = 50 + i, 60 + i, False
    dist.mark_running()
    forged = S.wire_message(forger, "dev1", "key1", 0, 1, S.payload_json(updated=[S.make_run_serial(666, "forged", urn="dev1")]))
    good = good_message(dist._crypto)
    clock = S.FakeClock(readings=[])
    c1 = S.ScriptedClient([forged], clock, origin=("10.6.6.6", 40000), clock_readings=[100, 100, 100, 101, 101, 102, 102, 100 + TRECV, 101 + TRECV])
    c2 = S.ScriptedClient([good], clock, origin=(GOOD_ADDR, 40001), clock_readings=[200, 200, 200])
    before = state_vector(dist)
    mid = []
    net = S.FakeNet([c1, c2], clock, on_accept=lambda i, cl: mid.append(state_vector(dist)) if i == 1 else None)
    with S.installed(net, clock):
        try:
            dist.incoming_iterations(2)
        except Exception as ex:      # noqa
            return "%s escaped the accept loop: %s" % (type(ex).__name__, str(ex)[:80])
    if mid and mid[0] != before:
        return "a message encrypted with another key changed the instance's state (peer address / contact times / queue)"
    try:
        dist.dispatch()
    except Exception as ex:          # noqa
        return "dispatch raised %s" % type(ex).__name__
    ids = [S.run_ids(u) for u in dec.updates]
    if any("666" in repr(x) for x in ids):
        return "a message encrypted with another key reached the decider: %s" % ids
    if not any("777" in repr(x) for x in ids):
        return "the valid message after the forged one was not delivered"
    return None


def ref_end_test(data):
    return len(data) >= 52 and data.endswith(b"BOBO")


# --------------------------------------------------------------------------------------------- oracle
def expected_after_valid(pre, urn, addr, flags):
    exp = {u: dict(p) for u, p in pre.items()}
    exp[urn]["addr"] = addr
    if flags & 1:
        exp[urn]["last_comms"] = 0
        exp[urn]["last_attempt"] = 0
    return exp


def oracle(case, r):
    """the property, from the way the case was built; returns list of failures"""
    out = []
    small = {k: v for k, v in case.items()}
    mid_state, mid_queue, _ = r["mid"]
    if r["blocked"] and r["blocked"].startswith("escaped"):
        return [dict(signature="exception-kills-listener",
                     what="%s: an exception left _tcp_incoming, the listener thread is gone (%s)"
                          % (case["why"], r["blocked"]), case=small, detail=r["blocked"])]
    if r["blocked"] and not r["blocked"].startswith("clock"):
        return [dict(signature="silent-client-blocks-listener",
                     what="a connection that sends nothing (%s) blocks the listener for ever; the valid message "
                          "behind it is never accepted" % case.get("script", "?"), case=small, detail=r["blocked"])]
    if case["expect"] == "reject":
        if mid_state != r["pre"]:
            ch = [(u, k, r["pre"][u][k], mid_state[u][k]) for u in mid_state for k in mid_state[u]
                  if mid_state[u][k] != r["pre"][u][k]]
            keys = {c[1] for c in ch}
            if case["why"].startswith("shape"):
                sig = "wrong-shape-payload-accepted"
            elif case["why"].startswith(("payload", "type")):
                sig = ("unvalidated-message-clears-contact-times" if keys & {"last_comms", "last_attempt"}
                       else "unvalidated-message-overwrites-peer-address")
            else:
                sig = "unauthenticated-message-changes-peer-state"
            out.append(dict(signature=sig, what="%s: peer state changed by a message that must be rejected: %s"
                                                % (case["why"], ch[:3]), case=small, detail=ch))
        if mid_queue:
            out.append(dict(signature="wrong-shape-payload-accepted" if case["why"].startswith("shape")
                            else "rejected-message-enqueued",
                            what="%s: a message that must be rejected was put into the incoming queue" % case["why"],
                            case=small, detail=mid_queue[:2]))
    else:
        urn, flags, ids = case["valid"]["urn"], case["valid"]["flags"], case["valid"]["ids"]
        exp = expected_after_valid(r["pre"], urn, case["addr"], flags)
        expq = [ids] if ids is not None else []
        if mid_state != exp or mid_queue != expq:
            out.append(dict(signature="valid-message-not-applied",
                            what="%s: a valid authenticated message was not applied as documented" % case["why"],
                            case=small, detail=dict(state=mid_state, want=exp, queue=mid_queue, want_queue=expq)))
    # the following valid message
    if not out or case["expect"] == "accept":
        n_before = len(mid_queue)
        good_ids = [[], [], ["dev2_1700000000_777"]]
        ok_q = [S.run_ids(x) if isinstance(x, dict) and "updated" in x and isinstance(x["updated"], list) and
                isinstance(x.get("completed"), list) and isinstance(x.get("halted"), list) else None
                for x in r["end_queue"]][n_before:] == [good_ids]
        ok_a = r["end"]["dev2"]["addr"] == GOOD_ADDR
        ok_d = r["dispatch_error"] is None and (r["updates"][-1:] == [good_ids])
        if not (ok_q and ok_a and ok_d):
            out.append(dict(signature="valid-message-after-bad-one-not-accepted",
                            what="%s: the valid SYNC that follows was not accepted (queued %s, address %s, "
                                 "dispatched %s %s)" % (case["why"], ok_q, ok_a, ok_d, r["dispatch_error"] or ""),
                            case=small, detail=None))
    # nothing rejected ever reaches the decider
    if case["expect"] == "reject" and len(r["updates"]) > 1:
        out.append(dict(signature="rejected-message-reaches-decider", what="%s: decider called" % case["why"],
                        case=small, detail=r["updates"]))
    return out


# --------------------------------------------------------------------------------------------- generators
def gen_cases(ctx):
    from bobocep.dist.crypto.aes import BoboDistributedCryptoAES
    rng = ctx.rng
    q = ctx.quick
    cr = BoboDistributedCryptoAES(S.DEFAULT_AES_KEY)
    cr2 = BoboDistributedCryptoAES(OTHER_KEY)
    cases = []
    nonce = S.counter_nonces(5000)

    def wire(pt, crypto=cr):
        with S.scripted_nonces(nonce):
            return bytes(crypto.encrypt(pt))

    def add(data, expect, why, addr="10.7.7.7", pre=0, script=None, valid=None):
        cases.append(dict(bytes=data.hex(), expect=expect, why=why, addr=addr, pre=pre, script=script, valid=valid))

    runs = [S.make_run_serial(i, "d%d" % i) for i in range(3)]
    pl1 = S.payload_json(updated=[runs[0]])
    pl3 = S.payload_json(completed=[runs[1]], halted=[runs[2]], updated=[runs[0]])
    ids1 = [[], [], [runs[0].run_id]]
    ids3 = [[runs[1].run_id], [runs[2].run_id], [runs[0].run_id]]

    # 1. valid messages
    for pre in (0, 1):
        for urn, key, own_addr in (("dev1", "key1", "10.0.0.2"), ("dev2", "key2", "10.0.0.3"), ("dev0", "key0", "10.0.0.1")):
            for addr in (own_addr, "10.7.7.7"):
                for fl in (0, 1, 3, 2):
                    add(wire("%s %s 1 %d {}" % (urn, key, fl)), "accept", "valid PING flags %d" % fl, addr, pre,
                        valid=dict(urn=urn, flags=fl, ids=None))
                    add(wire("%s %s 0 %d %s" % (urn, key, fl, pl1)), "accept", "valid SYNC flags %d" % fl, addr, pre,
                        valid=dict(urn=urn, flags=fl, ids=ids1))
                    add(wire("%s %s 2 %d %s" % (urn, key, fl, pl3)), "accept", "valid RESYNC flags %d" % fl, addr, pre,
                        valid=dict(urn=urn, flags=fl, ids=ids3))
    add(wire("dev1 key1 1 0 not json at all"), "accept", "valid PING whose payload is ignored",
        valid=dict(urn="dev1", flags=0, ids=None))
    # integer spellings CPython accepts
    for ty, fl, tv, fv in (("+1", "0", 1, 0), ("01", "1", 1, 1), ("1", "-1", 1, -1), ("\t1", "1\n", 1, 1),
                           ("0_1", "1_0", 1, 10), ("١", "٠", 1, 0), ("\xa01", "　1", 1, 1),
                           ("1", "0" * 30 + "1", 1, 1), ("1", str(2 ** 70 + 1), 1, 2 ** 70 + 1)):
        add(wire("dev1 key1 %s %s {}" % (ty, fl)), "accept", "valid PING, exotic integers %r %r" % (ty, fl), pre=1,
            valid=dict(urn="dev1", flags=fv, ids=None))

    # 2. every single-bit flip and every truncation of a PING and of a SYNC
    ping = wire("dev1 key1 1 1 {}")
    sync = wire("dev1 key1 0 1 %s" % pl1)
    for name, m, stepb in (("PING", ping, 1), ("SYNC", sync, 1 if not q else 2)):
        for i in range(0, len(m) * 8, stepb):
            b = bytearray(m)
            b[i // 8] ^= 1 << (i % 8)
            add(bytes(b), "reject", "bit %d of a valid %s flipped" % (i, name), pre=1)
        for t in range(0, len(m)):
            add(m[:t], "reject", "valid %s truncated to %d bytes" % (name, t), pre=1)
    # 3. another AES key
    for pt in ("dev1 key1 1 1 {}", "dev1 key1 0 1 %s" % pl1, "dev2 key2 2 0 %s" % pl3):
        add(wire(pt, cr2), "reject", "encrypted with another AES key", pre=1)
    # 4. urn x id key
    for urn in ("dev1", "dev9", "", "DEV1", "dev1\0", "dev11"):
        for key in ("key1", "key2", "", "key1 ", "KEY1", "key"):
            if urn == "dev1" and key == "key1":
                continue
            for ty, pl in ((1, "{}"), (0, pl1), (2, pl3)):
                add(wire("%s %s %d 1 %s" % (urn, key, ty, pl)), "reject", "urn %r with id key %r" % (urn, key), pre=1)
    # 5. headers
    for pt in ("dev1", "dev1 key1", "dev1 key1 1", "dev1 key1 1 1", "dev1key111{}", "x", "dev1  key1 1 1 {}",
               " dev1 key1 1 1 {}", "dev1 key1  1 1 {}", "dev1 key1 1  1 {}"):
        add(wire(pt), "reject", "header %r" % pt[:24], pre=1)
    for bad in ("x", "", "1.0", "0x1", "1__0", "_1", "1_", "--1", "+", "-", "1e0", "\x1c1", "one", "1\0", "+-1", "²"):
        add(wire("dev1 key1 %s 1 {}" % bad), "reject", "header: type %r is not an integer" % bad, pre=1)
        add(wire("dev1 key1 1 %s {}" % bad), "reject", "header: flags %r is not an integer" % bad, pre=1)
        add(wire("dev1 key1 0 %s %s" % (bad, pl1)), "reject", "header: flags %r is not an integer (SYNC)" % bad, pre=1)
    # 6. unknown types
    for ty in (-1, 3, 4, 7, 255, 10 ** 20, -2 ** 65):
        for fl in (0, 1):
            add(wire("dev1 key1 %d %d {}" % (ty, fl)), "reject", "type %d unknown, flags %d" % (ty, fl), pre=1)
            add(wire("dev2 key2 %d %d %s" % (ty, fl, pl1)), "reject", "type %d unknown, flags %d, payload" % (ty, fl), pre=1)
    # 7. payloads of SYNC / RESYNC
    bad_json = ["", "{", "{nope", "}", "[1,", "{\"completed\": [}", "nul", "{'completed': []}", pl1[:-1], pl1 + "x", "\0{}"]
    bad_runs = ['{"completed": ["x"], "halted": [], "updated": []}',
                '{"completed": [5], "halted": [], "updated": []}',
                '{"completed": [], "halted": ["{}"], "updated": []}',
                '{"completed": [], "halted": [], "updated": ["{\\"run_id\\": \\"\\"}"]}',
                '{"completed": 5, "halted": [], "updated": []}',
                '{"completed": [], "halted": [], "updated": [], "z": {"completed": 1}}']
    shapes = ["{}", "[]", "3", "null", "\"s\"", "true", "[[]]", '{"completed": []}', '{"completed": [], "halted": []}',
              '{"completed": [], "halted": [], "updated": null}', '{"completed": [], "halted": [], "updated": 0}',
              '{"completed": [], "halted": "x", "updated": []}',
              '{"Completed": [], "Halted": [], "Updated": []}', "[%s]" % pl1, "1.5", "{\"a\": 1}"]
    for ty in (0, 2):
        for fl in (0, 1):
            for pl in bad_json:
                add(wire("dev1 key1 %d %d %s" % (ty, fl, pl)), "reject", "payload: invalid JSON %r" % pl[:16], pre=1)
            for pl in bad_runs:
                add(wire("dev2 key2 %d %d %s" % (ty, fl, pl)), "reject", "payload: bad run records %r" % pl[:30], pre=1)
            for pl in shapes:
                add(wire("dev1 key1 %d %d %s" % (ty, fl, pl)), "reject", "shape: JSON of the wrong shape %r" % pl[:30],
                    pre=1)
    # 8. random bytes
    for k in range(60 if q else 2000):
        n = rng.choice([0, 1, 4, 51, 52, 53, 100, rng.randint(5, 300)])
        b = bytes(rng.getrandbits(8) for _ in range(n))
        if k % 2 and n >= 4:
            b = b[:-4] + b"BOBO"
        add(b, "reject", "random bytes (%d)%s" % (n, " ending in BOBO" if b.endswith(b"BOBO") else ""), pre=k % 2)
    # 9. connections that send nothing / stop half-way and stay open
    add(b"", "reject", "silent connection", pre=1, script="silent")
    for t in (1, 30, 51, 52, len(sync) - 1):
        add(sync[:t], "reject", "half-open after %d bytes" % t, pre=1, script="half-open")
    add(sync, "accept", "valid SYNC, connection left open afterwards", pre=1, script="half-open",
        valid=dict(urn="dev1", flags=1, ids=ids1))
    return cases


def listen_scenarios(ctx):
    """several clients in a row through the real accept loop, for run_C11_listen:
    (name, [(addr, stream, spec, clock)])"""
    from bobocep.dist.crypto.aes import BoboDistributedCryptoAES
    cr = BoboDistributedCryptoAES(S.DEFAULT_AES_KEY)
    with S.scripted_nonces(S.counter_nonces(9000)):
        pl = S.payload_json(updated=[S.make_run_serial(5, "v")])
        v1 = S.wire_message(cr, "dev1", "key1", 0, 1, pl)
        v2 = S.wire_message(cr, "dev2", "key2", 2, 0, pl)
        png = S.wire_message(cr, "dev2", "key2", 1, 1, "{}")
        badp = S.wire_message(cr, "dev1", "key1", 0, 1, "{nope")
        badt = S.wire_message(cr, "dev1", "key1", 9, 1, "{}")
        badk = S.wire_message(cr, "dev1", "key2", 0, 1, pl)
        shp = S.wire_message(cr, "dev2", "key2", 0, 1, "{}")
    a = 100
    T = TRECV

    def whole(addr, m, cuts=(), t=a):
        sizes = [len(c) for c in S.cut(m, list(cuts))]
        return (addr, m, sizes, [t] + [t] * len(sizes) + [t + T, t + T + 1])

    def silent(addr, m=b"", n=0, t=a):
        return (addr, m, ([n] if n else []) + [-1], [t, t, t, t + T])

    def closed(addr, m, n, t=a):
        return (addr, m, [n, 0], [t, t, t, t + 1, t + 2, t + T, t + T + 1])
    flipped = bytearray(v1)
    flipped[7] ^= 4
    sc = [
        ("valid, valid, ping", [whole("10.1.1.1", v1), whole("10.2.2.2", v2, [60]), whole("10.3.3.3", png)]),
        ("silent, valid", [silent("10.6.6.6"), whole("10.1.1.1", v1, [100, 200])]),
        ("half-open, closed early, valid", [silent("10.6.6.6", v1, 70), closed("10.6.6.7", v2, 51), whole("10.1.1.1", v1)]),
        ("bit flip, wrong key, valid", [whole("10.6.6.6", bytes(flipped)), whole("10.6.6.7", badk), whole("10.1.1.1", v2)]),
        ("bad payload, unknown type, valid", [whole("10.6.6.6", badp), whole("10.6.6.7", badt, [55]), whole("10.2.2.2", v2)]),
        ("wrong shape, valid", [whole("10.6.6.6", shp), whole("10.2.2.2", v1)]),
        ("garbage with marker, silent, silent, valid", [whole("10.6.6.6", b"\x07" * 60 + b"BOBO"), silent("10.6.6.7"),
                                                        silent("10.6.6.8", png, 10), whole("10.1.1.1", v1, [1])]),
    ]
    return sc


def run_listen(clients):
    dist, dec = new_dist(1)
    dist.mark_running()
    clock = S.FakeClock(readings=[])
    cls = []
    for addr, m, spec, ck in clients:
        script, pos = [], 0
        for k in spec:
            if k > 0:
                script.append(m[pos:pos + k])
                pos += k
            else:
                script.append(S.CLOSED if k == 0 else S.TIMEOUT)
        cls.append(S.ScriptedClient(script, clock, origin=(addr, 40000), clock_readings=list(ck)))
    net = S.FakeNet(cls, clock)
    pre_coq = coq_peers(dist)
    dead = False
    todo = len(cls)
    with S.installed(net, clock):
        while todo > 0 and not dead:
            n0 = len(net.accepted)
            try:
                dist.incoming_iterations(todo)
            except S.BlockedForever:
                dead = True
            except S.ScriptExhausted:
                pass
            except Exception:
                dead = True
            todo -= max(len(net.accepted) - n0, 1)
    return dist, dec, pre_coq, net, dead


def coq_listen_input(dist_for_parse, pre_coq, clients, fixed):
    items = []
    for addr, m, spec, ck in clients:
        pt = ref_decrypt(m)
        pok = False
        if pt is not None:
            sp = split4(pt)
            pok = sp is not None and parses(dist_for_parse, sp[4])
        items.append("(%s, (%s, %s), %s, (%s, %s))" % (
            coq_str(addr), zs(list(m)), zs(spec), zs(ck),
            "None" if pt is None else "(Some %s)" % coq_str(pt), cbool(pok)))
    return "(((52, %d, 65536), (%s, %s, %s)), %s, %s)" % (TRECV, cbool(fixed[0]), cbool(fixed[1]), cbool(fixed[2]),
                                                         pre_coq, clist(items))


LISTEN_TYPE = ("(((Z * Z * Z) * (bool * bool * bool)) * list ((list Z * list Z * list Z) * (Z * Z * bool * list Z)) "
               "* list (list Z * (list Z * list Z) * list Z * (option (list Z) * bool)))")
CASE_TYPE = ("((list ((list Z * list Z * list Z) * (Z * Z * bool * list Z)) * (Z * Z)) "
             "* (list Z * (option (list Z) * bool)) * bool)")


def coq_case_input(case, r, fixed=True):
    data = bytes.fromhex(case["bytes"])
    pt = ref_decrypt(data) if case.get("script") != "silent" else None
    pok = False
    if pt is not None:
        sp = split4(pt)
        pok = sp is not None and parses(r["dist"], sp[4])
    return "((%s, (0, 0)), (%s, (%s, %s)), %s)" % (
        r["pre_coq"], coq_str(case["addr"]), "None" if pt is None else "(Some %s)" % coq_str(pt), cbool(pok),
        cbool(fixed))


# --------------------------------------------------------------------------------------------- run
def reset_case(first_bytes):
    """an unauthenticated connection that is RESET by its peer (recv raises ConnectionResetError) after sending
    `first_bytes`: nothing changes, the listener goes on, the valid message after it is delivered.  -> failure | None"""
    dist, dec = new_dist(1)
    dist.mark_running()
    clock = S.FakeClock(readings=[])
    script = ([first_bytes] if first_bytes else []) + [S.Reset()]
    c1 = S.ScriptedClient(script, clock, origin=("10.6.6.6", 40000), clock_readings=[100, 100, 100, 101, 101])
    good = good_message(dist._crypto)
    c2 = S.ScriptedClient([good], clock, origin=(GOOD_ADDR, 40001), clock_readings=[200, 200, 200])
    before = state_vector(dist)
    mid = []
    net = S.FakeNet([c1, c2], clock, on_accept=lambda i, cl: mid.append(state_vector(dist)) if i == 1 else None)
    with S.installed(net, clock):
        try:
            dist.incoming_iterations(2)
        except BaseException as ex:      # noqa
            if isinstance(ex, (KeyboardInterrupt, SystemExit)):
                raise
            return "%s ended the accept loop after a connection reset: the listener thread is gone" % type(ex).__name__
    if len(net.accepted) < 2:
        return "the accept loop stopped after the reset connection (the valid client was never accepted)"
    if mid and mid[0] != before:
        return "the reset connection changed the instance's state"
    try:
        dist.dispatch()
    except Exception as ex:              # noqa
        return "dispatch raised %s" % type(ex).__name__
    if not any("777" in repr(S.run_ids(u)) for u in dec.updates):
        return "the valid message after the reset connection was not delivered"
    return None


def other_key_half(res):
    for i, fb in enumerate((b"", b"abc", b"\x07" * 20, good_message(S.make_stepped(3, me=0)[0]._crypto)[:40])):
        bad = reset_case(fb)
        res.note_case(("reset", i), True)
        if bad:
            res.failures.append(dict(signature="listener-stopped-by-a-reset-connection", case=dict(reset=i, first_bytes=fb.hex()),
                                     what="connection reset by the peer after %d bytes: %s" % (len(fb), bad), detail=None))
    for i, pair in enumerate(KEY_PAIRS):
        bad = other_key_case(pair)
        res.note_case(("other-key", i), True)
        if bad:
            res.failures.append(dict(signature="message-under-another-key-accepted", case=dict(other_key=i, keys=list(pair)),
                                     what="cluster key %r, forger's key %r: %s" % (pair[0], pair[1], bad), detail=None))


def tamper_half(res):
    """a message altered in transit arrives first, the genuine message (same nonce, same bytes otherwise) afterwards:
    the altered copy is refused without effect and the genuine one is served"""
    n = len(good_message(S.make_stepped(3, me=0)[0]._crypto))
    for pos in sorted({0, 1, n // 3, n // 2, n - 45, n - 30, n - 22, n - 12, n - 6}):
        for mask in (1, 128):
            case = dict(pre=0, bytes="", addr="10.7.7.7", expect="reject", tamper=[pos, mask],
                        why="auth: copy of the following valid message with bit %d of byte %d flipped" % (mask, pos))
            r = run_pair(case)
            res.note_case(("tamper", pos, mask), True)
            fs = oracle(case, r)
            if fs:
                res.failures.append(fs[0])
                return


def run(ctx, res):
    import logging
    logging.disable(logging.CRITICAL)
    try:
        _run(ctx, res)
        other_key_half(res)
        tamper_half(res)
    finally:
        logging.disable(logging.NOTSET)


def _run(ctx, res):
    common.impl_modules_fresh()
    cases = gen_cases(ctx)
    coq_cases, kept = [], []
    for case in cases:
        r = run_pair(case)
        res.note_case((case["bytes"], case["addr"], case["pre"], case.get("script")), r["reached_decrypt"])
        res.count("expect_" + case["expect"])
        res.count("why_" + case["why"].split(" ")[0].split(":")[0])
        for f in oracle(case, r):
            res.failures.append(f)
        if r["blocked"]:
            continue          # the state after the first client is the pre-state; the model has no 'hang' here
        coq_cases.append((coq_case_input(case, r), r["mid"][2]))
        kept.append((case, r["mid"][2]))
    mism, errs = common.coq_run_cases("C11", "Model.Auth", "run_C11", CASE_TYPE, coq_cases, shard=400)
    res.errors += errs
    res.traces_validated = len(coq_cases) - len(mism)
    for idx, model_out in mism[:20]:
        res.mismatches.append(dict(case=kept[idx][0], impl=kept[idx][1], model=model_out))

    # sequences of clients through the accept loop vs. the model's serve
    lcases, lmeta = [], []
    for name, clients in listen_scenarios(ctx):
        dist, dec, pre_coq, net, dead = run_listen(clients)
        vec = state_vector(dist)
        codes = []
        for cl, (addr, m, spec, ck) in zip(net.accepted, clients):
            recvs = [e for e in cl.log if e[0] == "recv"]
            kind = recvs[-1][3] if recvs else None
            got = sum(e[4] for e in recvs)
            delivered = kind == "bytes" and ref_end_test(m[:got])
            codes.append(1 if delivered else 4 if kind == "blocked" else 3 if kind == "timeout" else 2)
        lcases.append((coq_listen_input(dist, pre_coq, clients, (True, True, True)), vec + [-3] + codes))
        lmeta.append((name, vec + [-3] + codes))
        res.note_case(("listen", name), True)
        res.count("listen")
    mism2, errs2 = common.coq_run_cases("C11L", "Model.Auth", "run_C11_listen", LISTEN_TYPE, lcases)
    res.errors += errs2
    res.traces_validated += len(lcases) - len(mism2)
    for idx, model_out in mism2:
        res.mismatches.append(dict(case=dict(listen=lmeta[idx][0]), impl=lmeta[idx][1], model=model_out))

    # an unauthenticated client that keeps STREAMING bytes without ever completing a message (full-size reads
    # included) must not hold the single listener beyond the receive timeout: oracle only, free-running clock
    for trecv in (2, 3):
        for nrecv in (16, 2048):
            for chunk in (nrecv, 2 * nrecv, 7):
                for dt in (0.2, trecv - 0.5):
                    r = S.streaming_junk_probe(trecv, nrecv, chunk, dt)
                    res.note_case(("stream", trecv, nrecv, chunk, dt), True)
                    res.count("streaming_junk_clients")
                    sc = dict(streaming=True, trecv=trecv, nrecv=nrecv, chunk=chunk, dt=dt)
                    if r["hung"] or r["finish"] > trecv + 1.0 + 1e-9 or not r["valid_queued"]:
                        res.failures.append(dict(
                            signature="streaming-client-holds-listener",
                            what="an unauthenticated client delivering %d bytes every %.1f s (recv_bytes=%d) %s "
                                 "(timeout_receive=%d); valid message afterwards served: %s"
                                 % (chunk, dt, nrecv, "is never given up" if r["hung"] else
                                    "holds the listener for %.2f s" % r["finish"], trecv, r["valid_queued"]),
                            case=sc, detail=r))
                    elif not r["peers_unchanged_by_junk"]:
                        res.failures.append(dict(signature="unauthenticated-stream-changed-state",
                                                 what="peer state or queue changed by junk bytes", case=sc, detail=r))

    res.samples = [dict(why=c["why"], expect=c["expect"], bytes=len(c["bytes"]) // 2, addr=c["addr"])
                   for c in cases[:2] + cases[len(cases) // 2:len(cases) // 2 + 2] + cases[-2:]]
    res.extra["exhaustive_scope"] = "every single-bit flip%s and every truncation of one PING and one SYNC wire message" % (
        " (SYNC: every second bit)" if ctx.quick else "")
    res.exhaustive = True
    res.failures.sort(key=lambda f: (len(f["case"].get("bytes", "") or "x" * 100000), f["signature"]))


# --------------------------------------------------------------------------------------------- replay
def replay(obj):
    case = obj.get("case") or {}
    if case.get("streaming"):
        import pC10
        return pC10.replay_stream(case)
    if "reset" in case:
        bad = reset_case(bytes.fromhex(case["first_bytes"]))
        print("connection reset after %d bytes:" % (len(case["first_bytes"]) // 2), bad or "nothing changed, listener went on, valid message delivered")
        return 1 if bad else 0
    if "other_key" in case:
        bad = other_key_case(tuple(case["keys"]))
        print("cluster key %r, forger's key %r:" % tuple(case["keys"]), bad or "forged message rejected without effect, valid one accepted")
        return 1 if bad else 0
    if "bytes" not in case:
        print(obj)
        return 0
    import logging
    logging.disable(logging.CRITICAL)
    r = run_pair(case)
    if case.get("tamper"):
        print("case          : %s" % case["why"])
        fs = oracle(case, r)
        for f in fs:
            print("FAILS [%s]: %s" % (f["signature"], f["what"]))
        if not fs:
            print("altered copy refused without effect; the genuine message that follows is accepted and dispatched")
        return 1 if fs else 0
    data = bytes.fromhex(case["bytes"])
    pt = ref_decrypt(data)
    print("case          : %s; %d bytes from %s; plaintext %r" % (case["why"], len(data), case["addr"],
                                                                  None if pt is None else pt[:70]))
    print("peers before  :", {u: (p["addr"], p["last_comms"], p["last_attempt"], p["flag_reset"], p["stash"])
                              for u, p in r["pre"].items()})
    print("peers after   :", {u: (p["addr"], p["last_comms"], p["last_attempt"], p["flag_reset"], p["stash"])
                              for u, p in r["mid"][0].items()}, "queue:", r["mid"][1])
    print("implementation:", r["mid"][2])
    if not r["blocked"]:
        for label, fx in (("model (repaired code)", True), ("model (pinned commit)", False)):
            model, _ = common.coq_eval("C11", "Model.Auth", "run_C11 %s" % coq_case_input(case, r, fx))
            print("%s:" % label, model)
    print("then a valid SYNC from dev2 at %s: peers %s, queue %s, dispatch error %s"
          % (GOOD_ADDR, {u: p["addr"] for u, p in r["end"].items()}, len(r["end_queue"]), r["dispatch_error"]))
    fs = oracle(case, r)
    for f in fs:
        print("FAILS [%s]: %s" % (f["signature"], f["what"]))
    if not fs:
        print("ok")
    return 1 if fs else 0
