"""Drive a real BoboEngine (receiver, decider, producer, forwarder, handler) built like BoboSetupSimple does,
with deterministic id/timestamp generators, from an engine description and a list of operations."""
import predlang as PL
import sim_decider as SD
from common import zz, cbool, clist, cnat, zs

IMPORTS = SD.IMPORTS + " Model.Engine"


class Counter:
    """shared by the event-id and the timestamp generator: both advance once per created event"""
    def __init__(self):
        self.n = 0


def make_engine(ed, handler_kind="blocking", workers=2, gate=None):
    from bobocep.cep.action.action import BoboAction
    from bobocep.cep.action.handler import BoboActionHandlerBlocking, BoboActionHandlerMultithreading
    from bobocep.cep.engine.decider.decider import BoboDecider
    from bobocep.cep.engine.engine import BoboEngine
    from bobocep.cep.engine.forwarder.forwarder import BoboForwarder
    from bobocep.cep.engine.forwarder.pubsub import BoboForwarderSubscriber
    from bobocep.cep.engine.producer.producer import BoboProducer
    from bobocep.cep.engine.producer.pubsub import BoboProducerSubscriber
    from bobocep.cep.engine.receiver.pubsub import BoboReceiverSubscriber
    from bobocep.cep.engine.receiver.receiver import BoboReceiver
    from bobocep.cep.engine.receiver.validator import BoboValidatorAll
    from bobocep.cep.gen.event_id import BoboGenEventID
    from bobocep.cep.gen.timestamp import BoboGenTimestamp
    from bobocep.cep.phenom.phenom import BoboPhenomenon

    log = dict(seen=[], complex=[], execs=[], aevents=[], fwd=[], completed=[], halted=[])
    cnt = Counter()

    class IdGen(BoboGenEventID):
        def generate(self):
            return "e%d" % cnt.n

    class TsGen(BoboGenTimestamp):
        def generate(self):
            v = cnt.n
            cnt.n += 1          # id is drawn first, timestamp second, once per event
            return v

    class Act(BoboAction):
        def __init__(self, code, ok, data):
            super().__init__(name="act%d" % code)
            self.code, self.ok, self.data = code, ok, data

        def execute(self, event):
            log["execs"].append((self.code, PL.ev_code(event)))
            if gate is not None:
                gate.wait(10)
            return self.ok, self.data

    cfg = ed["cfg"]
    dg = dict(ed["datagen"])
    acts = dict(ed["act"])
    phen = []
    for k, ps in cfg["phen"]:
        a = Act(*acts[k]) if k in acts else None
        d = (lambda v: (lambda p, h: v))(dg[k]) if k in dg else None
        phen.append(BoboPhenomenon(name=PL.phname(k), patterns=[PL.make_pattern(p) for p in ps], action=a, datagen=d))
    idgen, tsgen = IdGen(), TsGen()
    receiver = BoboReceiver(validator=BoboValidatorAll(), gen_event_id=idgen, gen_timestamp=tsgen)
    decider = BoboDecider(phenomena=phen, gen_event_id=idgen, gen_run_id=SD.CountGen(cfg["idbase"]),
                          max_cache=cfg["maxcache"])
    producer = BoboProducer(phenomena=phen, gen_event_id=idgen, gen_timestamp=tsgen)
    if handler_kind == "blocking":
        handler = BoboActionHandlerBlocking()
    else:
        handler = BoboActionHandlerMultithreading(threads=workers)
    forwarder = BoboForwarder(phenomena=phen, handler=handler, gen_event_id=idgen, gen_timestamp=tsgen,
                              local_only=ed["local_only"])
    engine = BoboEngine(receiver=receiver, decider=decider, producer=producer, forwarder=forwarder,
                        times_receiver=ed["tr"], times_decider=ed["td"], times_producer=ed["tp"],
                        times_forwarder=ed["tf"], early_stop=ed["early"])

    class Sub(BoboReceiverSubscriber, BoboProducerSubscriber, BoboForwarderSubscriber):
        def on_receiver_update(self, event):
            log["seen"].append(event)

        def on_producer_update(self, event, local):
            log["complex"].append((event, local))

        def on_forwarder_update(self, event):
            log["aevents"].append(event)
    from bobocep.cep.engine.decider.pubsub import BoboDeciderSubscriber

    class DSub(BoboDeciderSubscriber):
        def on_decider_update(self, completed, halted, updated, local):
            log["completed"] += [(r, local) for r in completed]
            log["halted"] += [(r, local) for r in halted]
    decider.subscribe(DSub())
    sub = Sub()
    receiver.subscribe(sub)
    producer.subscribe(sub)
    forwarder.subscribe(sub)
    return engine, handler, log


def enc_ev(e):
    k = PL.kind_of(e)
    ph = PL.code_of(e.phenomenon_name) if k else 0
    pat = PL.code_of(e.pattern_name) if k else 0
    return [PL.ev_code(e), k, PL.dval(e), ph, pat]


def sizes(engine, handler):
    return [engine.receiver.size(), engine.decider.size(), engine.producer.size(), engine.forwarder.size(), handler.size()]


def enc_final(engine, handler, log, resp_of):
    out = sizes(engine, handler)
    out += PL.enc_list(enc_ev, log["seen"])
    out += PL.enc_list(lambda x: enc_ev(x[0]) + [1 if x[1] else 0], log["complex"])
    out += PL.enc_list(lambda x: [x[0], x[1]], log["execs"])
    out += PL.enc_list(lambda e: enc_ev(e) + [int(e.action_name[3:]), 1 if e.success else 0, resp_of(e)], log["aevents"])
    return out


def run_ops(ed, ops):
    """ops: ("add", d) | ("update",) | ("remote", note).  Returns (encoding, engine, handler, log)."""
    engine, handler, log = make_engine(ed)
    out = []
    for op in ops:
        if op[0] == "add":
            engine.receiver.add_data(None if op[1] == -1 else op[1])
        elif op[0] == "update":
            engine.update()
            out += [-5] + sizes(engine, handler)
        else:
            n = op[1]
            engine.decider.on_distributed_update([PL.make_ser(r) for r in n["comp"]], [PL.make_ser(r) for r in n["halt"]],
                                                 [PL.make_ser(r) for r in n["upd"]])
    # blocking handler: the k-th action event reports the k-th execution
    execs = log["execs"]
    aev_index = {id(e): i for i, e in enumerate(log["aevents"])}

    def resp_of(e):
        i = aev_index[id(e)]
        return execs[i][1] if i < len(execs) else -1
    return out + enc_final(engine, handler, log, resp_of), engine, handler, log


def edesc_coq(ed):
    dg = clist(["(%s, %s)" % (zz(k), zz(v)) for k, v in ed["datagen"]])
    ac = clist(["(%s, (%s, %s, %s))" % (zz(k), zz(a[0]), cbool(a[1]), zz(a[2])) for k, a in ed["act"]])
    return "(ED %s %s %s %s %s %s %s %s %s)" % (PL.config_coq(ed["cfg"]), cnat(ed["tr"]), cnat(ed["td"]), cnat(ed["tp"]),
                                                 cnat(ed["tf"]), cbool(ed["early"]), cbool(ed["local_only"]), dg, ac)


def op_coq(op):
    if op[0] == "add":
        return "(EAdd %s)" % zz(op[1])
    if op[0] == "update":
        return "EUpdate"
    return "(ERemote %s)" % PL.note_coq(op[1])


def case_coq(ed, ops):
    return "(%s, %s)" % (edesc_coq(ed), clist([op_coq(o) for o in ops]))
