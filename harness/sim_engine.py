"""Drive a real BoboEngine (receiver, decider, producer, forwarder, handler) built like BoboSetupSimple does,
with deterministic id/timestamp generators, from an engine description and a list of operations."""
import predlang as PL
import sim_decider as SD
from common import zz, cbool, clist, cnat, zs

IMPORTS = SD.IMPORTS + " Model.Engine"
IMPORTS_POOL = IMPORTS + " Model.EnginePool"


class Counter:
    """shared by the event-id and the timestamp generator: both advance once per created event"""
    def __init__(self):
        self.n = 0


def make_engine(ed, handler_kind="blocking", workers=2, gate=None):
    from bobocep.cep.action.action import BoboAction
    from bobocep.cep.action.handler import BoboActionHandlerBlocking, BoboActionHandlerMultithreading
    from bobocep.cep.engine.decider.decider import BoboDecider
    from bobocep.cep.engine.engine import BoboEngine
    from bobocep.cep.engine.forwarder.forwarder import BoboForwarder
    from bobocep.cep.engine.forwarder.pubsub import BoboForwarderSubscriber
    from bobocep.cep.engine.producer.producer import BoboProducer
    from bobocep.cep.engine.producer.pubsub import BoboProducerSubscriber
    from bobocep.cep.engine.receiver.pubsub import BoboReceiverSubscriber
    from bobocep.cep.engine.receiver.receiver import BoboReceiver
    from bobocep.cep.engine.receiver.validator import BoboValidatorAll
    from bobocep.cep.gen.event_id import BoboGenEventID
    from bobocep.cep.gen.timestamp import BoboGenTimestamp
    from bobocep.cep.phenom.phenom import BoboPhenomenon

    log = dict(seen=[], complex=[], execs=[], aevents=[], fwd=[], completed=[], halted=[], finished=[])
    cnt = Counter()

    class IdGen(BoboGenEventID):
        def generate(self):
            return "e%d" % cnt.n

    class TsGen(BoboGenTimestamp):
        def generate(self):
            v = cnt.n
            cnt.n += 1          # id is drawn first, timestamp second, once per event
            return v

    class Act(BoboAction):
        def __init__(self, code, ok, data):
            super().__init__(name="act%d" % code)
            self.code, self.ok, self.data = code, ok, data

        def execute(self, event):
            log["execs"].append((self.code, PL.ev_code(event)))
            if gate is not None:
                if hasattr(gate, "wait_for"):
                    gate.wait_for(PL.ev_code(event))      # one gate per job: the harness chooses which job finishes
                else:
                    gate.wait(10)
            log["finished"].append(PL.ev_code(event))
            return self.ok, self.data

    cfg = ed["cfg"]
    dg = dict(ed["datagen"])
    acts = dict(ed["act"])
    phen = []
    for k, ps in cfg["phen"]:
        a = Act(*acts[k]) if k in acts else None
        d = (lambda v: (lambda p, h: v))(dg[k]) if k in dg else None
        phen.append(BoboPhenomenon(name=PL.phname(k), patterns=[PL.make_pattern(p) for p in ps], action=a, datagen=d))
    idgen, tsgen = IdGen(), TsGen()
    receiver = BoboReceiver(validator=BoboValidatorAll(), gen_event_id=idgen, gen_timestamp=tsgen)
    decider = BoboDecider(phenomena=phen, gen_event_id=idgen, gen_run_id=SD.CountGen(cfg["idbase"]),
                          max_cache=cfg["maxcache"])
    producer = BoboProducer(phenomena=phen, gen_event_id=idgen, gen_timestamp=tsgen)
    if handler_kind == "blocking":
        handler = BoboActionHandlerBlocking()
    else:
        handler = BoboActionHandlerMultithreading(threads=workers)
    forwarder = BoboForwarder(phenomena=phen, handler=handler, gen_event_id=idgen, gen_timestamp=tsgen,
                              local_only=ed["local_only"])
    engine = BoboEngine(receiver=receiver, decider=decider, producer=producer, forwarder=forwarder,
                        times_receiver=ed["tr"], times_decider=ed["td"], times_producer=ed["tp"],
                        times_forwarder=ed["tf"], early_stop=ed["early"])

    class Sub(BoboReceiverSubscriber, BoboProducerSubscriber, BoboForwarderSubscriber):
        def on_receiver_update(self, event):
            log["seen"].append(event)

        def on_producer_update(self, event, local):
            log["complex"].append((event, local))

        def on_forwarder_update(self, event):
            log["aevents"].append(event)
    from bobocep.cep.engine.decider.pubsub import BoboDeciderSubscriber

    class DSub(BoboDeciderSubscriber):
        def on_decider_update(self, completed, halted, updated, local):
            log["completed"] += [(r, local) for r in completed]
            log["halted"] += [(r, local) for r in halted]
    decider.subscribe(DSub())
    sub = Sub()
    receiver.subscribe(sub)
    producer.subscribe(sub)
    forwarder.subscribe(sub)
    return engine, handler, log


def enc_ev(e):
    k = PL.kind_of(e)
    ph = PL.code_of(e.phenomenon_name) if k else 0
    pat = PL.code_of(e.pattern_name) if k else 0
    return [PL.ev_code(e), k, PL.dval(e), ph, pat]


def sizes(engine, handler):
    return [engine.receiver.size(), engine.decider.size(), engine.producer.size(), engine.forwarder.size(), handler.size()]


def enc_final(engine, handler, log, resp_of):
    out = sizes(engine, handler)
    out += PL.enc_list(enc_ev, log["seen"])
    out += PL.enc_list(lambda x: enc_ev(x[0]) + [1 if x[1] else 0], log["complex"])
    out += PL.enc_list(lambda x: [x[0], x[1]], log["execs"])
    out += PL.enc_list(lambda e: enc_ev(e) + [int(e.action_name[3:]), 1 if e.success else 0, resp_of(e)], log["aevents"])
    return out


def run_ops(ed, ops):
    """ops: ("add", d) | ("update",) | ("remote", note).  Returns (encoding, engine, handler, log)."""
    engine, handler, log = make_engine(ed)
    out = []
    for op in ops:
        if op[0] == "add":
            engine.receiver.add_data(None if op[1] == -1 else op[1])
        elif op[0] == "update":
            engine.update()
            out += [-5] + sizes(engine, handler)
        else:
            n = op[1]
            engine.decider.on_distributed_update([PL.make_ser(r) for r in n["comp"]], [PL.make_ser(r) for r in n["halt"]],
                                                 [PL.make_ser(r) for r in n["upd"]])
    # blocking handler: the k-th action event reports the k-th execution
    execs = log["execs"]
    aev_index = {id(e): i for i, e in enumerate(log["aevents"])}

    def resp_of(e):
        i = aev_index[id(e)]
        return execs[i][1] if i < len(execs) else -1
    return out + enc_final(engine, handler, log, resp_of), engine, handler, log


def edesc_coq(ed):
    dg = clist(["(%s, %s)" % (zz(k), zz(v)) for k, v in ed["datagen"]])
    ac = clist(["(%s, (%s, %s, %s))" % (zz(k), zz(a[0]), cbool(a[1]), zz(a[2])) for k, a in ed["act"]])
    return "(ED %s %s %s %s %s %s %s %s %s)" % (PL.config_coq(ed["cfg"]), cnat(ed["tr"]), cnat(ed["td"]), cnat(ed["tp"]),
                                                 cnat(ed["tf"]), cbool(ed["early"]), cbool(ed["local_only"]), dg, ac)


def op_coq(op):
    if op[0] == "add":
        return "(EAdd %s)" % zz(op[1])
    if op[0] == "update":
        return "EUpdate"
    return "(ERemote %s)" % PL.note_coq(op[1])


def case_coq(ed, ops):
    return "(%s, %s)" % (edesc_coq(ed), clist([op_coq(o) for o in ops]))


# ---------------------------------------------------------------------------------------------------------
# the engine on the real thread-pool handler, completion order chosen by the harness (Model/EnginePool.v)
class Gates:
    """One gate per job (keyed by the complex event's id code): the action's execute() blocks in its worker
    thread until the harness opens the gate, so `Complete k` is an operation of the harness."""

    def __init__(self):
        import threading
        self._lock = threading.Lock()
        self._ev = {}
        self._all = False

    def _get(self, eid):
        import threading
        with self._lock:
            if eid not in self._ev:
                self._ev[eid] = threading.Event()
                if self._all:
                    self._ev[eid].set()
            return self._ev[eid]

    def wait_for(self, eid):
        self._get(eid).wait(30)

    def open(self, eid):
        self._get(eid).set()

    def open_all(self):
        with self._lock:
            self._all = True
            evs = list(self._ev.values())
        for e in evs:
            e.set()


def close_pool(handler):
    try:
        handler.close()
    except Exception:
        pass
    pool = getattr(handler, "_pool", None)
    if pool is not None:
        try:
            pool.terminate()
            pool.join()
        except Exception:
            pass


def _wait(pred, limit):
    import time
    t0 = time.time()
    while not pred():
        if time.time() - t0 > limit:
            return False
        time.sleep(0.0005)
    return True


class PoolRun:
    """A real BoboEngine on BoboActionHandlerMultithreading(workers).  Observed from outside only: task / handler
    size(), subscriber callbacks, BoboAction.execute calls, and the calls the forwarder makes on the handler
    (handle / get_handler_response are wrapped on the instance to be COUNTED, they are not changed)."""

    def __init__(self, ed, workers):
        self.gates = Gates()
        self.workers = workers
        self.engine, self.handler, self.log = make_engine(ed, handler_kind="thread", workers=workers, gate=self.gates)
        self.submitted = []      # complex-event codes handed to handler.handle, in call order
        self.inflight = []       # of those, not yet completed (submission order)
        self.responses = []      # complex-event code of every response the forwarder obtained, in order
        self.lost = 0
        h = self.handler
        orig_handle, orig_get = h.handle, h.get_handler_response

        def handle(action, event):
            r = orig_handle(action=action, event=event)
            self.submitted.append(PL.ev_code(event))
            self.inflight.append(PL.ev_code(event))
            return r

        def get_handler_response():
            r = orig_get()
            if r is not None:
                self.responses.append(PL.ev_code(r.complex_event))
            return r
        h.handle, h.get_handler_response = handle, get_handler_response

    def running(self):
        return min(len(self.inflight), self.workers)

    def settle(self):
        """every job that has a worker has entered execute() (so the execs log is not racing with us)"""
        want = len(self.submitted) - len(self.inflight) + self.running()
        _wait(lambda: len(self.log["execs"]) >= want, 5.0)

    def complete(self, k):
        """the k-th in-flight job finishes (k < running()); wait until its response is in the handler's queue"""
        if k >= self.running():
            return False
        eid = self.inflight.pop(k)
        before = self.handler.size()
        self.gates.open(eid)
        if not _wait(lambda: self.handler.size() > before, 5.0):
            self.lost += 1
        self.settle()
        return True

    def obs(self):
        e, lg = self.engine, self.log
        return [-5] + sizes(e, self.handler) + [len(self.inflight), len(lg["seen"]), len(lg["complex"]),
                                                len(self.submitted), len(lg["aevents"])]

    def apply(self, op):
        """-> the op as performed (a `complete` draw is resolved to an in-range index, or to an out-of-range
        one that is a no-op on both sides when nothing is running)"""
        e = self.engine
        if op[0] == "add":
            e.receiver.add_data(None if op[1] == -1 else op[1])
        elif op[0] == "update":
            e.update()
            self.settle()
        elif op[0] == "complete":
            n = self.running()
            if n:
                k = op[1] % n
                self.complete(k)
            else:
                k = op[1] % 3                           # nothing in flight: an index past the end, a no-op
            op = ("complete", k)
        else:
            n = op[1]
            e.decider.on_distributed_update([PL.make_ser(r) for r in n["comp"]], [PL.make_ser(r) for r in n["halt"]],
                                            [PL.make_ser(r) for r in n["upd"]])
        return op

    def final(self):
        lg = self.log
        resp = self.responses
        aev_index = {id(e): i for i, e in enumerate(lg["aevents"])}

        def resp_of(e):
            i = aev_index[id(e)]
            return resp[i] if i < len(resp) else -1
        out = sizes(self.engine, self.handler)
        out += PL.enc_list(enc_ev, lg["seen"])
        out += PL.enc_list(lambda x: enc_ev(x[0]) + [1 if x[1] else 0], lg["complex"])
        # execute() starts of jobs dispatched in the same update race with each other: compare in complex-event
        # order (= the order of handler.handle calls, which is what the model logs)
        out += PL.enc_list(lambda x: [x[0], x[1]], sorted(lg["execs"], key=lambda x: x[1]))
        out += PL.enc_list(lambda e: enc_ev(e) + [int(e.action_name[3:]), 1 if e.success else 0, resp_of(e)], lg["aevents"])
        return out

    def quiet(self):
        return sum(sizes(self.engine, self.handler)) == 0 and not self.inflight

    def close(self):
        self.gates.open_all()
        close_pool(self.handler)


def run_pool_ops(ed, ops, workers, drain_cap=40, resolved=False):
    """ops over add / update / complete / remote, then a drain phase (complete the oldest job, update) whose
    operations are appended, so that the logs compared at the end are complete.
    -> (encoding, ops as performed, PoolRun (closed))"""
    pr = PoolRun(ed, workers)
    out, done = [], []
    try:
        for op in ops:
            if resolved and op[0] == "complete":
                if op[1] < pr.running():
                    pr.complete(op[1])
                op2 = op
            else:
                op2 = pr.apply(op)
            done.append(op2)
            out += pr.obs()
        if not resolved:
            n = 0
            while not pr.quiet() and n < drain_cap and sum(sizes(pr.engine, pr.handler)) <= 200:
                n += 1
                if pr.inflight:
                    pr.complete(0)
                    done.append(("complete", 0))
                    out += pr.obs()
                pr.engine.update()
                pr.settle()
                done.append(("update",))
                out += pr.obs()
            while pr.inflight:          # a self-feeding case that does not drain: at least let every job run
                pr.complete(0)
                done.append(("complete", 0))
                out += pr.obs()
        pr.settle()
        out += pr.final()
    finally:
        pr.close()
    return out, done, pr


def pop_coq(op):
    if op[0] == "add":
        return "(PAdd %s)" % zz(op[1])
    if op[0] == "update":
        return "PUpdate"
    if op[0] == "complete":
        return "(PComplete %s)" % cnat(op[1])
    return "(PRemote %s)" % PL.note_coq(op[1])


def pool_case_coq(ed, ops):
    return "(%s, %s)" % (edesc_coq(ed), clist([pop_coq(o) for o in ops]))
