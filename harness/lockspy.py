"""lockspy: a recording replacement for threading.RLock (C08).

Usage (in a FRESH process, before anything of bobocep is imported):

    import lockspy
    lockspy.install()          # from now on `from threading import RLock` inside bobocep binds the spy
    import bobocep ...
    lockspy.set_role("engine", multi=False)    # thread-local; set by the code that drives the thread

Only locks created by code of the `bobocep` package become spies (logging, threading.Condition,
multiprocessing ... keep the real RLock).  For every first (non re-entrant) acquisition by a thread with a
role the spy records the fact

    (role, multi, frozenset(names of the locks this thread holds), name of the requested lock)

at lock-INSTANCE granularity; `dump()` collapses instances to names (see there for when that is allowed).
A lock's name is `<module>.<attribute>` of the object that created it (`decider._lock`, `tcp._lock_local`,
...), plus a stable discriminator where one is registered (`devman[urn]._lock`).

The spy also keeps the wait-for relation (thread -> lock it is blocked on, lock -> owning thread) so that a
watchdog can recognise a real deadlock as a cycle in that relation (`find_wait_cycle`), and it offers a hook
that is called right before a thread blocks on a lock it does not own; the forcing mode parks threads there.
"""
import _thread
import sys
import threading

_real_rlock = threading.RLock
_tls = threading.local()
_meta = _thread.allocate_lock()       # protects the tables below; leaf, never held while blocking

PACKAGE = "bobocep"
DISCRIMINATORS = {}                   # module short name -> f(owner object) -> str
ALL_LOCKS = []                        # every spy created
FACTS = {}                            # (role, multi, tuple(sorted uids held), uid req) -> [count, site]
ACQUISITIONS = {}                     # role -> number of first acquisitions recorded
REENTRANT = [0]
WAITING = {}                          # thread ident -> SpyRLock it is blocked on (only while blocked)
THREAD_ROLE = {}                      # thread ident -> role (for reports)
THREAD_ROLE_TAGGED = set()            # idents of threads tagged by the driving code (set_role)
HOOK = [None]                         # f(role, frozenset(held names), req name) before a blocking first acquire
QUEUE_OPS = dict(blocking_calls=0, would_block=[])


class LifeLock:
    """Pseudo-lock standing for 'the thread of this (single-instance) role is running': the thread holds it from
    start to end, and Thread.join() on it is a request for it - so that waiting for a thread to END while holding
    locks takes part in the lock-order analysis like any other wait."""
    __slots__ = ("_name", "ordinal", "_owner", "_mod")

    def __init__(self, role):
        self._name, self.ordinal, self._owner, self._mod = "alive:" + role, 0, None, "thread"

    @property
    def name(self):
        return self._name

    @property
    def uid(self):
        return (self._name, 0)


LIFE = {}                             # role -> LifeLock
JOIN_TARGETS = {}                     # id(Thread object) -> role whose end a join() on it waits for


def life_lock(role):
    with _meta:
        lk = LIFE.get(role)
        if lk is None:
            lk = LIFE[role] = LifeLock(role)
            ALL_LOCKS.append(lk)
    return lk


def set_role(role, multi=False, life=False):
    """role None: harness-internal thread, nothing is recorded for it.  life: this thread IS the (single) thread of
    the role; it holds the role's LifeLock until end_role()."""
    _tls.role = (role, bool(multi))
    THREAD_ROLE[_thread.get_ident()] = role
    THREAD_ROLE_TAGGED.add(_thread.get_ident())
    if life and role is not None:
        lk = life_lock(role)
        lk._owner = _thread.get_ident()
        _held().append(lk)


def end_role():
    held = _held()
    for i in range(len(held) - 1, -1, -1):
        if isinstance(held[i], LifeLock):
            if held[i]._owner == _thread.get_ident():
                held[i]._owner = None
            del held[i]


def auto_role(thread):
    """role of a thread nobody tagged (the pools' worker and bookkeeping threads): by the stem of its name"""
    return "untagged:" + thread.name.split("-")[0].split(" ")[0]


def get_role():
    r = getattr(_tls, "role", None)
    if r is None:     # a thread nobody tagged: recorded, and reported as such
        r = (auto_role(threading.current_thread()), True)
        _tls.role = r
        THREAD_ROLE[_thread.get_ident()] = r[0]
        # ... it is alive for as long as it asks for locks: whoever joins a thread of this kind waits for that
        lk = life_lock(r[0])
        _held().append(lk)
    return r


def _held():
    h = getattr(_tls, "held", None)
    if h is None:
        h = _tls.held = []
    return h


def _site():
    f = sys._getframe(2)
    while f is not None and f.f_globals.get("__name__") == __name__:
        f = f.f_back
    if f is None:
        return "?"
    return "%s:%s" % (f.f_globals.get("__name__", "?").rsplit(".", 1)[-1], f.f_code.co_name)


class SpyRLock:
    __slots__ = ("_lk", "_owner", "_count", "_creator", "_mod", "_name", "ordinal")

    def __init__(self, creator, mod):
        self._lk = _real_rlock()
        self._owner = None
        self._count = 0
        self._creator = creator
        self._mod = mod
        self._name = None
        self.ordinal = 0

    # -- naming ---------------------------------------------------------------------------
    @property
    def name(self):
        n = self._name
        if n is None:
            attr = "_lock?"
            try:
                for k, v in vars(self._creator).items():
                    if v is self:
                        attr = k
                        break
            except TypeError:
                pass
            disc = DISCRIMINATORS.get(self._mod)
            tag = ""
            if disc is not None:
                try:
                    tag = "[%s]" % disc(self._creator)
                except Exception:
                    tag = "[?]"
            n = "%s%s.%s" % (self._mod, tag, attr)
            with _meta:
                if self._name is None:
                    self.ordinal = sum(1 for l in ALL_LOCKS if l._name == n)
                    self._name = n
        return self._name

    @property
    def uid(self):
        return (self.name, self.ordinal)

    # -- lock protocol --------------------------------------------------------------------
    def acquire(self, blocking=True, timeout=-1):
        me = _thread.get_ident()
        if self._owner == me:                      # re-entrant: the owner passes, not a fact
            self._lk.acquire()
            self._count += 1
            REENTRANT[0] += 1
            return True
        role, multi = get_role()
        held = _held()
        if role is not None:
            key = (role, multi, tuple(sorted(l.uid for l in held)), self.uid)
            with _meta:
                rec = FACTS.get(key)
                if rec is None:
                    FACTS[key] = [1, _site()]
                else:
                    rec[0] += 1
                ACQUISITIONS[role] = ACQUISITIONS.get(role, 0) + 1
            hook = HOOK[0]
            if hook is not None and blocking:
                hook(role, frozenset(l.name for l in held), self.name)
        WAITING[me] = self
        try:
            ok = self._lk.acquire(blocking, timeout)
        finally:
            WAITING.pop(me, None)
        if ok:
            self._owner = me
            self._count = 1
            held.append(self)
        return ok

    def release(self):
        me = _thread.get_ident()
        if self._owner != me:
            raise RuntimeError("cannot release un-acquired lock")
        self._count -= 1
        if self._count == 0:
            self._owner = None
            held = _held()
            for i in range(len(held) - 1, -1, -1):
                if held[i] is self:
                    del held[i]
                    break
        self._lk.release()

    __enter__ = acquire

    def __exit__(self, *a):
        self.release()

    def _is_owned(self):
        return self._owner == _thread.get_ident()

    def locked(self):
        return self._owner is not None

    def __repr__(self):
        return "<SpyRLock %s#%d owner=%r>" % (self.name, self.ordinal, self._owner)


def _factory(*a, **k):
    f = sys._getframe(1)
    modname = f.f_globals.get("__name__", "")
    if not (modname == PACKAGE or modname.startswith(PACKAGE + ".")):
        return _real_rlock(*a, **k)
    lk = SpyRLock(f.f_locals.get("self"), modname.rsplit(".", 1)[-1])
    with _meta:
        ALL_LOCKS.append(lk)
    return lk


def _install_queue_watch():
    """All queue accesses of bobocep are meant to be non-blocking (get_nowait / put after a full() test under
    the owner's lock).  Count the calls that could block and note the ones that really would."""
    import queue
    real_put, real_get = queue.Queue.put, queue.Queue.get

    def from_pkg():
        m = sys._getframe(2).f_globals.get("__name__", "")
        return m == PACKAGE or m.startswith(PACKAGE + ".")

    def put(self, item, block=True, timeout=None):
        if block and from_pkg() and self.maxsize > 0:
            QUEUE_OPS["blocking_calls"] += 1
            if self.qsize() >= self.maxsize:
                QUEUE_OPS["would_block"].append(("put", get_role()[0], sorted(l.name for l in _held()), _site()))
                if timeout is None:
                    # the caller would now sleep, with the locks it holds, until another thread takes an item:
                    # recorded above; do not really park the workload on it
                    raise queue.Full
        return real_put(self, item, block, timeout)

    def get(self, block=True, timeout=None):
        if block and from_pkg():
            QUEUE_OPS["blocking_calls"] += 1
            if self.qsize() == 0:
                QUEUE_OPS["would_block"].append(("get", get_role()[0], sorted(l.name for l in _held()), _site()))
                if timeout is None:
                    raise queue.Empty
        return real_get(self, block, timeout)

    queue.Queue.put = put
    queue.Queue.get = get


def _install_join_watch():
    real_join = threading.Thread.join

    def join(self, timeout=None):
        role = JOIN_TARGETS.get(id(self))
        if role is None and timeout is None and self.ident is not None and self.ident not in THREAD_ROLE_TAGGED:
            role = auto_role(self)       # a join without timeout on a pool thread (pool.join() under the handler lock)
        if role is None or timeout is not None:
            return real_join(self, timeout)
        me = _thread.get_ident()
        lk = life_lock(role)
        r, multi = get_role()
        if r is not None and lk._owner != me:
            held = _held()
            key = (r, multi, tuple(sorted(l.uid for l in held)), lk.uid)
            with _meta:
                rec = FACTS.get(key)
                if rec is None:
                    FACTS[key] = [1, _site()]
                else:
                    rec[0] += 1
                ACQUISITIONS[r] = ACQUISITIONS.get(r, 0) + 1
            hook = HOOK[0]
            if hook is not None:
                hook(r, frozenset(l.name for l in held), lk.name)
        WAITING[me] = lk
        try:
            return real_join(self, timeout)
        finally:
            WAITING.pop(me, None)
    threading.Thread.join = join


def install():
    if any(m == PACKAGE or m.startswith(PACKAGE + ".") for m in sys.modules):
        raise RuntimeError("lockspy.install() must run before %s is imported" % PACKAGE)
    threading.RLock = _factory
    _install_queue_watch()
    _install_join_watch()


# ------------------------------------------------------------------------------------- reports
def find_wait_cycle():
    """A cycle thread -> (lock it waits for) -> owner thread -> ... ; None if there is none.  A cycle in the
    wait-for relation of re-entrant locks never dissolves: it is a deadlock, not a slow moment."""
    waiting = dict(WAITING)
    for start in list(waiting):
        seen, t = [], start
        while t in waiting and t not in seen:
            seen.append(t)
            t = waiting[t]._owner
        if t is not None and t in seen:
            cyc = seen[seen.index(t):]
            if len(cyc) >= 2 and all(waiting.get(x) is not None for x in cyc):
                # confirm it is stable (owners unchanged)
                if all(dict(WAITING).get(x) is waiting[x] for x in cyc):
                    out = [dict(thread=THREAD_ROLE.get(x, str(x)), waits_for=waiting[x].name,
                                holds=sorted(l.name for l in ALL_LOCKS if l._owner == x)) for x in cyc]
                    k = min(range(len(out)), key=lambda i: (out[i]["thread"], out[i]["waits_for"]))
                    return out[k:] + out[:k]          # same cycle, canonical starting point
    return None


def dump():
    """Collapse lock instances to names and return the distinct facts.

    Soundness of collapsing: `req in held q` on names over-approximates the same test on instances (more
    support, fewer eliminations).  Disjointness of held sets on names is only right when a name that occurs
    in some held set denotes ONE lock instance; a name with several instances that is ever held while another
    lock is requested is therefore kept apart per instance (`name#k`).  Names that are only ever requested
    (pure leaves: run, device, id generator locks) are collapsed."""
    with _meta:
        facts = {k: list(v) for k, v in FACTS.items()}
        locks = list(ALL_LOCKS)
    inst = {}
    for l in locks:
        if l._name is not None:
            inst.setdefault(l._name, set()).add(l.ordinal)
    held_names = set()
    nesting = set()
    for (role, multi, held, req) in facts:
        for (n, o) in held:
            held_names.add(n)
            if n == req[0] and o != req[1]:
                nesting.add(n)
    distinguished = sorted(n for n in held_names if len(inst.get(n, ())) > 1)

    def nm(u):
        return "%s#%d" % u if u[0] in distinguished else u[0]
    out = {}
    for (role, multi, held, req), (cnt, site) in facts.items():
        key = (role, multi, tuple(sorted(set(nm(u) for u in held))), nm(req))
        if key[3] in key[2]:
            continue    # same name, other instance, collapsed leaf: cannot happen for distinguished names
        rec = out.setdefault(key, [0, site])
        rec[0] += cnt
    flist = [dict(role=k[0], multi=k[1], held=list(k[2]), req=k[3], count=v[0], site=v[1])
             for k, v in sorted(out.items())]
    return dict(facts=flist,
                acquisitions=dict(ACQUISITIONS), reentrant=REENTRANT[0],
                lock_names=sorted(set(nm((n, o)) for n, os_ in inst.items() for o in os_)),
                instances={n: len(v) for n, v in sorted(inst.items())},
                same_name_nesting=sorted(nesting), distinguished=distinguished,
                never_acquired=sorted(set(l._mod for l in locks if l._name is None)),
                queue_blocking_calls=QUEUE_OPS["blocking_calls"], queue_would_block=QUEUE_OPS["would_block"])
