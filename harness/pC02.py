"""C02 One complex event, one action run, one action event per completed run."""
import itertools

import common
import gen_patterns as G
import predlang as PL
import sim_engine as SE
from par import pmap

PROP = "C02"
PROPERTY_FILES = ["Properties/C02.v", "Properties/C02pool.v", "Properties/C02pubsub.v"]
META = dict(
    level_text="Theorems (Coq) about the engine model (four FIFO task queues + blocking handler, wired as BoboEngine "
               "does), for every engine configuration (times_* any naturals, early_stop on/off), every pattern set, "
               "every interleaving of add_data / update() / remote notes: conservation invariants of every reachable "
               "state - everything put into the receiver = seen by the decider ++ decider queue ++ receiver queue in "
               "FIFO order with the same data; completed records = complex events ++ producer queue; complex events "
               "accepted by the forwarder = handled ++ forwarder queue; executions = one per handled complex event of "
               "a phenomenon with an action; action events ++ handler queue = responses of the executions; every "
               "complex and action event re-enters the receiver exactly once; halted runs contribute to none; at "
               "quiescence the logs are in one-to-one correspondence; each update() cycle consumes the head of every "
               "non-empty task queue (nothing is stranded) and the while-loops terminate. ASYNCHRONOUS (pool) "
               "handlers, Properties/C02pool.v over Model/EnginePool.v (same receiver/decider/producer/loops; handing a "
               "complex event over puts a job in flight, `Complete k` = any in-flight job finishes at any time, every "
               "forwarder update polls the handler once and takes the oldest response): the conservation invariant "
               "PInv in every state reachable by any interleaving of add_data / update() / Complete k / remote notes, "
               "also at the grain of single task updates (completions in the middle of update()): executions = one per "
               "handled complex event with an action ~ (permutation) reported ++ response queue ++ in flight, action "
               "events = delivered responses in completion order each with its own job's data, each re-enters the "
               "receiver once; one-to-one at quiescence (queues empty, nothing in flight); progress: a cycle that "
               "starts with a non-empty response queue delivers its oldest response whatever the four task queues "
               "hold (false of an engine that skips idle rounds - refuted variant in the file), the i-th finished job "
               "is the i-th action event within i+1 cycles, times_forwarder=0 drains the response queue. PARTIAL: "
               "which worker finishes when is the environment's choice (oracle), pickling and queue bounds are not "
               "modelled; interleaving = sequential composition of atomic task updates.",
    level_note="Trusted: Coq kernel; harness mirrors; RLock mutual exclusion makes task updates atomic; deterministic "
               "id/timestamp generators in the harness.",
    rule="op sequences over {add_data d, update()} (+ remote notes) for every configuration times_* in 0..2 x "
         "early_stop (162, all covered), phenomena with/without action and datagen, patterns that do and do not "
         "consume fed-back events; non-trivial = at least one run completed. Pool model: the same space plus "
         "`complete k` operations on the REAL BoboActionHandlerMultithreading (2-4 workers), the harness choosing "
         "which running job finishes through per-job gates, every case drained (complete oldest, update) at the end; "
         "sizes, in-flight count and log lengths compared after EVERY operation, full logs at the end",
    trusted_base=["harness/sim_engine.py, predlang.py"],
    assumptions=["task update() calls are atomic (per-task RLock)", "validator accepts everything (C18 covers validators)",
                 "pool model: a worker's execute + queue.put is one atomic completion; unbounded queues; actions return"])

CONFIGS = [(a, b, c, d, e) for a in range(3) for b in range(3) for c in range(3) for d in range(3) for e in (True, False)]


def gen_cases(ctx):
    rng = ctx.rng
    cases = []
    n = 0
    reps = 6 if ctx.quick else 120
    for tr, td, tp, tf, early in CONFIGS:
        for _ in range(reps):
            n += 1
            if rng.random() < 0.6:
                shape = rng.choice(G.shapes(3))
                pats = [G.pattern(1, G.assign(shape, rng.choice([0, 1]), "distinct"), *G.VARIANTS[rng.choice([0, 0, 1, 3])])]
                phen = [(1, pats)]
                if rng.random() < 0.4:   # a second phenomenon that consumes complex events of the first
                    phen.append((2, [G.pattern(2, [G.blk([("cof", 1, 1)], "R", 1), G.blk([("deq", 2)], "R", 2)])]))
                cfg = dict(phen=phen, maxcache=rng.choice([0, 20]), idbase=1000)
            else:
                cfg = G.rand_config(rng, maxblocks=4)
                # fed-back complex/action events may be consumed by later blocks, but (except in one case in eight,
                # kept small) they start no run: otherwise every event breeds several and the stream explodes
                free = rng.random() < 0.125
                if free:
                    cfg["phen"] = [(cfg["phen"][0][0], cfg["phen"][0][1][:1])]
                else:
                    for _ph, ps in cfg["phen"]:
                        for p in ps:
                            b0 = p["blocks"][0]
                            b0["preds"] = [("and", ("kind", 0), q) for q in b0["preds"]]
            phs = [k for k, _ in cfg["phen"]]
            ed = dict(cfg=cfg, tr=tr, td=td, tp=tp, tf=tf, early=early, local_only=rng.random() < 0.8,
                      datagen=[(k, 70 + k) for k in phs if rng.random() < 0.5],
                      act=[(k, (k, rng.random() < 0.7, 90 + k)) for k in phs if rng.random() < 0.7])
            ops = []
            for _ in range(rng.randint(3, 10)):
                r = rng.random()
                if r < 0.55:
                    ops.append(("add", rng.choice([1, 2, 3, 4, 1, 2, 3, 4, 0, -1])))      # -1 stands for None, 0 is falsy
                elif r < 0.93 or cfg["maxcache"] == 0:
                    ops.append(("update",))
                else:
                    pats = [(ph, p) for ph, ps in cfg["phen"] for p in ps]
                    idmap = {2000 + i: rng.choice(pats) for i in range(2)}
                    evpool = [(900 + k, 50 + k, 0, (k % 5) + 1, 0, 0) for k in range(4)]
                    ops.append(("remote", G.rand_note(rng, cfg, idmap, evpool)))
            ops += [("update",)] * rng.randint(0, 4)
            if sum(1 for o in ops if o[0] == "update") > 7 and "free" in dir() and free:
                ops = [o for o in ops if o[0] != "update"] + [("update",)] * 7
            free = False
            cases.append((ed, ops))
    # degenerate but accepted configurations: an engine without phenomena (a validating relay) and one whose only
    # phenomenon has no action and no generated data - the data still pass once and in order, nothing is stranded
    for tr, td, tp, tf, early in CONFIGS[::3]:
        for phen in ([], [(1, [G.pattern(1, G.assign(["R"], 0, "distinct"))])]):
            ed = dict(cfg=dict(phen=phen, maxcache=0, idbase=1000), tr=tr, td=td, tp=tp, tf=tf, early=early, local_only=True,
                      datagen=[], act=[])
            cases.append((ed, [("add", 1), ("add", 2), ("update",), ("add", 3), ("update",), ("update",), ("add", 0), ("update",),
                               ("update",), ("update",), ("update",)]))
    return cases


def drain(engine, handler, cap=60, log=None):
    def activity():
        return sum(len(log[k]) for k in ("seen", "complex", "execs", "aevents")) if log is not None else None
    hist = []
    for _ in range(cap):
        sz = SE.sizes(engine, handler)
        n = sum(sz)
        if n == 0:
            return True
        if n > 300:              # a pattern that feeds on its own complex / action events: the stream only grows
            return False
        hist.append((tuple(sz), activity()))
        engine.update()
    sz = (tuple(SE.sizes(engine, handler)), activity())
    if sum(sz[0]) == 0:
        return True
    if log is not None and len(hist) >= 30 and all(h == sz for h in hist[-30:]):
        # thirty update() calls moved nothing and produced nothing (a pattern feeding on its own output keeps
        # producing events with constant queue sizes: that is not this): something is stranded in a queue
        return "stuck %s" % (sz[0],)
    return False


def work(case):
    ed, ops = case
    try:
        out, engine, handler, log = SE.run_ops(ed, ops)
        quiescent = drain(engine, handler, log=log)
    except Exception as ex:      # noqa: the engine's loop thread would end here
        return [-999], True, dict(signature="engine-update-raised", detail=None,
                                  what="%s escaped the engine on valid input: %s (the run that was being handled yields no "
                                       "complex event / action / action event)" % (type(ex).__name__, ex)), False
    fail = None
    adds = [op[1] for op in ops if op[0] == "add"]

    def bad(sig, what, detail=None):
        return dict(signature=sig, what=what, detail=detail)
    if isinstance(quiescent, str):
        fail = bad("stranded-in-a-queue", "no input is pending and 30 further update() calls change nothing, yet the queues "
                                         "(receiver, decider, producer, forwarder, handler) hold %s" % quiescent[6:])
        quiescent = False
    elif quiescent:
        seen = log["seen"]
        simple = [PL.dval(e) for e in seen if PL.kind_of(e) == 0]
        if simple != adds:
            fail = bad("data-lost-duplicated-or-reordered", "data accepted %s but the decider saw simple events %s" % (adds, simple))
        comp = log["completed"]
        cx = log["complex"]
        if fail is None and len(cx) != len(comp):
            fail = bad("complex-event-count", "%d completed runs but %d complex events" % (len(comp), len(cx)))
        if fail is None:
            dg = dict(ed["datagen"])
            for (r, loc), (e, loc2) in zip(comp, cx):
                ph = PL.code_of(r.phenomenon_name)
                want = dg.get(ph, None)
                if (e.phenomenon_name, e.pattern_name, loc2) != (r.phenomenon_name, r.pattern_name, loc) or \
                        e.history.to_json_str() != r.history.to_json_str() or e.data != want:
                    fail = bad("complex-event-content", "complex event does not carry the completed run's phenomenon/pattern/history/datagen data")
                    break
        acts = dict(ed["act"])
        if fail is None:
            expect_exec = [PL.ev_code(e) for e, loc in cx
                           if (loc or not ed["local_only"]) and PL.code_of(e.phenomenon_name) in acts]
            got_exec = [x[1] for x in log["execs"]]
            if sorted(expect_exec) != sorted(got_exec):
                fail = bad("action-execution-count", "complex events needing an action %s, executions %s" % (expect_exec, got_exec))
        if fail is None:
            if len(log["aevents"]) != len(log["execs"]):
                fail = bad("action-event-count", "%d executions but %d action events" % (len(log["execs"]), len(log["aevents"])))
            else:
                for (code, ceid), ae in zip(log["execs"], log["aevents"]):
                    a = acts[code]
                    if (ae.action_name, ae.success, ae.data) != ("act%d" % a[0], a[1], a[2]):
                        fail = bad("action-event-content", "action event does not report its execution's name/success/data")
        if fail is None:
            fed = [PL.ev_code(e) for e in seen if PL.kind_of(e) != 0]
            made = [PL.ev_code(e) for e, _ in cx] + [PL.ev_code(e) for e in log["aevents"]]
            if sorted(fed) != sorted(made):
                fail = bad("feedback-count", "complex/action events produced %s but re-entered the stream %s" % (sorted(made), sorted(fed)))
    nontrivial = len(log["completed"]) > 0
    return out, nontrivial, fail, quiescent


def pool_one(ed, nact, workers):
    """nact completed runs on the multithreaded handler, all actions in flight before any response is collected"""
    import threading
    import time
    gate = threading.Event()
    engine, handler, log = SE.make_engine(ed, handler_kind="thread", workers=workers, gate=gate)
    try:
        for _ in range(nact):
            engine.receiver.add_data(1)
        for _ in range(nact + 2):
            engine.update()                      # all actions dispatched, none finished
        gate.set()
        deadline = time.time() + 10
        while time.time() < deadline:
            engine.update()
            if len(log["aevents"]) >= nact and sum(SE.sizes(engine, handler)) == 0:
                break
            time.sleep(0.01)
        for _ in range(5):
            engine.update()
        time.sleep(0.05)
        engine.update()
    finally:
        gate.set()
        handler.close()
    got = (len(log["complex"]), len(log["execs"]), len(log["aevents"]), handler.size())
    if got != (nact, nact, nact, 0):
        return dict(signature="pool-handler-response-lost-or-stranded",
                    what="%d completed runs on the multithreaded handler with %d workers: complex events %d, executions %d, "
                         "action events %d, responses left in the handler queue %d" % ((nact, workers) + got),
                    case=dict(ed=ed, ops=[["add", 1]] * nact, handler="multithreading", workers=workers), detail=None)
    return None


def pool_half(ctx, res):
    """the multithreaded handler: several actions in flight at once, responses collected later"""
    rng = ctx.rng
    for k in range(12 if ctx.quick else 80):
        nact = rng.randint(2, 5)
        workers = rng.randint(2, 4)
        cfg = dict(phen=[(1, [G.pattern(1, [G.blk([("and", ("kind", 0), ("deq", 1))], "R", 1)])])], maxcache=0, idbase=1000)
        ed = dict(cfg=cfg, tr=0, td=0, tp=0, tf=rng.choice([0, 1, 2]), early=rng.random() < 0.5, local_only=True,
                  datagen=[], act=[(1, (1, True, 9))])
        f = pool_one(ed, nact, workers)
        res.note_case(("pool", k, nact, workers), True)
        res.count("pool_batches")
        if f:
            res.failures.append(f)


# ------------------------------------------------------------------------------------------------------------
# the engine on the real thread-pool handler vs Model/EnginePool.v (run_C02pool); completion order by gates
def gen_pool_cases(ctx):
    rng = ctx.rng
    cases = []
    reps = 3 if ctx.quick else 40
    for tr, td, tp, tf, early in CONFIGS:
        for _ in range(reps):
            fam = rng.random()
            if fam < 0.45:      # completes on every datum 1: several jobs in flight at once
                cfg = dict(phen=[(1, [G.pattern(1, [G.blk([("and", ("kind", 0), ("deq", 1))], "R", 1)])])],
                           maxcache=rng.choice([0, 20]), idbase=1000)
                if rng.random() < 0.3:   # a second phenomenon fed by the complex events of the first
                    cfg["phen"].append((2, [G.pattern(2, [G.blk([("cof", 1, 1)], "R", 1)])]))
            elif fam < 0.8:
                shape = rng.choice(G.shapes(2))
                pats = [G.pattern(1, G.assign(shape, rng.choice([0, 1]), "distinct"), *G.VARIANTS[rng.choice([0, 0, 1, 3])])]
                phen = [(1, pats)]
                if rng.random() < 0.3:   # a second phenomenon that consumes complex events of the first
                    phen.append((2, [G.pattern(2, [G.blk([("cof", 1, 1)], "R", 1), G.blk([("deq", 2)], "R", 2)])]))
                cfg = dict(phen=phen, maxcache=rng.choice([0, 20]), idbase=1000)
            else:
                cfg = G.rand_config(rng, maxblocks=3)
                # fed-back complex / action events start no run (a pattern that feeds on its own output only grows:
                # with a seed that draws one, the drain phase of this correspondence took more than 15 minutes)
                for _ph, ps in cfg["phen"]:
                    for p in ps:
                        b0 = p["blocks"][0]
                        b0["preds"] = [("and", ("kind", 0), q) for q in b0["preds"]]
            phs = [k for k, _ in cfg["phen"]]
            ed = dict(cfg=cfg, tr=tr, td=td, tp=tp, tf=tf, early=early, local_only=rng.random() < 0.8,
                      datagen=[(k, 70 + k) for k in phs if rng.random() < 0.5],
                      act=[(k, (k, rng.random() < 0.7, 90 + k)) for k in phs if k == 1 or rng.random() < 0.8])
            ops = []
            if rng.random() < 0.6:      # a burst first: input, then cycles, so that jobs pile up in flight
                ops += [("add", rng.choice([1, 1, 1, 2]))] * 1 * rng.randint(2, 4)
                ops += [("update",)] * rng.randint(1, 3)
            for _ in range(rng.randint(4, 12)):
                r = rng.random()
                if r < 0.4:
                    ops.append(("add", rng.choice([1, 2, 3, 1, 2, 1, 1, 2, 4, 0, -1])))
                elif r < 0.68:
                    ops.append(("update",))
                elif r < 0.95 or cfg["maxcache"] == 0:
                    ops.append(("complete", rng.randint(0, 5)))
                else:
                    pats = [(ph, p) for ph, ps in cfg["phen"] for p in ps]
                    idmap = {2000 + i: rng.choice(pats) for i in range(2)}
                    evpool = [(900 + k, 50 + k, 0, (k % 5) + 1, 0, 0) for k in range(4)]
                    ops.append(("remote", G.rand_note(rng, cfg, idmap, evpool)))
            cases.append((ed, ops, rng.randint(2, 4)))
    return cases


def pool_oracle(ed, ops, pr):
    """the property itself on the implementation (no model): after the drain phase"""
    log, engine, handler = pr.log, pr.engine, pr.handler

    def bad(sig, what, detail=None):
        return dict(signature=sig, what=what, detail=detail)
    if pr.lost:
        return bad("pool-handler-response-lost-or-stranded",
                   "%d job(s) finished on the thread pool but no response reached the handler queue" % pr.lost)
    sz = SE.sizes(engine, handler)
    if not pr.quiet():
        if sum(sz[:4]) == 0 and not pr.inflight:
            return bad("pool-handler-response-lost-or-stranded",
                       "all four task queues empty, no job in flight, update() called %d more times, but %d response(s) "
                       "still wait in the handler queue: %d executions, %d action events"
                       % (sum(1 for o in ops if o[0] == "update"), sz[4], len(log["execs"]), len(log["aevents"])))
        return None          # a pattern that feeds on its own action events: never quiescent, nothing to count
    adds = [op[1] for op in ops if op[0] == "add"]
    seen, comp, cx = log["seen"], log["completed"], log["complex"]
    simple = [PL.dval(e) for e in seen if PL.kind_of(e) == 0]
    if simple != adds:
        return bad("data-lost-duplicated-or-reordered", "data accepted %s but the decider saw simple events %s" % (adds, simple))
    if len(cx) != len(comp):
        return bad("complex-event-count", "%d completed runs but %d complex events" % (len(comp), len(cx)))
    acts = dict(ed["act"])
    expect = sorted(PL.ev_code(e) for e, loc in cx if (loc or not ed["local_only"]) and PL.code_of(e.phenomenon_name) in acts)
    if expect != sorted(pr.submitted) or expect != sorted(x[1] for x in log["execs"]):
        return bad("action-execution-count", "complex events needing an action %s, handed to the handler %s, executed %s"
                   % (expect, sorted(pr.submitted), sorted(x[1] for x in log["execs"])))
    if len(log["aevents"]) != len(expect) or sorted(pr.responses) != expect:
        return bad("action-event-count", "%d executions (complex events %s) but %d action events reporting %s"
                   % (len(expect), expect, len(log["aevents"]), sorted(pr.responses)))
    cx_by = {PL.ev_code(e): e for e, _ in cx}
    for ae, ceid in zip(log["aevents"], pr.responses):
        ce = cx_by[ceid]
        a = acts[PL.code_of(ce.phenomenon_name)]
        if (ae.action_name, ae.success, ae.data, ae.phenomenon_name, ae.pattern_name) != \
                ("act%d" % a[0], a[1], a[2], ce.phenomenon_name, ce.pattern_name):
            return bad("action-event-content", "action event does not report its own execution's name/success/data/phenomenon/pattern")
    fed = sorted(PL.ev_code(e) for e in seen if PL.kind_of(e) != 0)
    made = sorted([PL.ev_code(e) for e, _ in cx] + [PL.ev_code(e) for e in log["aevents"]])
    if fed != made:
        return bad("feedback-count", "complex/action events produced %s but re-entered the stream %s" % (made, fed))
    return None


def work_pool(case, resolved=False):
    ed, ops, workers = case
    out, done, pr = SE.run_pool_ops(ed, ops, workers, resolved=resolved)
    fail = pool_oracle(ed, done, pr)
    ncomplete = sum(1 for o in done if o[0] == "complete")
    reordered = pr.responses != sorted(pr.responses)
    return out, done, len(pr.submitted), ncomplete, reordered, pr.quiet(), fail


def pool_corr(ctx, res):
    cases = gen_pool_cases(ctx)
    results = pmap(work_pool, cases)
    coq_cases, meta = [], []
    for (ed, ops, workers), (out, done, nsub, ncomp, reord, quiet, fail) in zip(cases, results):
        case = dict(ed=ed, ops=done, handler="pool-gated", workers=workers)
        res.note_case(("poolcorr", SE.edesc_coq(ed), repr(done), workers), nsub > 0)
        res.count("pool_cfg_%d%d%d%d_%s" % (ed["tr"], ed["td"], ed["tp"], ed["tf"], "e" if ed["early"] else "n"))
        res.count("pool_quiescent" if quiet else "pool_self_feeding_not_drained")
        res.count("pool_jobs_%s" % (nsub if nsub < 4 else "4+"))
        if reord:
            res.count("pool_completion_order_differs_from_submission_order")
        coq_cases.append((SE.pool_case_coq(ed, done), out))
        meta.append(case)
        if fail:
            res.failures.append(dict(signature=fail["signature"], what=fail["what"], case=case, detail=fail["detail"]))
    res.extra["pool_configurations_covered"] = sum(1 for k in res.distribution if k.startswith("pool_cfg_"))
    res.distribution = {k: v for k, v in res.distribution.items() if not k.startswith("pool_cfg_")}
    res.samples.append(meta[0])
    mism, errs = common.coq_run_cases("C02pool", SE.IMPORTS_POOL, "run_C02pool", "(edesc * list pop)", coq_cases, shard=100)
    res.errors += errs
    res.traces_validated += len(coq_cases) - len(mism)
    mism.sort(key=lambda m: len(repr(meta[m[0]])))
    res.extra["pool_model_cases"] = len(coq_cases)
    res.extra["pool_model_mismatches"] = len(mism)
    if mism:
        res.extra["pool_model_first_mismatch"] = dict(case=meta[mism[0][0]], impl=coq_cases[mism[0][0]][1], model=mism[0][1])
    for idx, model_out in mism[:10]:
        res.mismatches.append(dict(case=meta[idx], impl=coq_cases[idx][1], model=model_out))


# ---------------------------------------------------------------------------------------------
# the engine as the library's own set-up class assembles it (documented defaults), with data, generated data and
# action results that are ordinary Python objects rather than JSON values
class _Opaque:
    def __repr__(self):
        return "Opaque()"


SETUP_STREAMS = [
    ("x01", "a", "set", "obj", "b", 7),
    ("a", "obj", "b", "a", "b"),
    ("tuple", "a", "b", "nan", "a", "bytes", "b"),
]


def setup_one(stream, every, handler_kind="blocking"):
    """BoboSetupSimple(phenomena, handler) with nothing else given: phenomenon low = 'a' then 'b' (generated data:
    the contributing events themselves; action result: a set), phenomenon high = complex event of low, then action
    event of low.  Every datum must reach the decider once and in order, low's complex and action event must
    re-enter, high must complete once per completion of low."""
    from bobocep.cep.action.action import BoboAction
    from bobocep.cep.action.handler import BoboActionHandlerBlocking, BoboActionHandlerMultithreading
    from bobocep.cep.engine.receiver.pubsub import BoboReceiverSubscriber
    from bobocep.cep.engine.producer.pubsub import BoboProducerSubscriber
    from bobocep.cep.engine.forwarder.pubsub import BoboForwarderSubscriber
    from bobocep.cep.event import BoboEventSimple, BoboEventComplex, BoboEventAction
    from bobocep.cep.phenom.pattern.builder import BoboPatternBuilder
    from bobocep.cep.phenom.phenom import BoboPhenomenon
    from bobocep.setup.simple import BoboSetupSimple

    class Spy(BoboReceiverSubscriber, BoboProducerSubscriber, BoboForwarderSubscriber):
        def __init__(self):
            self.stream, self.complex, self.action = [], [], []

        def on_receiver_update(self, event):
            self.stream.append(event)

        def on_producer_update(self, event, local):
            self.complex.append(event)

        def on_forwarder_update(self, event):
            self.action.append(event)

    class Act(BoboAction):
        def __init__(self):
            super().__init__(name="act_low")
            self.calls = []

        def execute(self, event):
            self.calls.append(event)
            return True, {"ops", "audit"}

    values = {"x01": b"\x01\x02", "set": {1, 2, 3}, "obj": _Opaque(), "tuple": (1, (2, 3)), "nan": float("nan"),
              "bytes": bytes(range(5))}
    data = [values.get(d, d) for d in stream]
    act = Act()
    low = BoboPhenomenon(name="low", patterns=[
        BoboPatternBuilder("ab").followed_by(lambda e, h: isinstance(e, BoboEventSimple) and e.data == "a")
                                .followed_by(lambda e, h: isinstance(e, BoboEventSimple) and e.data == "b").generate()],
        action=act, datagen=lambda p, h: tuple(h.all_events()))
    high = BoboPhenomenon(name="high", patterns=[
        BoboPatternBuilder("ca").followed_by(lambda e, h: isinstance(e, BoboEventComplex) and e.phenomenon_name == "low")
                                .followed_by(lambda e, h: isinstance(e, BoboEventAction) and e.phenomenon_name == "low").generate()])
    handler = BoboActionHandlerBlocking() if handler_kind == "blocking" else BoboActionHandlerMultithreading(threads=2)
    engine = BoboSetupSimple(phenomena=[low, high], handler=handler).generate()
    spy = Spy()
    engine.receiver.subscribe(spy)
    engine.producer.subscribe(spy)
    engine.forwarder.subscribe(spy)
    try:
        for i, d in enumerate(data):
            engine.receiver.add_data(d)
            if i % every == every - 1:
                engine.update()
        import time as _t
        for _ in range(200):
            engine.update()
            if handler_kind != "blocking":
                _t.sleep(0.005)
            if (engine.receiver.size() == 0 and engine.decider.size() == 0 and engine.producer.size() == 0
                    and engine.forwarder.size() == 0 and handler.size() == 0 and _ > 3):
                break
    finally:
        if handler_kind != "blocking":
            handler.close()
    seen = [e.data for e in spy.stream if isinstance(e, BoboEventSimple)]
    if len(seen) != len(data) or any(a is not b for a, b in zip(seen, data)):
        return dict(signature="setup-default-datum-not-seen-once-in-order",
                    what="engine from BoboSetupSimple (defaults): data %r were added, the decider saw the simple events %r" % (data, seen))
    # runs of low: an 'a' followed (later) by a 'b' completes every open run; every 'a' opens one
    want, open_ = 0, 0
    for d in stream:
        if d == "a":
            open_ += 1
        elif d == "b":
            want, open_ = want + open_, 0
    n_c = sum(1 for c in spy.complex if c.phenomenon_name == "low")
    n_a = sum(1 for a in spy.action if a.phenomenon_name == "low")
    if (n_c, len(act.calls), n_a) != (want, want, want):
        return dict(signature="setup-default-counts", what="engine from BoboSetupSimple (defaults): %d runs of 'low' completed; complex events %d, "
                    "executions %d, action events %d" % (want, n_c, len(act.calls), n_a))
    back_c = sum(1 for e in spy.stream if isinstance(e, BoboEventComplex) and e.phenomenon_name == "low")
    back_a = sum(1 for e in spy.stream if isinstance(e, BoboEventAction) and e.phenomenon_name == "low")
    if (back_c, back_a) != (want, want):
        return dict(signature="setup-default-event-did-not-re-enter",
                    what="engine from BoboSetupSimple (defaults): %d completions of 'low', but %d complex and %d action events of it "
                         "re-entered the stream (generated data: a tuple of events; action result: a set)" % (want, back_c, back_a))
    return None


def two_engines_case(fed, rebuilt=False):
    """(rebuilt: the application builds a SECOND BoboEngine around the same four task objects - to change the time
    settings - and drives that one: the tasks are wired to each other once more, which must change nothing)
    two independent engines alive in one process (own tasks, phenomena, actions, handlers), only one is fed: the
    other must stay idle, and the fed one behaves as if alone.  -> failure text | None"""
    from bobocep.cep.action.action import BoboAction
    from bobocep.cep.action.handler import BoboActionHandlerBlocking
    from bobocep.cep.engine.receiver.pubsub import BoboReceiverSubscriber
    from bobocep.cep.engine.producer.pubsub import BoboProducerSubscriber
    from bobocep.cep.engine.forwarder.pubsub import BoboForwarderSubscriber
    from bobocep.cep.engine.decider.pubsub import BoboDeciderSubscriber
    from bobocep.cep.event import BoboEventSimple
    from bobocep.cep.phenom.pattern.builder import BoboPatternBuilder
    from bobocep.cep.phenom.phenom import BoboPhenomenon
    from bobocep.setup.simple import BoboSetupSimple

    def build(tag):
        class Spy(BoboReceiverSubscriber, BoboProducerSubscriber, BoboForwarderSubscriber, BoboDeciderSubscriber):
            def __init__(self):
                self.stream, self.complex, self.action, self.decided = [], [], [], []

            def on_receiver_update(self, event):
                self.stream.append(event)

            def on_producer_update(self, event, local):
                self.complex.append(event)

            def on_forwarder_update(self, event):
                self.action.append(event)

            def on_decider_update(self, completed, halted, updated, local):
                self.decided.append((len(completed), len(halted), len(updated)))

        class Act(BoboAction):
            def __init__(self):
                super().__init__(name="act_" + tag)
                self.calls = []

            def execute(self, event):
                self.calls.append(event)
                return True, tag
        act = Act()
        ph = BoboPhenomenon(name="ph_" + tag, patterns=[
            BoboPatternBuilder("ab").followed_by(lambda e, h: isinstance(e, BoboEventSimple) and e.data == 1)
                                    .followed_by(lambda e, h: isinstance(e, BoboEventSimple) and e.data == 2).generate()],
            action=act, datagen=lambda p, h: "alarm@" + tag)
        handler = BoboActionHandlerBlocking()
        engine = BoboSetupSimple(phenomena=[ph], handler=handler, urn=tag).generate()
        spy = Spy()
        engine.receiver.subscribe(spy)
        engine.decider.subscribe(spy)
        engine.producer.subscribe(spy)
        engine.forwarder.subscribe(spy)
        if rebuilt:
            from bobocep.cep.engine.engine import BoboEngine
            engine = BoboEngine(receiver=engine.receiver, decider=engine.decider, producer=engine.producer,
                                forwarder=engine.forwarder, times_receiver=0, times_decider=0, times_producer=0,
                                times_forwarder=0, early_stop=True)
        return engine, spy, act
    engines = {t: build(t) for t in ("north", "south")}
    other = "south" if fed == "north" else "north"
    for d in (0, 1, 5, 2, 7, 1, 2):
        engines[fed][0].receiver.add_data(d)
        for t in ("north", "south"):
            engines[t][0].update()
    for _ in range(12):
        for t in ("north", "south"):
            engines[t][0].update()
    e, spy, act = engines[other]
    if spy.stream or spy.complex or spy.action or spy.decided or act.calls:
        return ("engine %r was given no input, yet it saw %d events, %d complex events, %d action events, %d decider "
                "notifications and executed its action %d times" % (other, len(spy.stream), len(spy.complex), len(spy.action),
                                                                    len(spy.decided), len(act.calls)))
    e, spy, act = engines[fed]
    if (len(spy.complex), len(act.calls), len(spy.action)) != (2, 2, 2) or any(c.data != "alarm@" + fed for c in spy.complex):
        return ("engine %r completed 2 runs next to an idle engine: complex events %d, executions %d, action events %d, data %s"
                % (fed, len(spy.complex), len(act.calls), len(spy.action), [c.data for c in spy.complex]))
    return None


def closed_handler_engine():
    """the application closes its (blocking) action handler and then lets the engine flush what is still queued: every
    completed run still gets its complex event, its action execution and its action event (or the engine says so by
    raising) - nothing is dropped silently.  -> failure text | None"""
    import sim_engine as SE
    p = G.pattern(1, G.assign(["R"], 0, "distinct"))
    ed = dict(cfg=dict(phen=[(1, [p])], maxcache=0, idbase=1000), tr=0, td=0, tp=0, tf=1, early=True, local_only=True,
              datagen=[(1, 71)], act=[(1, (1, True, 91))])
    engine, handler, log = SE.make_engine(ed)
    for _ in range(3):
        engine.receiver.add_data(1)
    engine.update()                      # three runs complete; the forwarder takes one complex event per cycle
    handler.close()
    raised = None
    for _ in range(20):
        try:
            engine.update()
        except Exception as ex:          # noqa
            raised = type(ex).__name__
            break
    n = (len(log["completed"]), len(log["complex"]), len(log["execs"]), len(log["aevents"]))
    if raised is None and not (n[0] == n[1] == n[2] == n[3]):
        return ("handler closed while complex events were waiting in the forwarder, engine flushed without any error: %d completed "
                "runs, %d complex events, %d action executions, %d action events" % n)
    return None


def pubsub_impl(publisher, calls):
    """subscribe calls (subscriber numbers) on a fresh publisher of the named kind, then ONE notification: the numbers
    of the subscribers called back, in order"""
    from bobocep.cep.action.handler import BoboActionHandlerBlocking
    from bobocep.cep.engine.receiver.pubsub import BoboReceiverSubscriber
    from bobocep.cep.engine.decider.pubsub import BoboDeciderSubscriber
    from bobocep.cep.engine.producer.pubsub import BoboProducerSubscriber
    from bobocep.cep.engine.forwarder.pubsub import BoboForwarderSubscriber
    from bobocep.cep.phenom.pattern.builder import BoboPatternBuilder
    from bobocep.cep.phenom.phenom import BoboPhenomenon
    from bobocep.cep.action.action import BoboAction
    from bobocep.setup.simple import BoboSetupSimple
    got = []

    class Spy(BoboReceiverSubscriber, BoboDeciderSubscriber, BoboProducerSubscriber, BoboForwarderSubscriber):
        def __init__(self, k):
            self.k = k

        def on_receiver_update(self, event):
            got.append(self.k)

        def on_decider_update(self, completed, halted, updated, local):
            got.append(self.k)

        def on_producer_update(self, event, local):
            got.append(self.k)

        def on_forwarder_update(self, event):
            got.append(self.k)

    class Act(BoboAction):
        def execute(self, event):
            return True, None
    pat = BoboPatternBuilder("p").followed_by(lambda e, h: e.data == 1).generate()
    ph = BoboPhenomenon(name="ph", patterns=[pat], action=Act("act"))
    engine = BoboSetupSimple(phenomena=[ph], handler=BoboActionHandlerBlocking()).generate()
    task = getattr(engine, publisher)
    spies = {}
    for k in calls:
        task.subscribe(spies.setdefault(k, Spy(k)))
    engine.receiver.add_data(1)          # one simple event -> one completed run -> one complex event -> one action event
    want = {"receiver": 3}.get(publisher, 1)   # the complex and the action event re-enter through the receiver
    for _ in range(6):
        engine.update()
    return got, want


def pubsub_half(ctx, res):
    """Model/PubSub.v (Properties/C02pubsub.v): the four tasks as publishers, random sequences of subscribe() calls with
    repeats, then one datum through the engine"""
    rng = ctx.rng
    cases, meta = [], []
    for n in range(40 if ctx.quick else 400):
        pub = ("receiver", "decider", "producer", "forwarder")[n % 4]
        calls = [rng.randint(1, 4) for _ in range(rng.randint(0, 7))]
        got, want = pubsub_impl(pub, calls)
        first = got[:len(got) // want] if want and len(got) % want == 0 else got
        res.note_case(("pubsub", pub, tuple(calls)), len(set(calls)) < len(calls))
        if got != first * want or any(first.count(k) != 1 for k in set(calls)) or set(first) != set(calls):
            res.failures.append(dict(signature="subscriber-not-called-once-per-notification", detail=None,
                                     what="%s, subscribe() called for subscribers %s, one datum through the engine (%d "
                                          "notification(s) of this task): callbacks went to %s" % (pub, calls, want, got),
                                     case=dict(pubsub=pub, calls=calls)))
        cases.append(("[%s]" % "; ".join(str(k) for k in calls), first))
        meta.append((pub, calls))
    mism, errs = common.coq_run_cases("C02P", "Model.PubSub", "run_C02_pubsub", "(list Z)", cases)
    res.errors += errs
    res.traces_validated += len(cases) - len(mism)
    for idx, mo in mism[:5]:
        res.mismatches.append(dict(case=dict(pubsub=meta[idx][0], calls=meta[idx][1]), impl=cases[idx][1], model=mo))
    res.extra["pubsub_cases"] = len(cases)


def setup_half(ctx, res):
    bad = closed_handler_engine()
    res.note_case(("closed-handler-engine",), True)
    if bad:
        res.failures.append(dict(signature="action-dropped-after-handler-close", what=bad, detail=None,
                                 case=dict(closed_handler_engine=True)))
    for fed in ("north", "south"):
        bad = two_engines_case(fed)
        res.note_case(("two-engines", fed), True)
        if bad:
            res.failures.append(dict(signature="engines-in-one-process-not-independent", what=bad, detail=None,
                                     case=dict(two_engines=True, fed=fed)))
    bad = two_engines_case("north", rebuilt=True)
    res.note_case(("engine-rebuilt-around-the-same-tasks",), True)
    if bad:
        res.failures.append(dict(signature="tasks-wired-twice-deliver-twice", detail=None,
                                 what="a second BoboEngine built around the same task objects: " + bad,
                                 case=dict(two_engines=True, fed="north", rebuilt=True)))
    n = 0
    for stream in SETUP_STREAMS:
        for every in (1, 2, 3):
            for hk in ("blocking", "threads"):
                n += 1
                f = setup_one(stream, every, hk)
                res.note_case(("setup", stream, every, hk), True)
                if f:
                    f["case"] = dict(setup=True, stream=list(stream), every=every, handler=hk)
                    f["detail"] = None
                    res.failures.append(f)
    res.extra["setup_default_engines"] = n


def run(ctx, res):
    pool_half(ctx, res)
    setup_half(ctx, res)
    pubsub_half(ctx, res)
    cases = gen_cases(ctx)
    results = pmap(work, cases)
    coq_cases = []
    for (ed, ops), (out, nontrivial, fail, quiescent) in zip(cases, results):
        res.note_case((SE.edesc_coq(ed), repr(ops)), nontrivial)
        res.count("cfg_%d%d%d%d_%s" % (ed["tr"], ed["td"], ed["tp"], ed["tf"], "e" if ed["early"] else "n"))
        res.count("quiescent" if quiescent else "self_feeding_not_drained")
        coq_cases.append((SE.case_coq(ed, ops), out))
        if fail:
            res.failures.append(dict(signature=fail["signature"], what=fail["what"], case=dict(ed=ed, ops=ops), detail=fail["detail"]))
    res.failures.sort(key=lambda f: len(repr(f["case"])))
    res.samples = [dict(ed=cases[0][0], ops=cases[0][1])]
    dist = res.distribution
    res.extra["configurations_covered"] = sum(1 for k in dist if k.startswith("cfg_"))
    res.distribution = {k: v for k, v in dist.items() if not k.startswith("cfg_")}
    mism, errs = common.coq_run_cases("C02", SE.IMPORTS, "run_engine", "(edesc * list eop)", coq_cases, shard=100)
    res.errors += errs
    res.traces_validated = len(coq_cases) - len(mism)
    res.extra["blocking_model_cases"] = len(coq_cases)
    res.extra["blocking_model_mismatches"] = len(mism)
    for idx, model_out in mism[:10]:
        res.mismatches.append(dict(case=dict(ed=cases[idx][0], ops=cases[idx][1]), impl=coq_cases[idx][1], model=model_out))
    pool_corr(ctx, res)
    res.failures.sort(key=lambda f: len(repr(f["case"])))


def replay(obj):
    import pC12
    case = obj.get("case") or (obj.get("mismatches") or [{}])[0].get("case")
    if not case:
        print(obj)
        return 0
    if case.get("pubsub"):
        got, want = pubsub_impl(case["pubsub"], case["calls"])
        first = got[:len(got) // want] if want and len(got) % want == 0 else got
        model, _ = common.coq_eval("C02P", "Model.PubSub", "run_C02_pubsub [%s]" % "; ".join(str(k) for k in case["calls"]))
        print("%s: subscribe() for subscribers %s, then one datum through the engine" % (case["pubsub"], case["calls"]))
        print("implementation: callbacks to %s (%d notification(s))" % (got, want))
        print("model         : one notification calls back %s" % model)
        bad = got != first * want or first != model
        print("a subscriber is not called back exactly once per notification" if bad else "every subscriber once per notification")
        return 1 if bad else 0
    if case.get("closed_handler_engine"):
        bad = closed_handler_engine()
        print("oracle        :", bad or "every completed run got its complex event, execution and action event")
        return 1 if bad else 0
    if case.get("two_engines"):
        bad = two_engines_case(case["fed"], rebuilt=bool(case.get("rebuilt")))
        print("oracle        :", bad or "the engine that was not fed stayed idle; the fed one: one complex event, execution, action event per run")
        return 1 if bad else 0
    if case.get("setup"):
        f = setup_one(tuple(case["stream"]), case["every"], case["handler"])
        print("oracle        :", f["what"] if f else "every datum seen once and in order; complex and action events re-entered; one per completed run")
        return 1 if f else 0
    ed = case["ed"]
    if case.get("handler") == "pool-gated":
        return replay_pool(case)
    if case.get("handler") == "multithreading":
        cfg, _ = pC12.norm_case(dict(cfg=ed["cfg"], ops=[]))
        for _ph, ps in cfg["phen"]:
            for p_ in ps:
                for b in p_["blocks"]:
                    b["preds"] = [tuple(tuple(y) if isinstance(y, list) else y for y in x) for x in b["preds"]]
        ed["cfg"] = cfg
        ed["act"] = [(k, tuple(a)) for k, a in ed["act"]]
        f = pool_one(ed, len(case["ops"]), case["workers"])
        print("oracle        :", f["what"] if f else "one complex event, one execution, one action event per completed run; nothing stranded")
        return 1 if f else 0
    cfg, _ = pC12.norm_case(dict(cfg=ed["cfg"], ops=[]))
    ed["cfg"] = cfg
    ed["act"] = [(k, tuple(a)) for k, a in ed["act"]]
    ed["datagen"] = [tuple(x) for x in ed["datagen"]]
    ops = []
    for o in case["ops"]:
        if o[0] == "remote":
            ops.append(pC12.norm_case(dict(cfg=dict(phen=[]), ops=[o]))[1][0])
        else:
            ops.append(tuple(o))
    out, _, fail, _ = work((ed, ops))
    model, _ = common.coq_eval("C02r", SE.IMPORTS, "run_engine %s" % SE.case_coq(ed, ops))
    print("implementation:", out)
    print("model         :", model)
    print("oracle        :", fail or "one complex event, one action run, one action event per completed run")
    return 1 if (fail or model != out) else 0


def replay_pool(case):
    import pC12
    ed = case["ed"]
    cfg, _ = pC12.norm_case(dict(cfg=ed["cfg"], ops=[]))
    ed["cfg"] = cfg
    ed["act"] = [(k, tuple(a)) for k, a in ed["act"]]
    ed["datagen"] = [tuple(x) for x in ed["datagen"]]
    ops = []
    for o in case["ops"]:
        if o[0] == "remote":
            ops.append(pC12.norm_case(dict(cfg=dict(phen=[]), ops=[o]))[1][0])
        else:
            ops.append(tuple(o))
    out, done, _, _, _, _, fail = work_pool((ed, ops, case["workers"]), resolved=True)
    model, _ = common.coq_eval("C02pr", SE.IMPORTS_POOL, "run_C02pool %s" % SE.pool_case_coq(ed, done))
    print("handler       : BoboActionHandlerMultithreading(%d), completion order imposed through gates" % case["workers"])
    print("operations    :", done)
    print("implementation:", out)
    print("model         :", model)
    if model != out:
        n = next((i for i, (a, b) in enumerate(zip(out, model)) if a != b), min(len(out), len(model)))
        print("first difference at position %d (operation %d; after each operation: -5, size of receiver, decider, "
              "producer, forwarder, handler queue, jobs in flight, events published, complex events, jobs handed over, "
              "action events)" % (n, n // 11 + 1))
    print("oracle        :", fail or "one complex event, one execution, one action event per completed run; no response stranded")
    return 1 if (fail or model != out) else 0
