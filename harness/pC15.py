"""C15 SYNC, PING and RESYNC are chosen and retried as documented."""
import itertools
import json

import common
from common import zs, zz, cbool, clist, cnat
import out_driver as od

PROP = "C15"
PROPERTY_FILES = ["Properties/C15.v", "Properties/C15in.v"]
META = dict(
    level_text="Theorems (Coq, closed under the global context, for every threshold convention >=/> of the five "
               "comparisons): the per-peer decision table strictly inside each period with both directions "
               "(C15_mode_table); over every history of enqueue / loop iteration (arbitrary clock readings, send "
               "outcomes, snapshots) / handled incoming message, consecutive attempts to one peer are at least the "
               "later one's interval apart unless it is a SYNC chosen with a non-empty queue (C15_retry_spacing, "
               "_seconds); the exact bookkeeping after success/timeout/error per message type and for a whole "
               "iteration (C15_post_send_effects, C15_iteration_effects); the restart flag accompanies every message "
               "until one is delivered and none afterwards (C15_flag_until_delivered, _cleared_by_delivery); after a "
               "handled RESET the next message to that peer is a RESYNC, chosen in the very next iteration "
               "(C15_reset_triggers_resync, _next_iteration). Tie to the code: the model's iteration is evaluated "
               "in Coq and compared with the real _tcp_outgoing / on_decider_update / _tcp_incoming_handle_client "
               "(driven single-threaded with scripted socket and clock) on an exhaustive grid around every "
               "threshold and on random histories, after inferring the convention the code uses from its "
               "behaviour exactly at the thresholds and the step order (queued change taken at the first SYNC, or once "
               "at the start of the iteration as after the D9 fix; all theorems hold for both) from whether the item "
               "leaves the queue when no SYNC goes out; an independent oracle checks the documented table, the "
               "bookkeeping, retry spacing, flag rule and reset rule on the implementation alone.",
    level_note="Trusted: Coq kernel/vm_compute; harness (out_driver.py: budgeted _thread_closed, fake socket/time "
               "modules, decoding of the bytes handed to sendall with the same crypto object). Sequential only: "
               "interleavings of the incoming thread or of an enqueue inside one outgoing iteration are C06/C07 "
               "(D9, D10) and are not exercised here.",
    rule="(time since contact, time since attempt) within +-2 of every threshold (plus 0 and far beyond) x queue "
         "empty/non-empty x backlog empty/non-empty x flag on/off x outcome delivered/timeout/error(after delivery) "
         "(+ connect error, send timeout on a subgrid) x 5 period configurations, 1 peer exhaustive and 2 peers "
         "sampled; random histories of enqueue / iteration (clock +0/1/5/10/31/61) / incoming message with or "
         "without RESET; non-trivial = at least one message was attempted",
    trusted_base=["harness/out_driver.py: _thread_closed answered from a budget (exactly n iterations of the real loop "
                  "body), bobocep.dist.tcp.socket/.time replaced by scripted fakes, peers set/read through the "
                  "public BoboDeviceManager accessors",
                  "run records abstracted to their run ids; AES-GCM/JSON only used to decode what was handed to sendall"],
    assumptions=["one outgoing iteration runs without interleaved incoming RESET or enqueue (the races are C06/C07)",
                 "the clock is read once at the start of an iteration and once after each _tcp_send",
                 "each BoboDeviceManager accessor is atomic (RLock)"])

CONFIGS = [(30, 60, 5, 5, 10), (20, 50, 4, 7, 11), (8, 10, 3, 6, 2), (40, 25, 6, 3, 9), (5, 9, 0, 2, 1),
           (30, 60, 10, 3, 10), (12, 40, 7, 2, 5)]          # a ping may fall due before the backlog retry does
PROBE_CFG = (20, 50, 4, 7, 11)
NOW = 1000
SNAP = [[6], [7], [8, 9]]
QNOTE = [[3], [4], [5]]
STASH = [[1], [], [2]]
EMPTY = [[], [], []]
MODE_NAME = {0: "SYNC", 1: "PING", 2: "RESYNC", None: "nothing"}

_drivers = {}


def driver(cfg, n_peers):
    key = (tuple(cfg), n_peers)
    if key not in _drivers:
        _drivers[key] = od.OutDriver(n_peers, cfg)
    return _drivers[key]


# ---------------------------------------------------------------- running a case on the implementation
def run_impl(case):
    """-> (flat observation list, trace).  trace: one dict per act with pre/post state and socket records."""
    drv = driver(case["cfg"], len(case["peers"]))
    drv.reset(case["peers"], case["queue"])
    mirror = [n for n in case["queue"]]          # the oracle's own copy of what was enqueued
    enc, trace = [], []
    for act in case["acts"]:
        pre = drv.state()
        qhead = mirror[0] if mirror else EMPTY
        recs, err = [], None
        if act[0] == "enq":
            drv.enqueue(act[1])
            mirror.append(act[1])
        elif act[0] == "iter":
            try:
                recs = drv.iterate(act[1], act[2], [tuple(x) for x in act[3]])
            except Exception as ex:      # noqa: the outgoing thread of the real component would end here, for good
                trace.append(dict(act=act, pre=pre, post=drv.state(), recs=[], err=None,
                                  died="%s: %s" % (type(ex).__name__, ex)))
                enc += [-999]
                break
        elif act[0] == "in":
            err = drv.deliver(act[1], act[2], act[3], caddr=act[4] if len(act) > 4 else 11 + act[1])
        post = drv.state()
        if act[0] == "iter" and post["queue"] < pre["queue"]:
            del mirror[:pre["queue"] - post["queue"]]
        # encode
        k = 0
        while k < len(recs):
            r = recs[k]
            if r["kind"] == "connect" and k + 1 < len(recs) and recs[k + 1]["kind"] == "msg" \
                    and recs[k + 1]["peer"] == r["peer"]:
                m = recs[k + 1]
                enc += [-1, m["peer"], m["addr"], m["type"], m["flags"]]
                for part in (m["c"], m["h"], m["u"]):
                    enc += [len(part)] + part
                k += 2
            elif r["kind"] == "connect":
                enc += [-3, r["peer"], r["addr"]]
                k += 1
            else:       # bytes without a connect: still show them
                enc += [-1, r["peer"], r["addr"], r["type"], r["flags"]]
                for part in (r["c"], r["h"], r["u"]):
                    enc += [len(part)] + part
                k += 1
        enc += [-2, post["queue"]]
        for p in post["peers"]:
            enc += [p["lc"], p["la"], 1 if p["fr"] else 0]
            for part in p["st"]:
                enc += [len(part)] + part
            enc += [p["addr"]]
        trace.append(dict(act=act, pre=pre, post=post, recs=recs, qhead=qhead, err=err))
    return enc, trace


# ---------------------------------------------------------------- Coq terms
def c_note(n):
    return "(mkNote %s %s %s)" % (zs(n[0]), zs(n[1]), zs(n[2]))


def c_peer(p, i):
    return "(mkPeer %s %s %s %s %s %s %s)" % (zz(p["lc"]), zz(p["la"]), cbool(p["fr"]), zs(p["st"][0]),
                                              zs(p["st"][1]), zs(p["st"][2]), zz(p.get("addr", 11 + i)))


def c_act(a, n_peers):
    if a[0] == "enq":
        return "AEnq %s" % c_note(a[1])
    if a[0] == "iter":
        sends = list(a[3]) + [(0, None)] * (n_peers - len(a[3]))
        return "AIter %s %s %s" % (zz(a[1]), c_note(a[2]),
                                   clist("(%s, %s)" % (zz(o), zz(a[1] if t is None else t)) for o, t in sends))
    return "AIn %s %s %s %s" % (cnat(a[1]), zz(a[2]), zz(a[3]), zz(a[4] if len(a) > 4 else 11 + a[1]))


def coq_input(case, conv, pop_first):
    cfg = case["cfg"]
    c = "(mkCfg %s (%s))" % (" ".join(zz(x) for x in cfg), ", ".join(cbool(b) for b in conv))
    ps = clist(c_peer(p, i) for i, p in enumerate(case["peers"]))
    q = clist(c_note(n) for n in case["queue"])
    acts = clist(c_act(a, len(case["peers"])) for a in case["acts"])
    return "(%s, %s, (%s, %s), %s)" % (cbool(pop_first), c, ps, q, acts)


# ---------------------------------------------------------------- threshold convention of the code
def infer_conv():
    """Which of >= / > the code uses at each of its five comparisons, read off its behaviour exactly at the
    threshold (everything else far from any threshold).  Order as in Model/Outgoing.v: comms/period_resync,
    attempt/attempt_resync, comms/period_ping, attempt/attempt_ping, attempt/attempt_stash."""
    pp, pr, ast, ap, ar = PROBE_CFG
    far = 0      # last attempt long ago

    def probe(lc, la, stash):
        case = dict(cfg=list(PROBE_CFG), peers=[dict(lc=lc, la=la, fr=False, st=stash)], queue=[],
                    acts=[["iter", NOW, SNAP, [[0, NOW]]]])
        _, tr = run_impl(case)
        ms = [r for r in tr[0]["recs"] if r["kind"] == "msg"]
        return ms[0]["type"] if ms else None
    conv, notes = [], []
    for name, got, yes in (
            ("comms_range/period_resync", probe(NOW - pr, far, EMPTY), od.RESYNC),
            ("attempt_range/attempt_resync", probe(0, NOW - ar, EMPTY), od.RESYNC),
            ("comms_range/period_ping", probe(NOW - pp, far, EMPTY), od.PING),
            ("attempt_range/attempt_ping", probe(NOW - pp - 5, NOW - ap, EMPTY), od.PING),
            ("attempt_range/attempt_stash", probe(NOW - 1, NOW - ast, STASH), od.SYNC)):
        conv.append(got == yes)
        notes.append("%s: %s" % (name, ">=" if got == yes else ">"))
    return tuple(conv), notes


def infer_order():
    """When inside an iteration the code takes the queued change (the property leaves it open): the only peer
    is deep in its resync period, so no SYNC goes out; the item is gone afterwards iff it is taken at the
    start of the iteration (repaired order, D9 fix) rather than at the first SYNC (pinned order)."""
    case = dict(cfg=list(PROBE_CFG), peers=[dict(lc=0, la=0, fr=False, st=EMPTY)], queue=[QNOTE],
                acts=[["iter", NOW, SNAP, [[0, NOW]]]])
    _, tr = run_impl(case)
    pop_first = tr[0]["post"]["queue"] == 0
    return pop_first, ("queue item taken once at the start of the iteration, inside the locked decision (repaired order)"
                       if pop_first else "queue item taken at the first SYNC of the iteration (pinned order)")


# ---------------------------------------------------------------- the oracle (implementation only)
def allowed_modes(cfg, cr, ar, qe, se):
    """The documented table with the threshold second left open: the set of admissible choices."""
    pp, pr, ast, ap, arr = cfg

    def cmp(x, t):
        return (True,) if x > t else ((False,) if x < t else (True, False))
    res = set()
    for in_resync in cmp(cr, pr):
        if in_resync:
            for due in cmp(ar, arr):
                res.add(od.RESYNC if due else None)
            continue
        for in_ping in cmp(cr, pp):
            if in_ping and qe and se:
                for due in cmp(ar, ap):
                    res.add(od.PING if due else None)
            elif not qe:
                res.add(od.SYNC)
            elif not se:
                for due in cmp(ar, ast):
                    res.add(od.SYNC if due else None)
            else:
                res.add(None)
    return res


def cat(a, b):
    return [a[0] + b[0], a[1] + b[1], a[2] + b[2]]


def oracle_iteration(cfg, step):
    """Check one iteration of the trace against the documented behaviour.  -> [(signature, what)]"""
    act, pre, post, recs, qhead = step["act"], step["pre"], step["post"], step["recs"], step["qhead"]
    now, snap, sends = act[1], act[2], act[3]
    out = []
    qe = pre["queue"] == 0
    sync_sent = False
    for i, (p, q) in enumerate(zip(pre["peers"], post["peers"])):
        conns = [r for r in recs if r["kind"] == "connect" and r["peer"] == i]
        msgs = [r for r in recs if r["kind"] == "msg" and r["peer"] == i]
        if len(conns) > 1 or len(msgs) > 1:
            out.append(("more-than-one-message", "peer %d was sent %d messages in one iteration" % (i, len(conns))))
            continue
        se = sum(len(x) for x in p["st"]) == 0
        allow = allowed_modes(cfg, now - p["lc"], now - p["la"], qe, se)
        outcome, now2 = (sends[i] if i < len(sends) else (0, None))
        now2 = now if now2 is None else now2
        err = od.err_of(outcome)
        msg = msgs[0] if msgs else None
        attempted = bool(conns) or bool(msgs)
        where = "peer %d: %ds since contact, %ds since attempt, queue %s, backlog %s" % (
            i, now - p["lc"], now - p["la"], "empty" if qe else "non-empty", "empty" if se else "non-empty")
        names = "/".join(sorted(MODE_NAME[m] for m in allow))
        if msg is not None and msg["type"] not in allow:
            out.append(("mode-table", "%s: sent %s, documented: %s" % (where, MODE_NAME.get(msg["type"], msg["type"]), names)))
        elif msg is None and attempted and allow == {None}:
            out.append(("mode-table", "%s: a message was attempted, documented: nothing" % where))
        elif not attempted and None not in allow:
            out.append(("mode-table", "%s: nothing sent, documented: %s" % (where, names)))
        if not attempted:
            if q != p:
                out.append(("untouched-peer-changed", "%s: no message, but the record changed %r -> %r" % (where, p, q)))
            continue
        modes = [msg["type"]] if msg is not None else sorted(m for m in allow if m is not None)
        if od.SYNC in modes and msg is not None:
            sync_sent = True
        if q["la"] != max(0, now2):
            out.append(("post-send-last-attempt", "%s: last_attempt %d after an attempt finished at %d" % (where, q["la"], now2)))
        want_lc = max(0, now2) if err == 0 else p["lc"]
        if q["lc"] != want_lc:
            out.append(("post-send-last-comms", "%s: last_comms %d after outcome %d finished at %d (was %d)"
                        % (where, q["lc"], err, now2, p["lc"])))
        if msg is not None and bool(msg["flags"] & 1) != p["fr"]:
            out.append(("flag-not-carried", "%s: reset flag %s but message flags %d" % (where, p["fr"], msg["flags"])))
        want_fr = False if (err == 0 and p["fr"]) else p["fr"]
        if q["fr"] != want_fr:
            out.append(("post-send-flag", "%s: reset flag %s -> %s after outcome %d" % (where, p["fr"], q["fr"], err)))
        stashes = []
        for m in modes:
            if m == od.RESYNC:
                stashes.append(EMPTY)
            elif m == od.PING:
                stashes.append(p["st"])
            elif m == od.SYNC:
                stashes.append(EMPTY if err == 0 else cat(p["st"], qhead))
        if stashes and q["st"] not in stashes:
            out.append(("post-send-stash", "%s: backlog %r -> %r after %s with outcome %d"
                        % (where, p["st"], q["st"], "/".join(MODE_NAME[m] for m in modes), err)))
        if msg is not None:
            want = {od.RESYNC: snap, od.PING: EMPTY, od.SYNC: cat(qhead, p["st"])}.get(msg["type"])
            if want is not None and [msg["c"], msg["h"], msg["u"]] != [list(x) for x in want]:
                out.append(("payload", "%s: %s carried %r, expected %r" % (where, MODE_NAME[msg["type"]],
                                                                        [msg["c"], msg["h"], msg["u"]], want)))
    # The property does not say when the queued change is taken (at the first SYNC or once at the start of the
    # iteration): an iteration may take at most the one item at the head, never adds one, and must take it when
    # a SYNC carrying it went out (that the SYNC carries exactly that item is the payload rule above).
    taken = pre["queue"] - post["queue"]
    if taken < 0 or taken > 1:
        out.append(("queue-pop", "queue length %d -> %d in one iteration" % (pre["queue"], post["queue"])))
    elif sync_sent and pre["queue"] > 0 and taken != 1:
        out.append(("queue-pop", "queue length %d -> %d although a SYNC carrying its head was sent"
                    % (pre["queue"], post["queue"])))
    return out


def oracle_history(case, trace):
    """Retry spacing, flag-until-delivered and reset->RESYNC over a whole history.  -> [(signature, what)]"""
    cfg = case["cfg"]
    pp, pr, ast, ap, arr = cfg
    n = len(case["peers"])
    last_done = [None] * n            # clock at the end of the previous attempt (None: none, or reset since)
    flag = [p["fr"] for p in case["peers"]]
    pending = [False] * n             # RESET handled, no message chosen yet
    out = []
    for k, step in enumerate(trace):
        act = step["act"]
        if step.get("died"):
            out.append(("outgoing-loop-died", "step %d: a scripted send failure let %s escape the outgoing iteration: the outgoing "
                                              "thread ends, no peer is sent anything any more" % (k, step["died"])))
            break
        if act[0] == "in":
            if step["err"] is None and (act[3] & 1):
                pending[act[1]] = True
                last_done[act[1]] = None
            continue
        if act[0] != "iter":
            continue
        now, sends = act[1], act[3]
        out += [(s, "step %d: %s" % (k, w)) for s, w in oracle_iteration(cfg, step)]
        qne = step["pre"]["queue"] > 0
        for i in range(n):
            conns = [r for r in step["recs"] if r["kind"] == "connect" and r["peer"] == i]
            msgs = [r for r in step["recs"] if r["kind"] == "msg" and r["peer"] == i]
            outcome, now2 = (sends[i] if i < len(sends) else (0, None))
            now2 = now if now2 is None else now2
            realistic = now > pr and now > arr
            if not conns:
                if pending[i] and realistic:
                    out.append(("reset-no-resync", "step %d: peer %d announced a restart, no message chosen for it in "
                                                   "the next iteration" % (k, i)))
                    pending[i] = False
                continue
            typ = msgs[0]["type"] if msgs else None
            if pending[i] and realistic and typ is not None and typ != od.RESYNC:
                out.append(("reset-no-resync", "step %d: peer %d announced a restart, next message to it is %s"
                            % (k, i, MODE_NAME.get(typ, typ))))
            pending[i] = False
            if last_done[i] is not None:
                gap = now - last_done[i]
                if typ == od.PING and gap < ap:
                    out.append(("retry-spacing", "step %d: PING to peer %d %ds after the previous attempt (attempt_ping %d)"
                                % (k, i, gap, ap)))
                elif typ == od.RESYNC and gap < arr:
                    out.append(("retry-spacing", "step %d: RESYNC to peer %d %ds after the previous attempt "
                                                 "(attempt_resync %d)" % (k, i, gap, arr)))
                elif typ == od.SYNC and not qne and gap < ast:
                    out.append(("retry-spacing", "step %d: backlog-only SYNC to peer %d %ds after the previous attempt "
                                                 "(attempt_stash %d)" % (k, i, gap, ast)))
                elif typ is None and not qne and gap < min(ast, ap, arr):
                    out.append(("retry-spacing", "step %d: attempt to peer %d %ds after the previous one" % (k, i, gap)))
            if msgs and bool(msgs[0]["flags"] & 1) != flag[i]:
                out.append(("flag-until-delivered", "step %d: message to peer %d %s the restart flag (%s)"
                            % (k, i, "lacks" if flag[i] else "carries",
                               "none delivered yet" if flag[i] else "already delivered or never set")))
            if od.err_of(outcome) == 0:
                flag[i] = False
            last_done[i] = now2
    return out


# ---------------------------------------------------------------- generators
def grid_values(cfg, width=2):
    pp, pr, ast, ap, arr = cfg
    crs = sorted({t + d for t in (pp, pr) for d in range(-width, width + 1)} | {0, max(pp, pr) + 40})
    ars = sorted({t + d for t in (ast, ap, arr) for d in range(-width, width + 1)} | {0, 400})
    return crs, ars


def cell_peer(cr, ar, stash, flag):
    return dict(lc=NOW - cr, la=NOW - ar, fr=bool(flag), st=STASH if stash else EMPTY)


def grid_cases(cfg, rng, n_two, width=2, all_outcomes=False):
    crs, ars = grid_values(cfg, width)
    cells = list(itertools.product(crs, ars, (0, 1), (0, 1)))        # cr, ar, stash, flag
    k = 0
    for (cr, ar, st, fl) in cells:
        for qne in (0, 1):
            outs = [0, 1, 4]
            if all_outcomes or k % 5 == 0:
                outs += [2, 3]
            k += 1
            for o in outs:
                yield dict(cfg=list(cfg), peers=[cell_peer(cr, ar, st, fl)], queue=[QNOTE] if qne else [],
                           acts=[["iter", NOW, SNAP, [[o, NOW + 1]]]])
    for _ in range(n_two):
        a, b = rng.choice(cells), rng.choice(cells)
        qne = rng.randint(0, 1)
        pa, pb = cell_peer(*a), cell_peer(*b)
        pb = dict(pb, st=[[x + 20 for x in part] for part in pb["st"]])
        yield dict(cfg=list(cfg), peers=[pa, pb], queue=[QNOTE] if qne else [],
                   acts=[["iter", NOW, SNAP, [[rng.choice((0, 0, 1, 2, 3, 4)), NOW + 1],
                                              [rng.choice((0, 0, 1, 2, 3, 4)), NOW + 2]]]])


def random_history(rng, cfg=None):
    cfg = cfg or rng.choice(CONFIGS)
    n = rng.randint(1, 2)
    t = rng.choice((-40, 0, 7, 50, 1000, 1000, 1000))
    fresh = rng.random() < 0.6
    peers = []
    for i in range(n):
        if fresh:
            peers.append(dict(lc=0, la=0, fr=True, st=EMPTY))
        else:
            peers.append(dict(lc=max(0, t - rng.choice((0, 1, 5, 10, 31, 61))), la=max(0, t - rng.choice((0, 1, 5, 10))),
                              fr=rng.random() < 0.5, st=[[90 + i]] + [[], []] if rng.random() < 0.4 else EMPTY))
    acts, nid = [], 100
    for _ in range(rng.randint(4, 14)):
        r = rng.random()
        if r < 0.25:
            note = [[], [], []]
            for _ in range(rng.randint(1, 2)):
                note[rng.randint(0, 2)].append(nid)
                nid += 1
            acts.append(["enq", note])
        elif r < 0.37:
            a_in = ["in", rng.randrange(n), rng.choice((0, 1, 2)), rng.choice((0, 1, 1, 0))]
            if rng.random() < 0.45:       # the peer's message comes from another address than the one recorded (multi-homed,
                a_in.append(rng.choice((40, 41)) + a_in[1])      # re-addressed): the address is refreshed, nothing else
            acts.append(a_in)
        else:
            t += rng.choice((0, 1, 1, 5, 5, 10, 31, 61))
            sends, tt = [], t
            for _i in range(n):
                tt += rng.choice((0, 0, 0, 1, 3))
                sends.append([rng.choice((0, 0, 0, 0, 1, 2, 3, 4)), tt])
            snap = [[200 + rng.randint(0, 3)], [], [210 + rng.randint(0, 3)]] if rng.random() < 0.7 else EMPTY
            acts.append(["iter", t, snap, sends])
            t = tt
    return dict(cfg=list(cfg), peers=peers, queue=[], acts=acts)


CORPUS = [
    # the example of Properties/C15.v
    dict(cfg=[30, 60, 5, 5, 10], peers=[dict(lc=100, la=100, fr=True, st=EMPTY)], queue=[],
         acts=[["iter", 131, EMPTY, [[1, 131]]], ["iter", 133, EMPTY, [[0, 133]]], ["iter", 136, EMPTY, [[0, 136]]],
               ["iter", 170, EMPTY, [[0, 170]]], ["in", 0, 1, 1], ["iter", 171, [[4], [], [5]], [[0, 171]]],
               ["enq", [[], [], [9]]], ["iter", 172, EMPTY, [[4, 172]]], ["iter", 176, EMPTY, [[0, 176]]],
               ["iter", 177, EMPTY, [[0, 178]]]]),
    # start-up at a realistic clock: RESYNC with the flag to both peers, one fails and is retried after 10 s
    dict(cfg=[30, 60, 5, 5, 10], peers=[dict(lc=0, la=0, fr=True, st=EMPTY), dict(lc=0, la=0, fr=True, st=EMPTY)],
         queue=[], acts=[["iter", 1000, SNAP, [[0, 1000], [2, 1001]]], ["enq", QNOTE], ["iter", 1005, SNAP, [[0, 1005], [0, 1005]]],
                         ["iter", 1011, SNAP, [[0, 1011], [0, 1011]]], ["iter", 1042, SNAP, [[0, 1042], [3, 1043]]]]),
    # one queue item, two peers in contact, first send fails: stash for one, delivered to the other; negative clock
    dict(cfg=[8, 10, 3, 6, 2], peers=[dict(lc=1000, la=1000, fr=False, st=EMPTY), dict(lc=1000, la=1000, fr=False, st=EMPTY)],
         queue=[QNOTE, [[31], [], []]],
         acts=[["iter", 1001, SNAP, [[4, 1001], [0, 1001]]], ["iter", 1001, SNAP, [[0, 1002], [1, -5]]],
               ["iter", 1004, SNAP, [[0, 1004], [0, 1004]]]]),
]


def size_of(case):
    return (len(case["acts"]), len(case["peers"]), len(json.dumps(case)))


def fails_with(case, sig):
    _, trace = run_impl(case)
    return any(s == sig for s, _ in oracle_history(case, trace))


def shrink(case, sig):
    """Drop actions (greedily, to a fixpoint) while the oracle still reports the same signature."""
    cur = case
    changed = True
    while changed:
        changed = False
        for k in range(len(cur["acts"]) - 1, -1, -1):
            cand = dict(cur, acts=cur["acts"][:k] + cur["acts"][k + 1:])
            if cand["acts"] and fails_with(cand, sig):
                cur, changed = cand, True
                break
    return cur


# ---------------------------------------------------------------- entry points
def run(ctx, res):
    rng = ctx.rng
    conv, notes = infer_conv()
    pop_first, order_note = infer_order()
    res.extra["threshold_convention_inferred"] = notes
    res.extra["order_inferred"] = order_note
    n_two = 2000 if ctx.quick else 8000
    n_hist = 2000 if ctx.quick else 40000
    width = 2 if ctx.quick else 3
    cases = list(CORPUS)
    n_grid = 0
    for cfg in CONFIGS:
        for c in grid_cases(cfg, rng, n_two, width, not ctx.quick):
            cases.append(c)
            n_grid += 1
    for _ in range(n_hist):
        cases.append(random_history(rng))

    coq_cases, fails = [], []
    for case in cases:
        enc, trace = run_impl(case)
        coq_cases.append((coq_input(case, conv, pop_first), enc))
        attempted = sum(1 for s in trace for r in s["recs"] if r["kind"] == "connect")
        res.note_case(json.dumps(case, sort_keys=True), attempted > 0)
        res.count("peers_%d" % len(case["peers"]))
        res.count("acts_%s" % (len(case["acts"]) if len(case["acts"]) < 5 else "5+"))
        for s in trace:
            for r in s["recs"]:
                if r["kind"] == "msg":
                    res.count("msg_%s%s" % (MODE_NAME.get(r["type"], "other"), "+RESET" if r["flags"] & 1 else ""))
            if s["act"][0] == "iter":
                res.count("iterations")
                if not s["recs"]:
                    res.count("iterations_silent")
        for sig, what in oracle_history(case, trace):
            fails.append(dict(signature=sig, what=what, case=case, detail=None))
    fails.sort(key=lambda f: size_of(f["case"]))
    seen = {}
    for f in fails:                      # keep the smallest few per signature
        seen.setdefault(f["signature"], [])
        if len(seen[f["signature"]]) < 3:
            seen[f["signature"]].append(f)
    res.extra["oracle_failures_total"] = len(fails)
    kept = []
    for fs in seen.values():
        for f in fs:
            small = shrink(f["case"], f["signature"])
            _, tr = run_impl(small)
            what = [w for s_, w in oracle_history(small, tr) if s_ == f["signature"]]
            kept.append(dict(f, case=small, what=what[0] if what else f["what"]))
    res.failures = sorted(kept, key=lambda f: size_of(f["case"]))
    # count all failures for the summary line but keep the list short
    res.samples = [dict(case=cases[0], impl=run_impl(cases[0])[0][:40]),
                   dict(case=cases[len(CORPUS) + 7], impl=run_impl(cases[len(CORPUS) + 7])[0])]

    mism, errs = common.coq_run_cases("C15", "Model.Outgoing", "run_C15o",
                                      "(bool * tcfg * (list peer * list note) * list oact)", coq_cases)
    res.errors += errs
    res.traces_validated = len(coq_cases) - len(mism)
    mism.sort(key=lambda m: size_of(cases[m[0]]))
    for idx, model_out in mism[:20]:
        res.mismatches.append(dict(case=cases[idx], impl=coq_cases[idx][1], model=model_out,
                                   convention=notes, order=order_note))
    if len(mism) > 20:
        res.mismatches += [dict(case=cases[i], impl=None, model=None) for i, _ in mism[20:]]
    res.exhaustive = True
    res.extra["exhaustive_scope"] = (
        "1 peer: every (time since contact, time since attempt) within +-%d of every threshold (and 0, far) x queue "
        "x backlog x flag x outcome {delivered, connect timeout, error after delivery} for %d period configurations "
        "(%d grid cases incl. sampled 2-peer cells); %d random histories" % (width, len(CONFIGS), n_grid, n_hist))


def replay(obj):
    case = obj.get("case")
    if not case and obj.get("mismatches"):
        case = obj["mismatches"][0].get("case")
    if not case:
        print(json.dumps(obj, indent=1)[:3000])
        return 1 if obj.get("kind") == "unchecked" else 0
    conv, notes = infer_conv()
    pop_first, order_note = infer_order()
    print("threshold convention of the code:", "; ".join(notes))
    print("step order of the code:", order_note)
    print("configuration (period_ping, period_resync, attempt_stash, attempt_ping, attempt_resync):", case["cfg"])
    enc, trace = run_impl(case)
    for k, s in enumerate(trace):
        print("step %d %r" % (k, s["act"]))
        for r in s["recs"]:
            if r["kind"] == "msg":
                print("    -> peer %d: %s flags=%d completed=%r halted=%r updated=%r" % (
                    r["peer"], MODE_NAME.get(r["type"], r["type"]), r["flags"], r["c"], r["h"], r["u"]))
            else:
                print("    connect peer %d" % r["peer"])
        print("    after: queue=%d %s" % (s["post"]["queue"], s["post"]["peers"]))
    model, out = common.coq_eval("C15", "Model.Outgoing", "run_C15o %s" % coq_input(case, conv, pop_first))
    print("implementation:", enc)
    print("model         :", model if model is not None else out[-1500:])
    bad = oracle_history(case, trace)
    for sig, what in bad:
        print("PROPERTY FAILS [%s] %s" % (sig, what))
    if model != enc:
        print("model and implementation differ")
    if not bad and model == enc:
        print("documented behaviour, model and implementation agree")
    return 1 if (bad or model != enc) else 0
