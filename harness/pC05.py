"""C05 A finished run stays finished: at most one complex event per run and instance."""
import common
import gen_patterns as G
import predlang as PL
import sim_decider as SD
import pC12
from par import pmap

PROP = "C05"
PROPERTY_FILES = ["Properties/C05.v"]
META = dict(
    level_text="Theorems (Coq, every decider state and ANY remote message): a run active after a message either was "
               "active before or carries an id that the message does not declare finished and the instance does not "
               "remember as finished (no resurrection); a remote completion is passed on only if the run is not already "
               "remembered as completed (no second complex event); completion beats halt beats progress inside a "
               "message and against the memory; finished runs leave the active set in the same local step. The pinned "
               "commit's remote path is refuted by machine-checked witnesses (D1 stale update, D2 merged message). "
               "Checked after every step (step invariants). Tie: model vs real decider on mixed sequences with stale, "
               "duplicated and merged messages; oracle tracks, per instance, every run id it has seen finish.",
    level_note="Trusted: Coq kernel; harness mirrors. Stated with finished-run memory enabled and not overflowing "
               "(generator keeps the number of finished runs below max_cache). The action half of the property "
               "(no second action, no action for a remote completion) is carried by the engine-level oracle below and "
               "by C02's theorems about producer/forwarder.",
    rule="mixed local/remote sequences with max_cache=50; remote records reuse ids of runs the instance has seen "
         "(active and finished), messages repeated and merged; non-trivial = a record named a run the instance "
         "had already seen finish",
    trusted_base=["harness/predlang.py, sim_decider.py"],
    assumptions=["finished-run memory enabled and large enough", "local run ids fresh"])


def gen_cases(ctx):
    rng = ctx.rng
    cases = []
    for shape in G.shapes(3):
        if len(shape) < 2:
            continue
        for v in (0, 1):
            pre, halt, single = G.VARIANTS[v]
            cfg = dict(phen=[(1, [G.pattern(1, G.assign(shape, 1, "distinct"), pre, halt, single)])],
                       maxcache=50, idbase=1000)
            for _ in range(8 if ctx.quick else 60):
                ops = G.rand_ops(rng, cfg, rng.randint(3, 7), premote=0.45)
                # repeat / merge some remote messages
                extra = [o for o in ops if o[0] == "remote" and rng.random() < 0.5]
                cases.append((cfg, ops + extra))
    for _ in range(1200 if ctx.quick else 20000):
        cfg = G.rand_config(rng, maxcache=50, maxblocks=5)
        ops = G.rand_ops(rng, cfg, rng.randint(3, 10 if ctx.quick else 25), premote=0.45)
        for i0, o in reversed(list(enumerate(ops))):     # re-deliver some messages later (never earlier)
            if o[0] == "remote" and rng.random() < 0.3:
                ops.insert(rng.randint(i0 + 1, len(ops)), o)
        cases.append((cfg, ops))
    return cases


def work(case):
    cfg, ops = case
    dec, rec = SD.make_decider(cfg)
    out, fail, nontrivial = [], None, False
    seen = set()
    ncomp = {}
    # singleton patterns substitute identifiers (the local run stands for the remote one); their
    # at-most-one-run guarantee is C13's, so the per-identifier bookkeeping here covers the other patterns
    single = {(PL.phname(ph), PL.patname(p["name"])) for ph, ps in cfg["phen"] for p in ps if p["single"]}
    for k, op in enumerate(ops):
        if op[0] == "remote":
            named = {str(r["id"]) for kk in ("comp", "halt", "upd") for r in op[1][kk]}
            if named & seen:
                nontrivial = True
        o, lists = SD.apply_op(dec, rec, op)
        out += o
        if lists is None:
            break
        comp, halt, upd = lists
        for r in comp:
            if (r.phenomenon_name, r.pattern_name) in single:
                continue      # identifiers of singleton runs are substituted: counted per pattern by C13, not per id
            ncomp[r.run_id] = ncomp.get(r.run_id, 0) + 1
            if ncomp[r.run_id] > 1 and fail is None:
                fail = dict(signature="second-completed-notification", step=k,
                            what="run %s was reported completed a second time (second complex event)" % r.run_id, detail=None)
        for r in comp + halt:
            seen.add(r.run_id)
        if op[0] == "remote":
            # what the message declared finished is finished for this instance from now on
            pats = {(PL.phname(ph), PL.patname(p["name"])) for ph, ps in cfg["phen"] for p in ps}
            for kk in ("comp", "halt"):
                for r in op[1][kk]:
                    if (PL.phname(r["ph"]), PL.patname(r["pat"])) in pats:
                        seen.add(str(r["id"]))
        active = {r.run_id for r in dec.all_runs()}
        back = active & seen
        if back and fail is None:
            x = sorted(back)[0]
            sig = "finished-run-active-again"
            if op[0] == "remote" and any(str(r["id"]) == x for r in op[1]["upd"]):
                # D17 (known): the same message finished the local singleton run x under the peer's id
                rx = [r for r in op[1]["upd"] if str(r["id"]) == x][0]
                if (PL.phname(rx["ph"]), PL.patname(rx["pat"])) in single and any(
                        r["ph"] == rx["ph"] and r["pat"] == rx["pat"] and str(r["id"]) != x
                        for kk in ("comp", "halt") for r in op[1][kk]):
                    sig = "singleton-run-finished-under-peer-id-recreated-by-same-message"
            fail = dict(signature=sig, step=k,
                        what="run %s is active again after this instance saw it finish" % x, detail=None)
    return out, nontrivial, fail


def engine_half(ctx, res):
    """the action half on a real engine: a completion learned from a peer yields the complex event but (default
    local_only) no action; repeating the message yields nothing more"""
    import sim_engine as SE
    rng = ctx.rng
    for k in range(60 if ctx.quick else 600):
        shape = rng.choice([s for s in G.shapes(3) if len(s) >= 2])
        p = G.pattern(1, G.assign(shape, 0, "distinct"))
        cfg = dict(phen=[(1, [p])], maxcache=50, idbase=1000)
        local_only = rng.random() < 0.8
        ed = dict(cfg=cfg, tr=0, td=0, tp=0, tf=0, early=True, local_only=local_only, datagen=[], act=[(1, (1, True, 5))])
        nb = len(p["blocks"])
        ev = (900, 50, 0, 1, 0, 0)
        rec = dict(id=2000 + k, ph=1, pat=1, idx=nb, hist=[(b["group"], [ev]) for b in p["blocks"]])
        note = dict(comp=[rec], halt=[], upd=[])
        stale = dict(comp=[], halt=[], upd=[dict(rec, idx=1, hist=[(p["blocks"][0]["group"], [ev])])])
        ops = [("remote", note), ("update",), ("update",), ("remote", note), ("remote", stale), ("update",), ("update",), ("update",)]
        out, engine, handler, log = SE.run_ops(ed, ops)
        res.note_case(("engine", k), True)
        ncx = len(log["complex"])
        nex = len(log["execs"])
        want_ex = 0 if local_only else 1
        if ncx != 1 or nex != want_ex or len(engine.decider.all_runs()) != 0:
            res.failures.append(dict(signature="remote-completion-engine", case=dict(ed=ed, ops=ops),
                                     what="remote completion delivered twice + stale update: %d complex events (want 1), %d action "
                                          "executions (want %d), %d active runs (want 0)" % (ncx, nex, want_ex, len(engine.decider.all_runs())),
                                     detail=None))


def run(ctx, res):
    engine_half(ctx, res)
    cases = gen_cases(ctx)
    results = pmap(work, cases)
    coq_cases = []
    for (cfg, ops), (out, nontrivial, fail) in zip(cases, results):
        res.note_case((PL.config_coq(cfg), repr(ops)), nontrivial)
        res.count("ops_%d" % min(len(ops), 25))
        coq_cases.append((SD.case_coq(cfg, ops), out))
        if fail:
            res.failures.append(dict(signature=fail["signature"], what=fail["what"],
                                     case=dict(cfg=cfg, ops=ops[:fail["step"] + 1]), detail=fail["detail"]))
    res.failures.sort(key=lambda f: len(repr(f["case"])))
    res.samples = [dict(cfg=cases[0][0], ops=cases[0][1])]
    mism, errs = common.coq_run_cases("C05", SD.IMPORTS, "run_decider", "(cdesc * list dop)", coq_cases, shard=150)
    res.errors += errs
    res.traces_validated = len(coq_cases) - len(mism)
    for idx, model_out in mism[:10]:
        res.mismatches.append(dict(case=dict(cfg=cases[idx][0], ops=cases[idx][1]), impl=coq_cases[idx][1], model=model_out))


def replay(obj):
    case = obj.get("case") or (obj.get("mismatches") or [{}])[0].get("case")
    if not case:
        print(obj)
        return 0
    cfg, ops = pC12.norm_case(case)
    out, _, fail = work((cfg, ops))
    model, _ = common.coq_eval("C05r", SD.IMPORTS, "run_decider %s" % SD.case_coq(cfg, ops))
    print("implementation:", out)
    print("model         :", model)
    print("oracle        :", fail or "finished runs stayed finished")
    return 1 if (fail or model != out) else 0
