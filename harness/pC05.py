"""C05 A finished run stays finished: at most one complex event per run and instance."""
import common
import gen_patterns as G
import predlang as PL
import sim_decider as SD
import pC12
from par import pmap

PROP = "C05"
PROPERTY_FILES = ["Properties/C05.v"]
META = dict(
    level_text="Theorems (Coq, every decider state and ANY remote message): a run active after a message either was "
               "active before or carries an id that the message does not declare finished and the instance does not "
               "remember as finished (no resurrection); a remote completion is passed on only if the run is not already "
               "remembered as completed (no second complex event); completion beats halt beats progress inside a "
               "message and against the memory; finished runs leave the active set in the same local step. The pinned "
               "commit's remote path is refuted by machine-checked witnesses (D1 stale update, D2 merged message). "
               "Checked after every step (step invariants). Tie: model vs real decider on mixed sequences with stale, "
               "duplicated and merged messages; oracle tracks, per instance, every run id it has seen finish - at decider "
               "level and on real engines replicating through the real BoboDistributedTCP under link faults (sends "
               "that fail after delivery, refused connections, backlog retries merged with new changes).",
    level_note="Trusted: Coq kernel; harness mirrors. Stated with finished-run memory enabled and not overflowing "
               "(generator keeps the number of finished runs below max_cache). The action half of the property "
               "(no second action, no action for a remote completion) is carried by the engine-level oracle below and "
               "by C02's theorems about producer/forwarder.",
    rule="mixed local/remote sequences with max_cache=50; remote records reuse ids of runs the instance has seen "
         "(active and finished), messages repeated and merged; non-trivial = a record named a run the instance "
         "had already seen finish",
    trusted_base=["harness/predlang.py, sim_decider.py"],
    assumptions=["finished-run memory enabled and large enough", "local run ids fresh"])


def gen_cases(ctx):
    rng = ctx.rng
    cases = []
    for shape in G.shapes(3):
        if len(shape) < 2:
            continue
        for v in (0, 1):
            pre, halt, single = G.VARIANTS[v]
            cfg = dict(phen=[(1, [G.pattern(1, G.assign(shape, 1, "distinct"), pre, halt, single)])],
                       maxcache=50, idbase=1000)
            for _ in range(8 if ctx.quick else 60):
                ops = G.rand_ops(rng, cfg, rng.randint(3, 7), premote=0.45)
                # repeat / merge some remote messages
                extra = [o for o in ops if o[0] == "remote" and rng.random() < 0.5]
                cases.append((cfg, ops + extra))
    # a later subscriber refuses the very notification in which a run finishes locally; the peer's stale state of
    # that run (and its own report of the finish) arrive afterwards
    for shape in (["R", "R"], ["R", "S"], ["R", "R", "R"]):
        p = G.pattern(1, G.assign(shape, 0, "distinct"))
        n = len(shape)
        evs = [(i, i, 0, i + 1, 0, 0) for i in range(n)]
        stale = dict(id=1000, ph=1, pat=1, idx=1, hist=[(p["blocks"][0]["group"], [evs[0]])])
        done = dict(id=1000, ph=1, pat=1, idx=n, hist=[(p["blocks"][i]["group"], [evs[i]]) for i in range(n)])
        for last in ([("local", evs[n - 1])], [("local", (9, 9, 0, 5, 0, 0))] if shape[-1] == "S" else []):
            if not last:
                continue
            ops = [("local", e) for e in evs[:n - 1]] + last + [("remote", dict(comp=[], halt=[], upd=[stale])),
                                                                ("remote", dict(comp=[done], halt=[], upd=[]))]
            cases.append((dict(phen=[(1, [p])], maxcache=50, idbase=1000, refuse=[n - 1]), ops))
    for _ in range(1200 if ctx.quick else 20000):
        cfg = G.rand_config(rng, maxcache=50 if ctx.quick else 400, maxblocks=5)
        ops = G.rand_ops(rng, cfg, rng.randint(3, 10 if ctx.quick else 25), premote=0.45)
        for i0, o in reversed(list(enumerate(ops))):     # re-deliver some messages later (never earlier)
            if o[0] == "remote" and rng.random() < 0.3:
                ops.insert(rng.randint(i0 + 1, len(ops)), o)
        if rng.random() < 0.3:      # a subscriber behind the recorder refuses some notifications (the caller carries on)
            cfg = dict(cfg, refuse=sorted(rng.sample(range(len(ops)), min(len(ops), rng.randint(1, 3)))))
        cases.append((cfg, ops))
    return cases


def work(case):
    cfg, ops = case
    dec, rec = SD.make_decider(cfg)
    out, fail, nontrivial = [], None, False
    seen = set()
    ncomp = {}
    overflow = False
    # singleton patterns substitute identifiers (the local run stands for the remote one); their
    # at-most-one-run guarantee is C13's, so the per-identifier bookkeeping here covers the other patterns
    single = {(PL.phname(ph), PL.patname(p["name"])) for ph, ps in cfg["phen"] for p in ps if p["single"]}
    refuse = set(cfg.get("refuse", ()))
    for k, op in enumerate(ops):
        if op[0] == "remote":
            named = {str(r["id"]) for kk in ("comp", "halt", "upd") for r in op[1][kk]}
            if named & seen:
                nontrivial = True
        dec.verif_boom.armed = k in refuse      # a later subscriber raises out of this notification
        o, lists = SD.apply_op(dec, rec, op)
        out += o
        if lists is None:
            if op[0] == "remote" and fail is None:
                fail = SD.remote_raise_failure(dec, k)
            break
        comp, halt, upd = lists
        # the property is stated with the finished-run memory large enough: stop judging once either deque
        # (maxlen = max_cache) may have started to forget (the correspondence with the model still covers the rest)
        c_mem, h_mem, _ = dec.snapshot()
        if max(len(c_mem), len(h_mem)) >= cfg["maxcache"]:
            overflow = True
        if overflow:
            continue
        for r in comp:
            if (r.phenomenon_name, r.pattern_name) in single:
                continue      # identifiers of singleton runs are substituted: counted per pattern by C13, not per id
            ncomp[r.run_id] = ncomp.get(r.run_id, 0) + 1
            if ncomp[r.run_id] > 1 and fail is None:
                fail = dict(signature="second-completed-notification", step=k,
                            what="run %s was reported completed a second time (second complex event)" % r.run_id, detail=None)
        for r in comp + halt:
            seen.add(r.run_id)
        if op[0] == "remote":
            # what the message declared finished is finished for this instance from now on
            pats = {(PL.phname(ph), PL.patname(p["name"])) for ph, ps in cfg["phen"] for p in ps}
            for kk in ("comp", "halt"):
                for r in op[1][kk]:
                    if (PL.phname(r["ph"]), PL.patname(r["pat"])) in pats:
                        seen.add(str(r["id"]))
        active = {r.run_id for r in dec.all_runs()}
        back = active & seen
        if back and fail is None:
            x = sorted(back)[0]
            sig = "finished-run-active-again"
            if op[0] == "remote" and any(str(r["id"]) == x for r in op[1]["upd"]):
                # D17 (known): the same message finished the local singleton run x under the peer's id
                rx = [r for r in op[1]["upd"] if str(r["id"]) == x][0]
                if (PL.phname(rx["ph"]), PL.patname(rx["pat"])) in single and any(
                        r["ph"] == rx["ph"] and r["pat"] == rx["pat"] and str(r["id"]) != x
                        for kk in ("comp", "halt") for r in op[1][kk]):
                    sig = "singleton-run-finished-under-peer-id-recreated-by-same-message"
            fail = dict(signature=sig, step=k,
                        what="run %s is active again after this instance saw it finish" % x, detail=None)
    return out, nontrivial, fail


def engine_half(ctx, res):
    """the action half on a real engine: a completion learned from a peer yields the complex event but (default
    local_only) no action; repeating the message yields nothing more"""
    import sim_engine as SE
    rng = ctx.rng
    for k in range(60 if ctx.quick else 600):
        shape = rng.choice([s for s in G.shapes(3) if len(s) >= 2])
        p = G.pattern(1, G.assign(shape, 0, "distinct"))
        cfg = dict(phen=[(1, [p])], maxcache=50, idbase=1000)
        local_only = rng.random() < 0.8
        ed = dict(cfg=cfg, tr=0, td=0, tp=0, tf=0, early=True, local_only=local_only, datagen=[], act=[(1, (1, True, 5))])
        nb = len(p["blocks"])
        ev = (900, 50, 0, 1, 0, 0)
        rec = dict(id=2000 + k, ph=1, pat=1, idx=nb, hist=[(b["group"], [ev]) for b in p["blocks"]])
        note = dict(comp=[rec], halt=[], upd=[])
        stale = dict(comp=[], halt=[], upd=[dict(rec, idx=1, hist=[(p["blocks"][0]["group"], [ev])])])
        ops = [("remote", note), ("update",), ("update",), ("remote", note), ("remote", stale), ("update",), ("update",), ("update",)]
        out, engine, handler, log = SE.run_ops(ed, ops)
        res.note_case(("engine", k), True)
        ncx = len(log["complex"])
        nex = len(log["execs"])
        want_ex = 0 if local_only else 1
        if ncx != 1 or nex != want_ex or len(engine.decider.all_runs()) != 0:
            res.failures.append(dict(signature="remote-completion-engine", case=dict(ed=ed, ops=ops),
                                     what="remote completion delivered twice + stale update: %d complex events (want 1), %d action "
                                          "executions (want %d), %d active runs (want 0)" % (ncx, nex, want_ex, len(engine.decider.all_runs())),
                                     detail=None))
    # a later subscriber of the producer refuses a complex event (e.g. a bounded queue downstream is full) and the
    # caller carries on: still one complex event and one execution per finished run
    for stream in ([1, 2], [1, 1, 2], [1, 2, 1, 2], [1, 1, 2, 1, 2]):
        for armed in ([0], [1], [0, 1], [0, 2]):
            nrun, ncx, nex = producer_refuse_case(stream, armed)
            res.note_case(("producer-refuse", tuple(stream), tuple(armed)), True)
            if ncx != nrun or nex != nrun:
                res.failures.append(dict(signature="second-complex-event-after-refusal", case=dict(producer_refuse=True, stream=stream, armed=armed),
                                         what="a later producer subscriber refused notification(s) %s and the caller carried on: %d finished "
                                              "runs, %d complex events handed to the forwarder, %d action executions" % (armed, nrun, ncx, nex),
                                         detail=None))


def producer_refuse_case(stream, armed):
    """one engine; a LATER subscriber of the producer (after the forwarder and the receiver) refuses the notifications
    numbered in `armed`; the caller of engine.update() carries on.  Returns (completed runs, complex events handed to
    the subscribers before it, action executions)."""
    import sim_engine as SE
    import sim_decider as SD
    from bobocep.cep.engine.producer.pubsub import BoboProducerSubscriber
    p = G.pattern(1, G.assign(["R", "R"], 0, "distinct"))
    ed = dict(cfg=dict(phen=[(1, [p])], maxcache=50, idbase=1000), tr=0, td=0, tp=0, tf=0, early=True, local_only=True,
              datagen=[], act=[(1, (1, True, 5))])
    engine, handler, log = SE.make_engine(ed)

    class Boom(BoboProducerSubscriber):
        n = 0

        def on_producer_update(self, event, local):
            i, Boom.n = Boom.n, Boom.n + 1
            if i in armed:
                raise SD.SubscriberRefused("later producer subscriber refuses notification %d" % i)
    engine.producer.subscribe(Boom())

    def upd():
        try:
            engine.update()
        except SD.SubscriberRefused:
            pass
    for d in stream:
        engine.receiver.add_data(d)
        upd()
    for _ in range(8):
        upd()
    return len(log["completed"]), len(log["complex"]), len(log["execs"])


def atomic_cases():
    """a run one event short of completion; a peer's word about that run arrives while the engine thread is
    finishing it (and the other way round)"""
    ev = lambda i, d: (i, i, 0, d, 0, 0)        # noqa: E731
    out = []
    for shape, stream, last in ((["R", "R"], [1], 2), (["R", "R", "R"], [1, 2], 3), (["R", "RL", "R"], [1, 2, 2], 3)):
        p = G.pattern(1, G.assign(shape, 0, "distinct"))
        cfg = dict(phen=[(1, [p])], maxcache=50, idbase=1000)
        prefix = [("local", ev(i, d)) for i, d in enumerate(stream)]
        groups = [b["group"] for b in p["blocks"]]
        evs = [ev(i, d) for i, d in enumerate(stream)] + [ev(90, last)]
        hist_full = [(g, [e]) for g, e in zip([groups[min(i, len(groups) - 2)] for i in range(len(stream))] + [groups[-1]], evs)]
        merged = []
        for g, es in hist_full:          # loop events share a group
            if merged and merged[-1][0] == g:
                merged[-1][1].extend(es)
            else:
                merged.append((g, list(es)))
        rec_full = dict(id=1000, ph=1, pat=1, idx=len(shape), hist=merged)
        rec_first = dict(id=1000, ph=1, pat=1, idx=1, hist=[(groups[0], [evs[0]])])
        local = ("local", ev(len(stream), last))
        for note in (dict(comp=[rec_full], halt=[], upd=[]), dict(comp=[], halt=[rec_first], upd=[]),
                     dict(comp=[], halt=[], upd=[rec_first]), dict(comp=[rec_full], halt=[], upd=[rec_first])):
            out.append((cfg, prefix, ("remote", note), local))
            out.append((cfg, prefix, local, ("remote", note)))
    return out


def atomic_half(res):
    n = 0
    for ci, (cfg, prefix, a, b) in enumerate(atomic_cases()):
        for k in range(1, 400):
            reached, got, serial, excs = SD.atomic_pair(cfg, prefix, a, b, k)
            if not reached:
                break
            n += 1
            if excs or got not in serial:
                ncomp = sum(len(x[0]) for x in got[0])
                res.failures.append(dict(
                    signature="decider-operations-not-atomic",
                    what="a %s operation started when a %s operation was at line %d of decider.py: the notifications and the "
                         "final state are those of neither order of the two operations (%d completion(s) notified%s)"
                         % (b[0], a[0], k, ncomp, "; raised %r" % excs if excs else ""),
                    case=dict(atomic=ci, line=k), detail=dict(got=repr(got)[:600], serial=repr(serial)[:1200])))
                break
        res.note_case(("atomic", ci), True)
    res.extra["two_caller_interleavings_of_decider_operations"] = n


def tcp_case(sc):
    """real engines replicating through the real BoboDistributedTCP with link faults (a send that fails after the
    bytes were delivered, refused connections, backlog retries, merged backlog + new changes).  Per instance and run id,
    after every step: at most one completed notification (hence one complex event), never active again once seen
    finished, and the action runs only where the run completed locally, once."""
    import sim_cluster as SC
    from bobocep.cep.engine.decider.pubsub import BoboDeciderSubscriber
    cfg, n = sc["cfg"], sc["n"]
    ed = dict(cfg=cfg, tr=0, td=0, tp=0, tf=0, early=True, local_only=True, datagen=[], act=[(1, (1, True, 5))])
    cl = SC.TcpCluster(ed, n)
    seen = [dict(comp={}, fin=set(), local_comp=0) for _ in range(n)]

    def spy(k):
        class Spy(BoboDeciderSubscriber):
            def on_decider_update(self, completed, halted, updated, local):
                for r in completed:
                    seen[k]["comp"][r.run_id] = seen[k]["comp"].get(r.run_id, 0) + 1
                    seen[k]["fin"].add(r.run_id)
                    if local:
                        seen[k]["local_comp"] += 1
                for r in halted:
                    seen[k]["fin"].add(r.run_id)
        return Spy()
    for k in range(n):
        cl.net.nodes[k].engine.decider.subscribe(spy(k))
    fail = None

    def check(i):
        for k in range(n):
            twice = sorted(r for r, c in seen[k]["comp"].items() if c > 1)
            if twice:
                return dict(signature="run-completed-twice-through-tcp", step=i,
                            what="instance %d was notified twice of the completion of run %s (two complex events)" % (k, twice[0]), detail=None)
            back = sorted(r.run_id for r in cl.nodes[k][0].decider.all_runs() if r.run_id in seen[k]["fin"])
            if back:
                return dict(signature="finished-run-active-again-through-tcp", step=i,
                            what="run %s is active on instance %d after that instance saw it finish" % (back[0], k), detail=None)
            ncx, nex = len(cl.nodes[k][2]["complex"]), len(cl.nodes[k][2]["execs"])
            if ncx != sum(seen[k]["comp"].values()) or nex != seen[k]["local_comp"]:
                return dict(signature="complex-events-or-actions-not-one-per-completion-through-tcp", step=i,
                            what="instance %d: %d completed notifications (%d local) but %d complex events and %d action executions"
                                 % (k, sum(seen[k]["comp"].values()), seen[k]["local_comp"], ncx, nex), detail=None)
        return None
    steps = list(sc["steps"]) + [("heal",), ("release", None), ("wait", 6), ("wait", 6), ("wait", 6)]   # backlogs are retried every 5 s
    for i, st in enumerate(steps):
        if st[0] == "in":
            cl.input(st[1], st[2])
        elif st[0] == "link":
            cl.link(st[1], st[2], st[3])
        elif st[0] == "heal":
            cl.heal()
        elif st[0] == "hold":
            cl.hold(st[1])
        elif st[0] == "release":
            cl.release(st[1])
        else:
            cl.wait(st[1])
        fail = check(i)
        if fail:
            break
    faults = sum(1 for m in cl.net.wire if m.get("kind") == "refused" or (m.get("kind") == "msg" and not m.get("sender_ok", True)))
    remote = any(seen[k]["comp"] and sum(seen[k]["comp"].values()) > seen[k]["local_comp"] for k in range(n))
    return fail, faults > 0 and remote


def gen_tcp(ctx):
    rng = ctx.rng
    out = []
    ab = dict(phen=[(1, [G.pattern(1, G.assign(["R", "R"], 0, "distinct"))])], maxcache=50, idbase=1000)
    shapes = [s for s in G.shapes(3) if len(s) >= 2 and all(k in ("R", "S") for k in s)]
    for k in range(150 if ctx.quick else 2500):
        n = rng.choice([2, 2, 3])
        shape = rng.choice(shapes)
        p = G.pattern(1, G.assign(shape, 0, "distinct"))
        cfg = dict(phen=[(1, [p])], maxcache=50, idbase=1000)
        steps = []
        for _ in range(rng.randint(4, 9)):
            r = rng.random()
            if r < 0.3:
                i, j = rng.sample(range(n), 2)
                steps.append(("link", i, j, rng.choice(["fail", "fail", "down"])))
            elif r < 0.4:
                steps.append(("heal",))
            elif r < 0.5:
                steps.append(("wait", rng.choice([1, 6, 6, 11, 61])))
            elif r < 0.58:
                steps.append(("hold", rng.randrange(n)))
            elif r < 0.64:
                steps.append(("release", None))
            steps.append(("in", rng.randrange(n), rng.randint(1, len(shape))))
        out.append(dict(cfg=cfg, n=n, steps=steps))
    # several messages naming the same finished run wait in one incoming queue: the peer's own report and a third
    # instance's snapshot (which remembers the run) while the receiver's main thread is busy
    for st0 in ("down", "fail"):
        out.append(dict(cfg=ab, n=3, steps=[("link", 2, 1, "down"), ("hold", 1), ("in", 0, 1), ("in", 0, 2), ("heal",),
                                            ("wait", 11), ("release", 1), ("wait", 6)]))
        out.append(dict(cfg=ab, n=3, steps=[("in", 0, 1), ("hold", 1), ("link", 0, 1, st0), ("in", 0, 2), ("wait", 6), ("heal",),
                                            ("wait", 6), ("wait", 61), ("release", 1)]))
    # a completion (or halt) waits in the backlog until the peer is in the RESYNC period: the full state transfer that
    # then goes out comes from a sender that remembers the run as finished AND still has it in the backlog
    for st in ("down", "fail"):
        for gap in ([("wait", 61)], [("wait", 6), ("wait", 61)], [("wait", 31), ("wait", 31)]):
            out.append(dict(cfg=ab, n=2, steps=[("in", 0, 1), ("link", 0, 1, st), ("in", 0, 2)] + gap + [("heal",), ("wait", 11), ("wait", 11)]))
            out.append(dict(cfg=ab, n=3, steps=[("in", 0, 1), ("in", 1, 1), ("link", 0, 1, st), ("link", 0, 2, st), ("in", 0, 2)] + gap +
                                               [("heal",), ("wait", 11), ("wait", 11)]))
    # the plain sequence: a completion whose send fails after delivery, retried twice
    for st in ("fail", "down"):
        out.append(dict(cfg=ab, n=2, steps=[("in", 0, 1), ("link", 0, 1, st), ("in", 0, 2), ("wait", 6), ("wait", 6), ("heal",), ("wait", 6)]))
        out.append(dict(cfg=ab, n=3, steps=[("in", 0, 1), ("link", 0, 1, st), ("link", 0, 2, "fail"), ("in", 0, 2), ("in", 1, 1), ("wait", 6),
                                            ("in", 2, 2), ("wait", 6), ("heal",), ("wait", 6)]))
    return out


def tcp_half(ctx, res):
    scs = gen_tcp(ctx)
    for sc, (fail, nontrivial) in zip(scs, pmap(tcp_case, scs, chunksize=4)):
        res.note_case(("tcp", repr(sc)), nontrivial)
        res.count("tcp_scenarios_with_link_faults" if nontrivial else "tcp_scenarios_without_effective_fault")
        if fail:
            res.failures.append(dict(signature=fail["signature"], what=fail["what"], case=dict(tcp=sc), detail=None))


def run(ctx, res):
    engine_half(ctx, res)
    atomic_half(res)
    tcp_half(ctx, res)
    cases = gen_cases(ctx)
    results = pmap(work, cases)
    coq_cases = []
    for (cfg, ops), (out, nontrivial, fail) in zip(cases, results):
        res.note_case((PL.config_coq(cfg), repr(ops)), nontrivial)
        res.count("ops_%d" % min(len(ops), 25))
        coq_cases.append((SD.case_coq(cfg, ops), out))
        if fail:
            res.failures.append(dict(signature=fail["signature"], what=fail["what"],
                                     case=dict(cfg=cfg, ops=ops[:fail["step"] + 1]), detail=fail["detail"]))
    res.failures.sort(key=lambda f: len(repr(f["case"])))
    res.samples = [dict(cfg=cases[0][0], ops=cases[0][1])]
    mism, errs = common.coq_run_cases("C05", SD.IMPORTS, "run_decider", "(cdesc * list dop)", coq_cases, shard=150)
    res.errors += errs
    res.traces_validated = len(coq_cases) - len(mism)
    for idx, model_out in mism[:10]:
        res.mismatches.append(dict(case=dict(cfg=cases[idx][0], ops=cases[idx][1]), impl=coq_cases[idx][1], model=model_out))


def replay(obj):
    case = obj.get("case") or (obj.get("mismatches") or [{}])[0].get("case")
    if not case:
        print(obj)
        return 0
    if "tcp" in case:
        sc = case["tcp"]
        sc["cfg"], _ = pC12.norm_case(dict(cfg=sc["cfg"], ops=[]))
        sc["steps"] = [tuple(x) for x in sc["steps"]]
        fail, _ = tcp_case(sc)
        print("scenario (real engines + real BoboDistributedTCP, link faults):", sc["steps"])
        print("oracle  :", fail or "every finished run was finished once, everywhere")
        return 1 if fail else 0
    if "atomic" in case:
        cfg, prefix, a, b = atomic_cases()[case["atomic"]]
        reached, got, serial, excs = SD.atomic_pair(cfg, prefix, a, b, case["line"])
        print("a %s operation started when a %s operation is at line %d of decider.py" % (b[0], a[0], case["line"]))
        print("outcome          :", got)
        print("serial a;b / b;a :", serial)
        bad = bool(excs) or got not in serial
        print("neither serial order" if bad else "equal to one of the serial orders")
        return 1 if bad else 0
    if case.get("producer_refuse"):
        nrun, ncx, nex = producer_refuse_case(case["stream"], case["armed"])
        print("finished runs %d, complex events handed to the forwarder %d, action executions %d" % (nrun, ncx, nex))
        return 0 if ncx == nrun == nex else 1
    if "ed" in case:
        import sim_engine as SE
        ed = case["ed"]
        ed["cfg"], _ = pC12.norm_case(dict(cfg=ed["cfg"], ops=[]))
        ed["act"] = [(k, tuple(a)) for k, a in ed["act"]]
        ops = [pC12.norm_case(dict(cfg=dict(phen=[]), ops=[o]))[1][0] if o[0] == "remote" else tuple(o) for o in case["ops"]]
        _, engine, _h, log = SE.run_ops(ed, ops)
        want_ex = 0 if ed["local_only"] else 1
        print("complex events %d (want 1), executions %d (want %d), active runs %d (want 0)"
              % (len(log["complex"]), len(log["execs"]), want_ex, len(engine.decider.all_runs())))
        return 0 if (len(log["complex"]), len(log["execs"]), len(engine.decider.all_runs())) == (1, want_ex, 0) else 1
    cfg, ops = pC12.norm_case(case)
    out, _, fail = work((cfg, ops))
    model, _ = common.coq_eval("C05r", SD.IMPORTS, "run_decider %s" % SD.case_coq(cfg, ops))
    print("implementation:", out)
    print("model         :", model)
    print("oracle        :", fail or "finished runs stayed finished")
    return 1 if (fail or model != out) else 0
