"""Regenerates /verif/MANIFEST.json from the META of every harness/pCxx.py that exists."""
import importlib
import json
import os
import subprocess
import sys

sys.path.insert(0, os.path.dirname(os.path.abspath(__file__)))
VERIF = os.path.dirname(os.path.dirname(os.path.abspath(__file__)))

props = [json.loads(l) for l in open(os.path.join(VERIF, "properties.jsonl"))]
checks, na = [], []
NA_REASONS = json.load(open(os.path.join(VERIF, "harness", "not_applicable.json")))
for p in props:
    pid = p["id"]
    if not os.path.exists(os.path.join(VERIF, "harness", "p%s.py" % pid)) or pid in NA_REASONS:
        na.append(dict(property_id=pid, reason=NA_REASONS.get(pid, "check not built yet (work in progress; planned in DESIGN.md section 4)")))
        continue
    try:
        m = importlib.import_module("p" + pid)
        meta = m.META
        assert all(k in meta for k in ("level_text", "level_note")) and os.path.exists(
            os.path.join(VERIF, "coq", m.PROPERTY_FILES[0]))
    except Exception as ex:
        na.append(dict(property_id=pid, reason="check under construction (%s)" % type(ex).__name__))
        continue
    checks.append(dict(
        property_id=pid,
        quick_cmd="./check %s --tier quick" % pid,
        thorough_cmd="./check %s --tier thorough" % pid,
        evidence_file="/verif/evidence/%s.json" % pid,
        replay_cmd_template="./check %s --replay {path}" % pid,
        engine="coq-model+correspondence",
        level_claimed=dict(category="proof", text=meta["level_text"], design_ref="DESIGN.md section 4 (%s)" % pid),
        level_note=meta["level_note"],
        technique=meta.get("technique", "Coq theorems over an executable Gallina model + vm_compute correspondence against /repo"),
    ))
fix_commits = [l.split()[0] for l in subprocess.run(
    ["git", "-C", "/repo", "log", "--format=%h %s"], capture_output=True, text=True).stdout.splitlines()
    if " fix:" in " " + l]
man = dict(
    version=1,
    setup_cmd="cd /verif && ./setup.sh",
    hooks=dict(guard="BOBOCEP_VERIF", enable="no guarded source change exists: the harness drives bobocep from outside "
               "(subclassing, replacing module globals socket/time, wrapping device managers); nothing to enable",
               baseline_off_cmd="cd /repo && /venv/bin/python -m pytest -ra -q -p no:cacheprovider --timeout=900 --continue-on-collection-errors",
               source_commits=fix_commits, add_only=True),
    engines=[dict(name="coq-model+correspondence", path="/verif/coq + /verif/harness",
                  serves_properties=[c["property_id"] for c in checks],
                  kind_free_text="Coq 8.16.1 theorems about hand-written executable Gallina models (coq/Model, coq/Proofs, "
                                 "coq/Properties); every run re-checks the theorems, evaluates the model inside Coq "
                                 "(vm_compute) on generated cases and compares with the implementation imported from /repo; "
                                 "independent property oracles on the implementation search for the failing input")],
    checks=checks,
    notes="source_commits lists the unguarded fix: commits (genuine defects repaired); there are no guarded hooks. "
          "known_findings.json lists known and fixed findings. ./check <id> --replay <file> re-executes a replay.",
    not_applicable=na)
json.dump(man, open(os.path.join(VERIF, "MANIFEST.json"), "w"), indent=1)
try:
    import jsonschema
    jsonschema.validate(man, json.load(open("/root/.vp/MANIFEST.schema.json")))
    print("MANIFEST.json valid: %d checks, %d not claimed" % (len(checks), len(na)))
except FileNotFoundError:
    pass
