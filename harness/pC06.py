"""C06 Link failures lose nothing: backlog or full resync restores consistency."""
import copy
import itertools
import json

import common
from common import zs, zz, cbool, clist, cnat
import gen_patterns as G
import out_driver as od
import pC15
import sim_net as SN
from par import pmap

PROP = "C06"
PROPERTY_FILES = ["Properties/C06.v", "Properties/C06live.v", "Properties/C06lists.v"]
META = dict(
    level_text="Theorems (Coq, closed under the global context). Small-step model of one instance (outgoing thread cut at "
               "every access to state another thread writes; enqueues and incoming RESET/address handling interleaved "
               "anywhere; arbitrary non-decreasing clock; arbitrary send outcomes incl. failure after delivery): "
               "C06_knowledge_inv - on the REPAIRED order of _tcp_outgoing (queue item taken once inside the locked "
               "decision) every note ever reported is, for every peer, delivered (SYNC containing it or later RESYNC), "
               "queued, in the backlog, in flight in the running iteration, or the peer is in the RESYNC period; "
               "C06_lost_note_refuted - false on the pinned order (D9 witness); C06_resync_before_incremental - over "
               "every history an incremental message is only chosen within period_resync of the last successful "
               "contact; C06_snapshot_supersedes_active/_finished and C06_message_supersedes_active - after a receiver "
               "has applied a snapshot (any message) every run it reports as active is finished at the receiver or "
               "active at least as far, every finished run is remembered, nothing is forgotten (memory enabled, no "
               "overflow, non-singleton). Tie: the small-step model is evaluated in Coq against the real _tcp_outgoing "
               "driven with yield-point injections (enqueue / incoming message at every device-manager access), "
               "after inferring from the code which order and which threshold convention it uses. Oracle: 2-3 real "
               "engines + real BoboDistributedTCP over a fake network; bounded-exhaustive and random fault sequences, "
               "then healing; replicas must agree, nothing stale/missing/resurrected; plus the knowledge invariant and "
               "the supersedes premise checked on the implementation after every step. HEALING HALF (Properties/C06live.v, "
               "repaired order, every interleaving of enqueues / RESETs / address changes / failures towards other peers): "
               "C06_heal_progress - from any reachable state at the top of an iteration, if every message handed to the "
               "socket layer for peer j is delivered and every decision for j finds the retry interval that applies elapsed "
               "(RESYNC period: now-last_attempt reached attempt_resync; otherwise: an item is held, or the backlog is empty, "
               "or now-last_attempt reached attempt_stash), then after max(queue length,1) complete iterations every note "
               "reported before that state has been delivered to j (SYNC containing it / later RESYNC) and j's backlog is "
               "empty; C06_heal_progress_general - the same with the clock premise needed ONCE, at the max(L,1)-th or a later "
               "iteration (tracker (r,d)); C06_heal_contact(_general) - with no RESET from j handled meanwhile and "
               "period_resync > 0, j is within the RESYNC period afterwards; C06_heal_receiver(_general) / "
               "C06_delivered_reaches_receiver - with the receiver any run of the decider model (local events and messages "
               "from anyone, memory with room, non-singleton) that has applied every delivered message naming a run, and "
               "snapshots at least as advanced as the notes reported before them, the receiver remembers every run the "
               "sender reported finished and holds every run it reported active as finished or active at least as far. "
               "The harness follows the healing phase of every oracle scenario with the same tracker, checks heal_ok / the "
               "clock / applied_all / snapshots_cover on the implementation and compares the iteration at which the "
               "theorem promises delivery with the iteration after which the real loop had delivered everything.",
    level_note="Trusted: Coq kernel/vm_compute; harness (sim_net.py, out_driver.py: budgeted _thread_closed, fake "
               "socket/time, device-manager proxies as yield points). The real thread scheduler is modelled by "
               "interleaving at the granularity of individually locked accessors and Queue operations. The healing "
               "theorems are about the repaired step order only (the pinned order does not satisfy the invariant they start "
               "from); fairness (the outgoing loop keeps iterating) is the iteration count in their premises; the two "
               "interface premises of C06_heal_receiver (applied_all, snapshots_cover) are checked on the implementation, not "
               "proved from a joint model of decider + tcp; the Python tracker in pC06.HealMonitor mirrors "
               "Model/ReplicationLive.v (due_at, track). Convergence of the decider lattice is C04/C05.",
    rule="correspondence: 1-2 peers x {in contact, ping period, resync period, backlog due} x queue empty/non-empty x one "
         "injection (enqueue / incoming with or without RESET) at every yield point of every peer x outcomes, plus "
         "random histories with up to 3 injections; oracle: every sequence up to depth 3 (2 instances) over {input, "
         "outgoing iteration, main update, link down/fail/up, clock +5/+31/+61} and every single input injection at "
         "every yield point (3 instances), plus seeded random sequences; non-trivial = a note was emitted and at "
         "least one message was attempted",
    trusted_base=["harness/sim_net.py: DevProxy/QueueProxy yield points, IterTracker (accesses -> model points), fake "
                  "network routing sendall -> the peer's real _tcp_incoming_handle_client",
                  "harness/out_driver.py (shared with C15)",
                  "run records abstracted to run ids in the correspondence; (run id, block index, history size) in the oracle"],
    assumptions=["each individually locked BoboDeviceManager accessor and each Queue operation is atomic; nothing coarser",
                 "the clock never steps back (knowledge_inv); stash and flag_reset are written by the outgoing thread only",
                 "healing theorems: every send to the peer in question succeeds from the healing point on (heal_ok), the "
                 "retry interval has elapsed at the decision that counts (due_at), the loop completes the stated number of "
                 "iterations; for the contact clause no RESET from that peer is handled meanwhile; for the receiver clause "
                 "applied_all and snapshots_cover - each checked on the healing phase of every explored schedule",
                 "finished-run memory enabled and not overflowing, non-singleton patterns, patterns that ignore fed-back "
                 "complex events (oracle scope, as the property states)"])

PERIODS = (30, 60, 5, 5, 10)
NOW = 1000
EMPTY = [[], [], []]
SNAP = [[6], [7], [8, 9]]
QNOTE = [[3], [4], [5]]
STASH = [[1], [], [2]]
POINT_COQ = dict(lc="PtLc", la="PtLa", qe="PtQe", prep="PtPrep", send="PtSend", wlc="PtWlc", wla="PtWla")

# ================================================================== correspondence (one instance, stub decider)
_drivers = {}


def gen_tag(prop):
    """name of the generated Coq case files: one set per examined tree, so that checks of different trees running at
    the same time do not overwrite each other's cases"""
    import hashlib
    return "%s_%s" % (prop, hashlib.sha1(common.REPO.encode()).hexdigest()[:6])


def ydriver(cfg, n_peers):
    key = (tuple(cfg), n_peers)
    if key not in _drivers:
        _drivers[key] = SN.YieldDriver(n_peers, cfg)
    return _drivers[key]


def enc_recs(recs):
    enc, k = [], 0
    while k < len(recs):
        r = recs[k]
        if r["kind"] == "connect" and k + 1 < len(recs) and recs[k + 1]["kind"] == "msg" and recs[k + 1]["peer"] == r["peer"]:
            m = recs[k + 1]
            enc += [-1, m["peer"], m["addr"], m["type"], m["flags"]]
            for part in (m["c"], m["h"], m["u"]):
                enc += [len(part)] + part
            k += 2
        elif r["kind"] == "connect":
            enc += [-3, r["peer"], r["addr"]]
            k += 1
        else:
            enc += [-1, r["peer"], r["addr"], r["type"], r["flags"]]
            for part in (r["c"], r["h"], r["u"]):
                enc += [len(part)] + part
            k += 1
    return enc


def enc_state(st):
    enc = [-2, st["queue"]]
    for p in st["peers"]:
        enc += [p["lc"], p["la"], 1 if p["fr"] else 0]
        for part in p["st"]:
            enc += [len(part)] + part
        enc += [p["addr"]]
    return enc


def run_impl(case):
    """acts: ["enq", note] | ["in", from, type, flags] | ["iter", now, snap, sends, table]
    table: [[point, peer index, [["enq", note] | ["in", from, type, flags], ...]], ...]"""
    drv = ydriver(case["cfg"], len(case["peers"]))
    drv.reset(case["peers"], case["queue"])
    enc, trace = [], []
    for act in case["acts"]:
        recs, pts = [], []
        if act[0] == "enq":
            drv.enqueue(act[1])
        elif act[0] == "in":
            drv.deliver(act[1], act[2], act[3])
        else:
            try:
                recs = drv.iterate(act[1], act[2], [tuple(x) for x in act[3]], table=act[4] if len(act) > 4 else ())
            except Exception as ex:      # noqa: the outgoing loop of the real component would end here, for good
                trace.append(dict(act=act, recs=[], post=drv.state(), points=list(drv.last_trace), fired=[],
                                  died="%s: %s" % (type(ex).__name__, ex)))
                enc += [-999]
                break
            pts = list(drv.last_trace)
        post = drv.state()
        enc += enc_recs(recs) + enc_state(post)
        trace.append(dict(act=act, recs=recs, post=post, points=pts, fired=list(drv.yielder.fired)))
    return enc, trace


def c_inj(x):
    if x[0] == "enq":
        return "JEnq %s" % pC15.c_note(x[1])
    return "JIn %s %s %s" % (cnat(x[1]), zz(x[3]), zz(11 + x[1]))


def c_top(a, n_peers):
    if a[0] == "enq":
        return "TEnq %s" % pC15.c_note(a[1])
    if a[0] == "in":
        return "TIn %s %s %s" % (cnat(a[1]), zz(a[3]), zz(11 + a[1]))
    sends = list(a[3]) + [(0, None)] * (n_peers - len(a[3]))
    tab = clist("(%s %s, %s)" % (POINT_COQ[pt], cnat(k), clist(c_inj(x) for x in xs)) for pt, k, xs in (a[4] if len(a) > 4 else ()))
    return "TIter %s %s %s %s" % (zz(a[1]), pC15.c_note(a[2]),
                                  clist("(%s, %s)" % (zz(o), zz(a[1] if t is None else t)) for o, t in sends), tab)


def coq_input(case, conv, fixed):
    cfg = case["cfg"]
    c = "(mkCfg %s (%s))" % (" ".join(zz(x) for x in cfg), ", ".join(cbool(b) for b in conv))
    ps = clist(pC15.c_peer(p, i) for i, p in enumerate(case["peers"]))
    q = clist(pC15.c_note(n) for n in case["queue"])
    acts = clist(c_top(a, len(case["peers"])) for a in case["acts"])
    return "(%s, %s, (%s, %s), %s)" % (cbool(fixed), c, ps, q, acts)


PEER_STATES = [
    dict(lc=NOW - 1, la=NOW - 1, fr=False, st=EMPTY),            # in contact
    dict(lc=NOW - 40, la=NOW - 40, fr=False, st=EMPTY),          # ping period, due
    dict(lc=NOW - 100, la=NOW - 100, fr=True, st=EMPTY),         # resync period, due, restart not yet announced
    dict(lc=NOW - 2, la=NOW - 9, fr=False, st=STASH),            # backlog due
    dict(lc=NOW - 100, la=NOW - 2, fr=False, st=STASH),          # resync period, not due
]


def shift(p, i):
    return dict(p, st=[[x + 20 * i for x in part] for part in p["st"]])


def grid_cases(quick):
    outs1 = [[[0, NOW + 1]], [[4, NOW + 1]], [[1, NOW + 2]]]
    outs2 = [[[0, NOW + 1], [0, NOW + 2]], [[4, NOW + 1], [0, NOW + 2]], [[0, NOW + 1], [2, NOW + 3]]]
    new = [[], [], [77]]
    for n in (1, 2):
        states = list(itertools.product(range(len(PEER_STATES)), repeat=n))
        for st in states:
            peers = [shift(PEER_STATES[s], i) for i, s in enumerate(st)]
            for queue in ([], [QNOTE]):
                tables = [[]]
                for pt in SN.POINTS:
                    for k in range(n):
                        tables.append([[pt, k, [["enq", new]]]])
                        for f in range(n):
                            tables.append([[pt, k, [["in", f, od.PING, 1]]]])
                        if pt in ("send", "la"):
                            tables.append([[pt, k, [["in", k, od.SYNC, 0]]]])
                for ti, tab in enumerate(tables):
                    outs = outs1 if n == 1 else outs2
                    if quick and n == 2:
                        outs = [outs[(ti + sum(st)) % len(outs)]]
                    for sends in outs:
                        yield dict(cfg=list(PERIODS), peers=peers, queue=queue,
                                   acts=[["iter", NOW, SNAP, sends, tab], ["iter", NOW + 4, SNAP, [[0, NOW + 4]] * n, []]])


def random_case(rng):
    base = pC15.random_history(rng)
    n = len(base["peers"])
    acts = []
    for a in base["acts"]:
        if a[0] != "iter":
            acts.append(a)
            continue
        tab = []
        for _ in range(rng.choice((0, 0, 1, 1, 2, 3))):
            pt, k = rng.choice(SN.POINTS), rng.randrange(n)
            if rng.random() < 0.6:
                x = ["enq", [[], [], [300 + rng.randint(0, 50)]]]
            else:
                x = ["in", rng.randrange(n), rng.choice((0, 1, 2)), rng.choice((0, 1, 1))]
            tab.append([pt, k, [x]])
        acts.append(a + [tab])
    return dict(base, acts=acts)


CORPUS = [
    # D9: two peers in contact, an enqueue between the decision for peer 0 and the decision for peer 1
    dict(cfg=list(PERIODS), peers=[PEER_STATES[0], PEER_STATES[0]], queue=[],
         acts=[["iter", NOW, SNAP, [[0, NOW], [0, NOW]], [["lc", 1, [["enq", [[], [], [7]]]]]]],
               ["iter", NOW + 1, SNAP, [[0, NOW + 1], [0, NOW + 1]], []]]),
    # D10: RESET handled between the SYNC decision and the bookkeeping
    dict(cfg=list(PERIODS), peers=[PEER_STATES[0]], queue=[QNOTE],
         acts=[["iter", NOW, SNAP, [[0, NOW + 1]], [["wlc", 0, [["in", 0, od.PING, 1]]]]],
               ["iter", NOW + 2, SNAP, [[0, NOW + 2]], []]]),
]


# ================================================================== oracle (2..3 real engines + real BoboDistributedTCP)
def _ins(p):
    p = copy.deepcopy(p)
    for b in p["blocks"]:
        if b["neg"]:
            b["preds"] = [("or", ("not", ("kind", 0)), q) for q in b["preds"]]
        else:
            b["preds"] = [("and", ("kind", 0), q) for q in b["preds"]]
    return p


def _pat(name, shape, first=1, single=False):
    blocks = [G.blk([("deq", first + i)], k, i + 1) for i, k in enumerate(shape)]
    return _ins(G.pattern(name, blocks, (), (), single))


PATS = {
    "abc": [(1, [_pat(1, ["R", "R", "R"])])],
    "loop": [(1, [_pat(1, ["R", "RL", "R"])])],
    "strict": [(1, [_pat(1, ["R", "S", "R"])])],
    "opt": [(1, [_pat(1, ["R", "RO", "R"])])],
    "neg": [(1, [_pat(1, ["R", "RN", "R"])])],
    "two": [(1, [_pat(1, ["R", "R", "R"])]), (2, [_pat(2, ["R", "R", "R"], 4)])],
    # a, optionally b, c, d: a run that skipped b is at block 3 with two events; a, b*, c with no iteration likewise
    "opt4": [(1, [_pat(1, ["R", "RO", "R", "R"])])],
    "loop4": [(1, [_pat(1, ["R", "RL", "RO", "R"])])],
    # two phenomena whose patterns have the same NAME and different blocks (names are unique within a phenomenon only)
    "samename": [(1, [_pat(1, ["R", "R", "R"])]), (2, [_pat(1, ["R", "R"], 4)])],
    # a pattern with many runs next to a singleton pattern (its runs are started on one instance only in the scenarios)
    "mix": [(1, [_pat(1, ["R", "R", "R"])]), (2, [_pat(2, ["R", "R", "R"], 4, True)])],
}


def engine_desc(pname):
    cfg = dict(phen=PATS[pname], maxcache=500, idbase=1000)
    return dict(cfg=cfg, tr=0, td=0, tp=0, tf=0, early=True, local_only=True, datagen=[], act=[])


def rounds(net, k, dt=1):
    for _ in range(k):
        for i in range(net.n):
            net.out_iter(i)
        for i in range(net.n):
            net.main_update(i)
        net.advance(dt)


def do(net, a):
    if a[0] == "in":
        net.input(a[1], a[2])
    elif a[0] == "out":
        net.out_iter(a[1])
    elif a[0] == "outinj":      # ["outinj", i, point, destination, datum]: the input arrives while i's loop is at that point
        net.out_iter(a[1], {(a[2], a[3]): (lambda: net.input(a[1], a[4]))})
    elif a[0] == "upd":
        net.main_update(a[1])
    elif a[0] == "link":
        net.set_link(a[1], a[2], a[3])
    elif a[0] == "clock":
        net.advance(a[1])
    else:
        raise ValueError(a)


def sub(a, b):
    return all(x in b for x in a)


def knowledge_violations(net):
    """the knowledge invariant on the implementation, all outgoing threads idle: every note an instance has
    announced is, for every peer: delivered (SYNC containing it / later RESYNC), queued, in the backlog, or the peer
    is in the RESYNC period"""
    out = []
    pr = net.periods[1]
    for i, nd in enumerate(net.nodes):
        if not nd.emitted:
            continue
        queued = set(net.queue_notes(i))
        for j in range(net.n):
            if j == i:
                continue
            ps = net.peer_state(i, j)
            if net.clock.cur - ps["lc"] >= pr:
                continue
            msgs = [w for w in net.wire if w["kind"] == "msg" and w["src"] == i and w["dst"] == j
                    and w["src_gen"] == nd.gen and w["dst_gen"] == net.nodes[j].gen and w["err"] is None]
            for t, nk in enumerate(nd.emitted):
                if nk in queued:
                    continue
                if sub(nk[0], ps["st"][0]) and sub(nk[1], ps["st"][1]) and sub(nk[2], ps["st"][2]):
                    continue
                if any((w["type"] == SN.SYNC and sub(nk[0], w["c"]) and sub(nk[1], w["h"]) and sub(nk[2], w["u"]))
                       or (w["type"] == SN.RESYNC and w["seen"] > t) for w in msgs):
                    continue
                out.append((i, j, t, nk))
    return out


def message_order_violations(net):
    """a peer out of contact for longer than the resync period gets a RESYNC before anything incremental"""
    out = []
    pr = net.periods[1]
    last_ok = {}
    for w in net.wire:
        if w["kind"] != "msg":
            continue
        i, j = w["src"], w["dst"]
        key = (i, j, w["src_gen"])
        if w["type"] != SN.RESYNC and w["dec_t"] is not None and w["dec_t"] - last_ok.get(key, 0) > pr:
            out.append((i, j, SN.MODE_NAME[w["type"]], w["dec_t"], last_ok.get(key, 0)))
        if w.get("sender_ok", True):
            last_ok[key] = w["t"]
        if (w["flags"] & 1) and w["err"] is None:
            last_ok[(j, i, net.nodes[j].gen)] = 0
    return out


# ---- healing half (Properties/C06live.v): premises checked, bound compared with the real loop
_CONV = (True, True, True, True, True)       # threshold convention of the code (set by run() / replay() before the oracle)


def _reached(ge, x, t):
    return x >= t if ge else x > t


def incoming_len(nd):
    return nd.dist._queue_incoming.qsize()


def vacuous(nk):
    return not (nk[0] or nk[1] or nk[2])


def delivered_all(net, i, j, m0):
    """every note instance i reported before the healing point (the first m0) is covered by a message that reached
    the socket layer for j: a SYNC containing it or a RESYNC whose snapshot was taken after it was reported"""
    nd = net.nodes[i]
    msgs = [w for w in net.wire if w["kind"] == "msg" and w["src"] == i and w["dst"] == j
            and w["src_gen"] == nd.gen and w["dst_gen"] == net.nodes[j].gen]
    for t in range(m0):
        nk = nd.emitted[t]
        if vacuous(nk):
            continue
        if not any((w["type"] == SN.SYNC and sub(nk[0], w["c"]) and sub(nk[1], w["h"]) and sub(nk[2], w["u"]))
                   or (w["type"] == SN.RESYNC and w["seen"] > t) for w in msgs):
            return False
    return True


class HealMonitor:
    """Follows the healing phase of a scenario with the vocabulary of Model/ReplicationLive.v, for every ordered pair
    (sender i, peer j): checks heal_ok (every message handed to the socket layer for j is delivered; the clock does
    not step back), evaluates due_at at the decision for j of every iteration (values read off the real device
    manager immediately before the loop reads them), runs `track` (r, d), and at the iteration in which d becomes
    true compares the real state with the conclusion of C06_heal_progress_general / C06_heal_contact_general."""

    def __init__(self, net):
        self.net = net
        self.pr, self.ast, self.ar = net.periods[1], net.periods[2], net.periods[4]
        self.fails = []
        self.iter_no = [0] * net.n
        self.m0 = [len(nd.emitted) for nd in net.nodes]
        self.clock0 = net.clock.cur
        self.pairs = {}
        for i in range(net.n):
            L = len(net.queue_notes(i))
            for j in range(net.n):
                if j != i:
                    st = dict(L=L, r=L, d=False, bound=None, real=None, premise=True, due_iters=0)
                    if self.drained(i, j):
                        st["real"] = 0
                    self.pairs[(i, j)] = st

    def drained(self, i, j):
        ps = self.net.peer_state(i, j)
        return sum(len(x) for x in ps["st"]) == 0 and delivered_all(self.net, i, j, self.m0[i])

    def out_iter(self, i):
        net = self.net
        nd = net.nodes[i]
        self.iter_no[i] += 1
        it = self.iter_no[i]
        qe = len(net.queue_notes(i)) == 0
        reads, tab = {}, {}
        for j in range(net.n):
            if j == i:
                continue

            def rd_lc(j=j):
                reads[("lc", j)] = net.dev(i, j).last_comms

            def rd_la(j=j):
                d = net.dev(i, j)
                reads[("la", j)] = (d.last_attempt, d.size_stash())
            tab[("lc", j)] = rd_lc
            tab[("la", j)] = rd_la
        w0 = len(net.wire)
        t_before = net.clock.cur
        net.out_iter(i, tab)
        now = nd.iter_now
        if net.clock.cur < t_before or now < self.clock0:
            self.fails.append(("heal-premise-clock-stepped-back", "the clock stepped back during the healing phase"))
        resets = set()
        for w in net.wire[w0:]:
            if w["kind"] == "refused" and w["src"] == i:
                self.pairs[(i, w["dst"])]["premise"] = False
            elif w["kind"] == "msg" and w["src"] == i and not w.get("sender_ok", True):
                self.pairs[(i, w["dst"])]["premise"] = False
            elif w["kind"] == "msg" and w["dst"] == i and (w["flags"] & 1) and w["err"] is None:
                resets.add(w["src"])
        for j in range(net.n):
            if j == i:
                continue
            st = self.pairs[(i, j)]
            st["r"] = max(st["r"] - 1, 0)
            due = False
            if ("lc", j) in reads and ("la", j) in reads:
                lcv = reads[("lc", j)]
                la, sz = reads[("la", j)]
                if _reached(_CONV[0], now - lcv, self.pr):
                    due = _reached(_CONV[1], now - la, self.ar)
                else:
                    due = (not qe) or sz == 0 or _reached(_CONV[4], now - la, self.ast)
            if due:
                st["due_iters"] += 1
            if st["real"] is None and self.drained(i, j):
                st["real"] = it
            if st["premise"] and not st["d"] and st["r"] == 0 and due:
                # the theorem's bound: by the end of THIS iteration everything reported before the healing point
                # has been delivered to j and j's backlog is empty
                st["d"], st["bound"] = True, it
                if st["real"] is None:
                    ps = net.peer_state(i, j)
                    self.fails.append((
                        "heal-bound-exceeded",
                        "links healed, queue length at the healing point %d, iteration %d of instance %d decided for "
                        "instance %d with the retry intervals elapsed: the theorem's bound is reached, but %s"
                        % (st["L"], it, i, j,
                           "the backlog still holds %r" % (ps["st"],) if sum(len(x) for x in ps["st"]) else
                           "a change reported before the healing point has not been delivered")))
                if j not in resets:
                    lc_now = net.dev(i, j).last_comms
                    if _reached(_CONV[0], now - lc_now, self.pr):
                        self.fails.append((
                            "heal-peer-still-owed-resync",
                            "iteration %d of instance %d (clock %d) decided for instance %d with the retry intervals elapsed and "
                            "every send delivered, yet last_comms is %d: the peer is still in the RESYNC period"
                            % (it, i, now, j, lc_now)))

    def receiver_violations(self):
        """conclusion of C06_heal_receiver_general on the real deciders, for the pairs whose bound was reached and whose
        receiver has applied everything that was delivered to it"""
        out = []
        net = self.net
        for (i, j), st in self.pairs.items():
            if not st["d"]:
                continue
            rcv = net.nodes[j]
            if incoming_len(rcv) != 0:
                continue
            cc, ch, _ = rcv.real_snapshot()
            idc, idh = set(r.run_id for r in cc), set(r.run_id for r in ch)
            act = {r.run_id: (r.block_index, r.history().size()) for r in rcv.engine.decider.all_runs()}
            for t in range(self.m0[i]):
                c, h, u = net.nodes[i].emitted[t]
                bad = [("completed", k) for k in c if k[0] not in idc]
                bad += [("halted", k) for k in h if k[0] not in idc and k[0] not in idh]
                bad += [("updated", k) for k in u if k[0] not in idc and k[0] not in idh
                        and (k[0] not in act or act[k[0]] < (k[1], k[2]))]
                if bad:
                    out.append(("heal-receiver-behind",
                                "after healing (bound reached at iteration %d) instance %d does not hold what instance %d "
                                "reported before the healing point: %s run %r" % (st["bound"], j, i, bad[0][0], bad[0][1])))
                    break
        return out

    def stats(self):
        b = [st for st in self.pairs.values() if st["bound"] is not None]
        return dict(pairs=len(self.pairs), bound_reached=len(b),
                    premise_violated=sum(1 for st in self.pairs.values() if not st["premise"]),
                    slack=[st["bound"] - st["real"] for st in b if st["real"] is not None],
                    late=sum(1 for st in b if st["real"] is None or st["real"] > st["bound"]),
                    max_bound=max([st["bound"] for st in b] or [0]),
                    queue_at_heal=max([st["L"] for st in self.pairs.values()] or [0]))


def applied_all_violations(net):
    """premise applied_all of C06_heal_receiver: every SYNC / RESYNC that names a run and reached the socket layer has
    been handed to the receiver's decider (compared as multisets of payloads per receiver)"""
    out = []
    for j, nd in enumerate(net.nodes):
        if incoming_len(nd) != 0:
            continue
        got = {}
        for ap in nd.applied:
            k = (tuple(ap["want"]["c"]), tuple(ap["want"]["h"]), tuple(ap["want"]["u"]))
            got[k] = got.get(k, 0) + 1
        want = {}
        for w in net.wire:
            if w["kind"] == "msg" and w["dst"] == j and w["dst_gen"] == nd.gen and w["err"] is None \
                    and w["type"] in (SN.SYNC, SN.RESYNC) and (w["c"] or w["h"] or w["u"]):
                k = (tuple(x[0] for x in w["c"]), tuple(x[0] for x in w["h"]), tuple(w["u"]))
                want[k] = want.get(k, 0) + 1
        for k, cnt in want.items():
            if got.get(k, 0) < cnt:
                out.append(("delivered-message-not-applied",
                            "instance %d received a message (completed %r, halted %r, updated %r) %d time(s) and applied it %d time(s)"
                            % (j, list(k[0]), list(k[1]), list(k[2]), cnt, got.get(k, 0))))
                break
    return out


def wiring_violations(net):
    """premise sender_wired of C06_heal_receiver_wired: the payload of every RESYNC is what decider.snapshot() returned at a
    moment when exactly `seen` notes had been reported"""
    for w in net.wire:
        if w["kind"] != "msg" or w["type"] != SN.RESYNC:
            continue
        nd = net.nodes[w["src"]]
        if w["src_gen"] != nd.gen or not hasattr(nd, "snaps"):
            continue
        pay = (tuple(w["c"]), tuple(w["h"]), tuple(w["u"]))
        if (w["seen"], pay) not in nd.snaps:
            return [("resync-payload-is-not-the-snapshot",
                     "the RESYNC instance %d sent to %d at %d does not carry what decider.snapshot() returned after %d notes"
                     % (w["src"], w["dst"], w["t"], w["seen"]))]
    return []


def snapshot_cover_violations(net):
    """premise snapshots_cover of C06_heal_receiver: a RESYNC payload is at least as advanced as every note its sender
    reported before the snapshot was taken"""
    out = []
    for w in net.wire:
        if w["kind"] != "msg" or w["type"] != SN.RESYNC:
            continue
        nd = net.nodes[w["src"]]
        if w["src_gen"] != nd.gen:
            continue
        idc, idh = set(k[0] for k in w["c"]), set(k[0] for k in w["h"])
        act = {}
        for k in w["u"]:
            act[k[0]] = max(act.get(k[0], (-1, -1)), (k[1], k[2]))
        for t in range(min(w["seen"], len(nd.emitted))):
            c, h, u = nd.emitted[t]
            bad = [("completed", k) for k in c if k[0] not in idc]
            bad += [("halted", k) for k in h if k[0] not in idc and k[0] not in idh]
            bad += [("updated", k) for k in u if k[0] not in idc and k[0] not in idh
                    and (k[0] not in act or act[k[0]] < (k[1], k[2]))]
            if bad:
                out.append(("snapshot-behind-earlier-note",
                            "the snapshot instance %d sent to %d at %d does not cover its own earlier report: %s run %r"
                            % (w["src"], w["dst"], w["t"], bad[0][0], bad[0][1])))
                return out
    return out


def heal_and_settle(net, max_rounds=70):
    """all links up; let the protocol run until every stash retry / ping / resync has had its chance"""
    net.heal()
    mon = HealMonitor(net)
    net.heal_monitor = mon
    waited, calm = 0, 0
    for r in range(max_rounds):
        for i in range(net.n):
            mon.out_iter(i)
        for i in range(net.n):
            net.main_update(i)
        same = all(net.runs(k) == net.runs(0) for k in range(net.n))
        if net.quiet() and same:
            calm += 1
            if calm >= 2:
                drain_bounds(net, mon)
                return True
        else:
            calm = 0
        step = 1 if r < 8 else 11
        net.advance(step)
        waited += step
        if waited > 260:
            break
    drain_bounds(net, mon)
    return False


def drain_bounds(net, mon, max_extra=8):
    """keep iterating (clock +11 s per round, beyond every retry interval) until the bound of C06_heal_progress_general
    has been reached for every pair, so that it is compared with the real loop for every pair"""
    for _ in range(max_extra):
        if all(st["d"] or not st["premise"] for st in mon.pairs.values()):
            return
        net.advance(11)
        for i in range(net.n):
            mon.out_iter(i)
        for i in range(net.n):
            net.main_update(i)


def final_violations(net):
    out = []
    tabs = [net.runs(k) for k in range(net.n)]
    if any(t != tabs[0] for t in tabs):
        out.append(("replicas-differ-after-heal", "after healing, instances hold different partial runs: %s" % tabs))
    fin = set()
    for k in range(net.n):
        c, h = net.finished(k)
        fin |= set(c) | set(h)
    # C05 seen from the network: no instance reports a run completed twice (one complex event per run and instance)
    for k, nd in enumerate(net.nodes):
        seen = {}
        for r, _loc in nd.log["completed"]:
            seen[r.run_id] = seen.get(r.run_id, 0) + 1
        for rid, c in seen.items():
            if c > 1:
                out.append(("run-reported-completed-twice", "instance %d reported run %s completed %d times (one complex event each)"
                            % (k, rid, c)))
    for k in range(net.n):
        for rid, idx in tabs[k]:
            if rid in fin:
                out.append(("finished-run-still-active", "run %s is finished somewhere but active at instance %d (block %d)"
                            % (rid, k, idx)))
    return out


def run_scenario(sc, verbose=False):
    net = SN.Net(engine_desc(sc["pat"]), sc["n"], PERIODS, t0=1000, recv_sizes=sc.get("recv"))
    fails = []
    for nd in net.nodes:          # wiring premise (sender_wired): remember what decider.snapshot() returned, and when
        nd.snaps = []

        def snapshot(nd=nd, inner=nd.engine.decider.snapshot):
            r = inner()
            nd.snaps.append((len(nd.emitted), SN.note_key(r[0], r[1], r[2])))
            return r
        nd.engine.decider.snapshot = snapshot
    rounds(net, 2)

    def check(step):
        for i, j, t, nk in knowledge_violations(net):
            fails.append(("note-lost-for-peer",
                          "after step %s: the change %s announced by instance %d is neither delivered to instance %d, "
                          "nor queued, nor in its backlog, and %d is in contact" % (step, list(nk[2]) or list(nk[0]) or list(nk[1]),
                                                                                    i, j, j)))
    for k, a in enumerate(sc["acts"]):
        do(net, a)
        if verbose:
            print("  step %d %r -> runs %s" % (k, a, [net.runs(x) for x in range(net.n)]))
        if not fails:
            check(k)
    settled = heal_and_settle(net)
    if verbose:
        print("  healed (%s): runs %s" % ("quiet" if settled else "NOT quiet", [net.runs(x) for x in range(net.n)]))
    if not fails:
        check("heal")
    fails += final_violations(net)
    # healing half: premises of the theorems of Properties/C06live.v, and their conclusions on the real state
    mon = net.heal_monitor
    fails += mon.fails
    fails += applied_all_violations(net)
    fails += snapshot_cover_violations(net)
    fails += wiring_violations(net)
    fails += mon.receiver_violations()
    for i, j, typ, dec, ok in message_order_violations(net):
        fails.append(("incremental-after-resync-period",
                      "%s from %d to %d decided at %d, last successful contact %d (period_resync %d)" % (typ, i, j, dec, ok, PERIODS[1])))
    for k, nd in enumerate(net.nodes):
        for ap in nd.applied:
            if ap["bad"]:
                fails.append(("message-not-superseding", "instance %d applied a message and does not hold %r" % (k, ap["bad"][0])))
                break
    for w in net.wire:
        if w["kind"] == "msg" and w["err"] is not None:
            fails.append(("receiver-dropped-message", "a delivered message was dropped by the receiver: %s" % w["err"]))
            break
    for (node, _i), err in getattr(net, "out_errors", {}).items():
        fails.insert(0, ("outgoing-loop-died", "instance %d: %s escaped the outgoing iteration on a link failure: its outgoing "
                                               "thread ends and nothing is sent to any peer any more" % (node, err)))
    emitted = sum(len(nd.emitted) for nd in net.nodes)
    msgs = sum(1 for w in net.wire if w["kind"] == "msg")
    kinds = {}
    for w in net.wire:
        if w["kind"] == "msg":
            nm = SN.MODE_NAME[w["type"]]
            kinds[nm] = kinds.get(nm, 0) + 1
    return dict(fails=fails, nontrivial=emitted > 0 and msgs > 0, kinds=kinds, settled=settled,
                runs=[net.runs(k) for k in range(net.n)], wire=len(net.wire), heal=mon.stats())


def sc_size(sc):
    return (len(sc["acts"]), sc["n"], len(json.dumps(sc)))


D9_SCENARIO = dict(pat="abc", n=3, acts=[["in", 0, 1], ["out", 0], ["upd", 1], ["upd", 2], ["outinj", 0, "lc", 2, 2]])


def oracle_scenarios(ctx):
    rng = ctx.rng
    sc = [D9_SCENARIO]
    # every single injection of an input at every yield point, 3 instances
    for pat in ("abc", "loop"):
        for pt in SN.POINTS:
            for dst in (1, 2):
                sc.append(dict(pat=pat, n=3, acts=[["in", 0, 1], ["out", 0], ["upd", 1], ["upd", 2],
                                                   ["outinj", 0, pt, dst, 2]]))
                sc.append(dict(pat=pat, n=3, acts=[["in", 0, 1], ["out", 0], ["upd", 1], ["upd", 2], ["in", 0, 2],
                                                   ["link", 0, 1, "fail"], ["outinj", 0, pt, dst, 3], ["clock", 5]]))
    # a run that starts, advances and completes while the link to a peer keeps failing: the backlog holds several
    # notes incl. the completion and is retried several times before it gets through
    for n in (2, 3):
        for fault in ("down", "fail", "slow"):
            for retries in (1, 2, 3):
                acts = [["link", 0, 1, fault], ["in", 0, 1], ["out", 0], ["in", 0, 2], ["out", 0], ["in", 0, 3], ["out", 0]]
                for _ in range(retries):
                    acts += [["clock", 6], ["out", 0]]
                sc.append(dict(pat="abc", n=n, acts=acts))
                sc.append(dict(pat="two", n=n, acts=acts + [["in", 0, 4], ["out", 0], ["clock", 6], ["out", 0]]))
    # a backlog holding records of ONE kind only (a halt, a completion, progress), then healing with no further input:
    # the backlog has to be retried on its own
    for n in (2, 3):
        for fault in ("down", "fail", "slow"):
            for pat, pre, last in (("strict", [1], 3), ("strict", [1, 2], 1), ("abc", [1, 2], 3), ("abc", [1], 2), ("loop", [1, 2], 2)):
                acts = [["in", 0, d] for d in pre] + [["out", 0]] * len(pre) + [["upd", x] for x in range(1, n)]
                acts += [["link", 0, 1, fault], ["in", 0, last], ["out", 0]]
                for quiet in ([], [["clock", 6], ["out", 0]], [["clock", 31]]):
                    sc.append(dict(pat=pat, n=n, acts=acts + quiet))
    # bounded-exhaustive, 2 instances
    alpha = [["in", 0, 1], ["in", 0, 2], ["in", 1, 2], ["in", 1, 3], ["out", 0], ["out", 1], ["upd", 0], ["upd", 1],
             ["link", 0, 1, "down"], ["link", 0, 1, "fail"], ["link", 1, 0, "down"], ["link", 0, 1, "up"],
             ["clock", 5], ["clock", 31], ["clock", 61]]
    depth = 3 if ctx.quick else 4
    pats2 = ("abc",) if ctx.quick else ("abc", "strict", "loop")
    for pat in pats2:
        for L in range(1, depth + 1):
            for seq in itertools.product(alpha, repeat=L):
                if not any(a[0] == "in" for a in seq):          # pruning: nothing to replicate
                    continue
                if any(seq[k] == seq[k + 1] and seq[k][0] in ("link", "upd") for k in range(L - 1)):
                    continue
                sc.append(dict(pat=pat, n=2, acts=[["in", 0, 1], ["out", 0], ["upd", 1]] + [list(a) for a in seq]))
    # seeded random, 2..3 instances, all patterns, link faults, clock jumps, injected inputs
    for _ in range(1200 if ctx.quick else 40000):
        n = rng.choice((2, 3, 3))
        pat = rng.choice(sorted(PATS))
        hi = 6 if pat == "two" else 3
        acts = []
        for _k in range(rng.randint(4, 18)):
            r = rng.random()
            i = rng.randrange(n)
            if r < 0.28:
                acts.append(["in", i, rng.randint(1, hi)])
            elif r < 0.52:
                acts.append(["out", i])
            elif r < 0.60:
                j = rng.choice([x for x in range(n) if x != i])
                acts.append(["outinj", i, rng.choice(SN.POINTS), j, rng.randint(1, hi)])
            elif r < 0.76:
                acts.append(["upd", i])
            elif r < 0.90:
                j = rng.choice([x for x in range(n) if x != i])
                acts.append(["link", i, j, rng.choice(("down", "down", "fail", "up", "slow"))])
            else:
                acts.append(["clock", rng.choice((1, 5, 10, 31, 61))])
        recv = rng.choice((None, None, [100, 37, 300], [64]))
        sc.append(dict(pat=pat, n=n, acts=acts, recv=recv))
    return sc


def work(sc):
    r = run_scenario(sc)
    return dict(fails=r["fails"][:4], nontrivial=r["nontrivial"], kinds=r["kinds"], settled=r["settled"], heal=r["heal"])


def shrink(sc, sig):
    cur, changed = sc, True
    if cur.get("recv") is not None:
        cand = dict(cur, recv=None)
        if any(s == sig for s, _ in run_scenario(cand)["fails"]):
            cur = cand
    while changed:
        changed = False
        for k in range(len(cur["acts"]) - 1, -1, -1):
            cand = dict(cur, acts=cur["acts"][:k] + cur["acts"][k + 1:])
            if any(s == sig for s, _ in run_scenario(cand)["fails"]):
                cur, changed = cand, True
                break
    return cur


# ================================================================== entry points
def run(ctx, res):
    rng = ctx.rng
    # ---- what the code does at the thresholds and in which order it takes the queue item
    conv, notes = pC15.infer_conv()
    fixed = ydriver(PERIODS, 2).probe_order()
    res.extra["threshold_convention_inferred"] = notes
    res.extra["order_inferred"] = ("queue item taken once inside the locked decision (repaired order: C06_knowledge_inv applies)"
                                   if fixed else
                                   "Queue.empty() read per peer, item taken at the first SYNC (pinned order: C06_lost_note_refuted applies)")

    # ---- correspondence
    cases = list(CORPUS) + list(grid_cases(ctx.quick))
    for _ in range(1500 if ctx.quick else 30000):
        cases.append(random_case(rng))
    coq_cases, died_fails = [], []
    for case in cases:
        enc, trace = run_impl(case)
        coq_cases.append((coq_input(case, conv, fixed), enc))
        if trace and trace[-1].get("died"):
            died_fails.append(dict(signature="outgoing-loop-died",
                                     what="a scripted link failure let %s escape the outgoing iteration: the outgoing thread ends, "
                                          "nothing queued or backlogged is ever sent again" % trace[-1]["died"],
                                     case=dict(case, acts=case["acts"][:len(trace)]), detail=None))
        fired = sum(len(s["fired"]) for s in trace)
        res.count("corr_peers_%d" % len(case["peers"]))
        res.count("corr_injections_fired", fired)
        for s in trace:
            for pt, _k in s["fired"]:
                res.count("corr_inj_at_%s" % pt)
        res.note_case(json.dumps(case, sort_keys=True), any(s["recs"] for s in trace))
    mism, errs = common.coq_run_cases(gen_tag("C06"), "Model.Outgoing Model.Replication", "run_C06",
                                      "(bool * tcfg * (list peer * list note) * list top)", coq_cases, shard=250)
    res.errors += errs
    res.traces_validated = len(coq_cases) - len(mism)
    mism.sort(key=lambda m: len(json.dumps(cases[m[0]])))
    for idx, model_out in mism[:10]:
        res.mismatches.append(dict(case=cases[idx], impl=coq_cases[idx][1], model=model_out,
                                   convention=notes, fixed_order=fixed))
    if len(mism) > 10:
        res.mismatches += [dict(case=cases[i], impl=None, model=None) for i, _ in mism[10:]]

    # ---- oracle
    global _CONV
    _CONV = tuple(conv)
    scen = oracle_scenarios(ctx)
    results = pmap(work, scen, chunksize=8)
    fails = []
    heal = dict(pairs=0, bound_reached=0, premise_violated=0, late=0, max_bound=0, queue_at_heal=0, slack={})
    for sc, r in zip(scen, results):
        h = r["heal"]
        for k in ("pairs", "bound_reached", "premise_violated", "late"):
            heal[k] += h[k]
        heal["max_bound"] = max(heal["max_bound"], h["max_bound"])
        heal["queue_at_heal"] = max(heal["queue_at_heal"], h["queue_at_heal"])
        for x in h["slack"]:
            heal["slack"][str(x)] = heal["slack"].get(str(x), 0) + 1
        res.note_case(("or", json.dumps(sc, sort_keys=True)), r["nontrivial"])
        res.count("oracle_instances_%d" % sc["n"])
        res.count("oracle_settled" if r["settled"] else "oracle_not_settled")
        for k, v in r["kinds"].items():
            res.count("oracle_msg_%s" % k, v)
        for a in sc["acts"]:
            res.count("oracle_act_%s" % a[0])
        for sig, what in r["fails"]:
            fails.append(dict(signature=sig, what=what, case=sc, detail=None))
    fails.sort(key=lambda f: sc_size(f["case"]))
    res.extra["oracle_scenarios"] = len(scen)
    res.extra["healing_phase"] = dict(
        heal, note="per ordered pair (sender, peer) of every scenario's healing phase: heal_ok checked on every send "
                   "(premise_violated), due_at evaluated at every decision, track run as in Model/ReplicationLive.v; "
                   "bound_reached = pairs for which d became true; slack = (iteration at which the theorem promises "
                   "delivery) - (iteration after which the real loop had delivered everything and emptied the backlog), "
                   "never negative; late = pairs for which the real loop needed more than the bound (each is a failure)")
    res.count("heal_pairs", heal["pairs"])
    res.count("heal_bound_reached", heal["bound_reached"])
    res.count("heal_premise_violated", heal["premise_violated"])
    res.extra["oracle_failures_total"] = len(fails)
    kept, seen = [], set()
    for f in fails:
        if f["signature"] in seen:
            continue
        seen.add(f["signature"])
        small = shrink(f["case"], f["signature"])
        what = [w for s, w in run_scenario(small)["fails"] if s == f["signature"]]
        kept.append(dict(f, case=small, what=what[0] if what else f["what"]))
    died_fails.sort(key=lambda f: len(json.dumps(f["case"])))
    res.failures = died_fails[:1] + sorted(kept, key=lambda f: sc_size(f["case"]))
    res.samples = [dict(correspondence_case=cases[0], impl=coq_cases[0][1]),
                   dict(oracle_scenario=scen[0], result=run_scenario(scen[0])["runs"])]
    res.exhaustive = True
    res.extra["exhaustive_scope"] = (
        "correspondence: %d grid cases (every yield point x peer x {enqueue, incoming RESET from each peer, incoming "
        "without RESET} x 5 peer states^(1..2) x queue x outcomes); oracle: every sequence up to depth %d over a "
        "15-letter alphabet (2 instances) after a common prefix, every single input injection at every yield point "
        "(3 instances); plus seeded random" % (len(cases) - len(CORPUS) - (1500 if ctx.quick else 30000), 3 if ctx.quick else 4))


def replay(obj):
    case = obj.get("case")
    if not case and obj.get("mismatches"):
        case = obj["mismatches"][0].get("case")
    if not case:
        print(json.dumps(obj, indent=1)[:3000])
        return 1 if obj.get("kind") == "unchecked" else 0
    if "pat" in case:
        global _CONV
        _CONV = tuple(pC15.infer_conv()[0])
        print("scenario: %d instances, pattern %r (blocks accept data 1, 2, 3 in turn), periods %r" % (case["n"], case["pat"], PERIODS))
        print("prefix  : two rounds of (outgoing iteration everywhere, main update everywhere)")
        r = run_scenario(case, verbose=True)
        for sig, what in r["fails"]:
            print("PROPERTY FAILS [%s] %s" % (sig, what))
        if not r["fails"]:
            print("after healing all instances hold the same partial runs; nothing lost, stale or resurrected")
        return 1 if r["fails"] else 0
    conv, notes = pC15.infer_conv()
    fixed = ydriver(PERIODS, 2).probe_order()
    print("threshold convention of the code:", "; ".join(notes))
    print("order of the code:", "repaired (item taken inside the decision)" if fixed else "pinned (item taken at the first SYNC)")
    enc, trace = run_impl(case)
    for k, s in enumerate(trace):
        print("step %d %r" % (k, s["act"]))
        if s.get("died"):
            print("    PROPERTY FAILS [outgoing-loop-died] %s escaped the outgoing iteration" % s["died"])
            return 1
        if s["points"]:
            print("    yield points passed: %s ; injections fired at: %s" % (s["points"], s["fired"]))
        for r in s["recs"]:
            if r["kind"] == "msg":
                print("    -> peer %d: %s flags=%d completed=%r halted=%r updated=%r" % (
                    r["peer"], SN.MODE_NAME.get(r["type"], r["type"]), r["flags"], r["c"], r["h"], r["u"]))
        print("    after: queue=%d %s" % (s["post"]["queue"], s["post"]["peers"]))
    model, out = common.coq_eval("C06", "Model.Outgoing Model.Replication", "run_C06 %s" % coq_input(case, conv, fixed))
    print("implementation:", enc)
    print("model         :", model if model is not None else out[-1500:])
    if model != enc:
        print("model and implementation differ")
        return 1
    print("model and implementation agree")
    return 0
