"""C20 Every action execution is reported once, with its own outcome."""
import itertools
import logging
import threading
import time

import common
from common import zz, cbool, clist, cnat

from bobocep import BoboError
from bobocep.cep.action.action import BoboAction
from bobocep.cep.action.common.multi import BoboActionMultiSequential
from bobocep.cep.action.handler import (BoboActionHandlerBlocking, BoboActionHandlerMultithreading,
                                        BoboActionHandlerMultiprocessing, BoboActionHandlerError)
from bobocep.cep.engine.forwarder.forwarder import BoboForwarder
from bobocep.cep.engine.forwarder.pubsub import BoboForwarderSubscriber
from bobocep.cep.event import BoboEventComplex, BoboEventAction, BoboHistory
from bobocep.cep.gen.event_id import BoboGenEventID
from bobocep.cep.gen.timestamp import BoboGenTimestamp
from bobocep.cep.phenom.phenom import BoboPhenomenon

PROP = "C20"
PROPERTY_FILES = ["Properties/C20.v", "Properties/C20tree.v"]
META = dict(
    level_text="Theorems (Coq, closed under the global context): for outcome lists of ANY length the sequential "
               "multi-action's flag is true iff every executed sub-action succeeded, its report is the outcomes of "
               "exactly the executed sub-actions in order (all of them without stop-on-fail, the prefix up to and "
               "including the first failure with it), nothing runs after a failure with stop-on-fail; the same for sub-actions that are "
               "themselves multi-actions (Properties/C20tree.v: one reported entry - its own (success, data) - per executed "
               "sub-action, none of the leaves of a sub-action after the first failure runs, leaves-only trees agree "
               "with the flat model, inlining nested multi-actions refuted); for each handler "
               "kind, every queue bound and every sequence of handle / worker completion (any completion order) / "
               "get_handler_response, responses of accepted jobs = in-flight + queued + delivered as multisets, each "
               "response carries its own job's name, complex event, success and data, delivered is a permutation of "
               "accepted at quiescence, the blocking handler delivers in submission order; the forwarder turns every "
               "response into exactly one action event with the response's name/success/data and the complex event's "
               "phenomenon/pattern. Tie to the code: the model is evaluated in Coq against the real "
               "BoboActionMultiSequential (all outcome vectors up to the tier's length, both flags), the real blocking "
               "handler (all handle/get sequences up to the tier's length, bounded queues), the real thread pool "
               "(completion order chosen by the harness through gates, and timed batches on 1..8 workers) and process "
               "pool (timed batches), and the real BoboForwarder on each handler; an independent oracle pairs "
               "responses with requests by complex-event id on the implementation alone.",
    level_note="PARTIAL with respect to the running system: which worker finishes when, and the pickling of action, "
               "event and response between processes, are modelled by a completion-order oracle (Complete k), not "
               "verified; for timed batches the oracle input is inferred from the observed response order. The "
               "theorems cover every completion order. Actions that raise are outside the property as stated (pool "
               "handlers then emit no response; counted informationally, never failing).",
    rule="multi: every success/failure vector for 1..L sub-actions x stop flag with distinct data, plus random long "
         "vectors; multi-action TREES (sub-actions that are multi-actions again: all outcome vectors and policy pairs "
         "of two nested shapes + random trees of depth <= 3) against Model/ActionTree.v and an independent reference; blocking handler: every handle/get sequence up to length L (unbounded queue) and random ones with "
         "queue bounds 1..3; thread pool: gated op sequences (harness picks which running job finishes) with bounds "
         "0..2, timed batches of 1..N jobs with distinct outcomes and durations on 1..8 workers; process pool: timed "
         "batches; forwarder on each handler. non-trivial = a failing sub-action is present (multi) / "
         "two or more jobs with a get between two handles or a refused handle (blocking ops) / two or more worker "
         "completions (gated) / two or more jobs (timed batches, forwarder)",
    trusted_base=["harness: actions are small BoboAction subclasses (table lookup by complex-event id, optional "
                  "sleep or gate); names/ids mapped to integer codes by their numeric suffix",
                  "completion order of pool workers is an oracle input (inferred from the observed order for timed "
                  "batches, imposed through threading.Event gates for gated thread-pool cases)",
                  "Queue / multiprocessing.Manager().Queue are FIFO and lose nothing; pickling is faithful"],
    assumptions=["actions return normally (a raising action yields no response in pool handlers: outside C20)",
                 "the pool worker queue is unbounded (Queue() / Manager().Queue()), so a finished job is always enqueued",
                 "handle(), get_handler_response() are serialised by the handler's RLock (one op at a time)"])

BAD = -7777     # code for "not the string/value shape the harness handed in"


# ----------------------------------------------------------------------------------------------
# actions (top level: the process pool pickles them by reference)
class RecAction(BoboAction):
    """Sub-action of a multi action: records that it ran, returns its scripted outcome."""

    def __init__(self, name, idx, outcome, log):
        super().__init__(name)
        self.idx, self.outcome, self.log = idx, outcome, log

    def execute(self, event):
        self.log.append(self.idx)
        return self.outcome


class TabAction(BoboAction):
    """Outcome and duration looked up by complex-event id.  Picklable."""

    def __init__(self, name, table):
        super().__init__(name)
        self.table = table          # event_id -> (success, data, seconds)

    def execute(self, event):
        s, d, dur = self.table[event.event_id]
        if dur:
            time.sleep(dur)
        return s, d


class GateAction(BoboAction):
    """Thread pool only: blocks until the harness opens the job's gate."""

    def __init__(self, name, table, gates):
        super().__init__(name)
        self.table, self.gates = table, gates

    def execute(self, event):
        self.gates[event.event_id].wait(20)
        s, d, _ = self.table[event.event_id]
        return s, d


class RaisingAction(BoboAction):
    def execute(self, event):
        raise RuntimeError("scripted failure")


class Recorder(BoboForwarderSubscriber):
    def __init__(self):
        super().__init__()
        self.events = []

    def on_forwarder_update(self, event):
        self.events.append(event)


class CountID(BoboGenEventID):
    def __init__(self):
        super().__init__()
        self.n = 0

    def generate(self):
        self.n += 1
        return "x%d" % self.n


class CountTS(BoboGenTimestamp):
    def __init__(self):
        super().__init__()
        self.n = 1000

    def generate(self):
        self.n += 1
        return self.n


# ----------------------------------------------------------------------------------------------
# codes
def code(s, prefix):
    if isinstance(s, str) and s.startswith(prefix) and s[len(prefix):].isdigit():
        return int(s[len(prefix):])
    return BAD


def flag(b):
    return 1 if b is True else 0 if b is False else 2


def ival(d):
    return d if type(d) is int else BAD


# what a complex event carries is up to the phenomenon's datagen (`Any`): not necessarily JSON, always picklable here
import datetime as _dt
PAYLOADS = [None, 5, {"k": [1, 2]}, {1, 2, 3}, b"\x01\x02", _dt.datetime(2024, 1, 2, 3, 4, 5), (1, (2, 3)), frozenset("ab"),
            float("nan"), "text", _dt.timedelta(seconds=3), complex(1, 2)]


def mk_event(eid, phen, patt):
    return BoboEventComplex(event_id="e%d" % eid, timestamp=eid, data=PAYLOADS[eid % len(PAYLOADS)],
                            phenomenon_name="ph%d" % phen, pattern_name="pt%d" % patt,
                            history=BoboHistory({}))


def job(name, eid, phen, patt, succ, data, dur=0.0):
    return dict(name=name, eid=eid, phen=phen, patt=patt, succ=bool(succ), data=data, dur=dur)


def enc_resp(r):
    ce = getattr(r, "complex_event", None)
    return [code(getattr(r, "action_name", None), "a"), code(getattr(ce, "event_id", None), "e"),
            code(getattr(ce, "phenomenon_name", None), "ph"), code(getattr(ce, "pattern_name", None), "pt"),
            flag(getattr(r, "success", None)), ival(getattr(r, "data", None))]


def enc_aevent(e):
    return [code(e.action_name, "a"), flag(e.success), ival(e.data),
            code(e.phenomenon_name, "ph"), code(e.pattern_name, "pt")]


def resp_eid(r):
    return code(getattr(getattr(r, "complex_event", None), "event_id", None), "e")


# Coq terms
def c_ce(j):
    return "(mkCE %s %s %s)" % (zz(j["eid"]), zz(j["phen"]), zz(j["patt"]))


def c_job(j):
    return "(mkJob %s %s %s %s)" % (zz(j["name"]), c_ce(j), cbool(j["succ"]), zz(j["data"]))


def c_hop(op):
    if op[0] == "H":
        return "Handle %s" % c_job(op[1])
    if op[0] == "C":
        return "Complete %s" % cnat(op[1])
    return "Get"


def c_fop(op):
    if op[0] == "P":
        return "Produce %s %s" % (c_ce(op[1]), cbool(op[2]))
    if op[0] == "U":
        return "FUpdate %s" % clist([cnat(k) for k in op[1]])
    return "FComplete %s" % cnat(op[1])


def c_outs(outs):
    return clist(["(%s, %s)" % (cbool(s), zz(d)) for s, d in outs])


HANDLER_T = "(Z * Z * list hop * list hop)"
FWD_T = "((Z * Z * Z * bool) * list (Z * option (Z * list (Z * (bool * Z)))) * list fop * list fop)"
MULTI_T = "(bool * list (bool * Z))"


def c_handler_input(kind, max_size, ops, extra):
    return "(%d, %s, %s, %s)" % (0 if kind == "blocking" else 1, zz(max_size),
                                 clist([c_hop(o) for o in ops]), clist([c_hop(o) for o in extra]))


def c_fwd_input(kind, hmax, fmax, local_only, phen, ops, extra):
    ps = []
    for name, act in phen:
        if act is None:
            ps.append("(%s, None)" % zz(name))
        else:
            tab = clist(["(%s, (%s, %s))" % (zz(e), cbool(s), zz(d)) for e, (s, d) in sorted(act[1].items())])
            ps.append("(%s, Some (%s, %s))" % (zz(name), zz(act[0]), tab))
    return "((%d, %s, %s, %s), %s, %s, %s)" % (0 if kind == "blocking" else 1, zz(hmax), zz(fmax),
                                               cbool(local_only), clist(ps),
                                               clist([c_fop(o) for o in ops]), clist([c_fop(o) for o in extra]))


# ----------------------------------------------------------------------------------------------
# handlers
def make_handler(kind, workers, max_size):
    if kind == "blocking":
        return BoboActionHandlerBlocking(max_size=max_size)
    if kind == "thread":
        return BoboActionHandlerMultithreading(threads=workers, max_size=max_size)
    return BoboActionHandlerMultiprocessing(processes=workers, max_size=max_size)


def close_handler(h):
    try:
        h.close()
    except Exception:
        pass
    pool = getattr(h, "_pool", None)
    if pool is not None:
        try:
            pool.terminate()
            pool.join()
        except Exception:
            pass
    mgr = getattr(h, "_manager", None)
    if mgr is not None:
        try:
            mgr.shutdown()
        except Exception:
            pass


SLOW = dict(budget=15.0)     # total seconds the whole run may spend waiting for responses that never come


def wait_until(pred, limit):
    """Poll pred() until true or the limit / the global slow budget is used up."""
    t0 = time.time()
    limit = min(limit, max(0.1, SLOW["budget"]))
    while True:
        if pred():
            return True
        if time.time() - t0 > limit:
            SLOW["budget"] -= time.time() - t0
            return False
        time.sleep(0.001)


# ----------------------------------------------------------------------------------------------
# multi action
def impl_multi(stop, outs):
    log = []
    subs = [RecAction("s%d" % i, i, (s, d), log) for i, (s, d) in enumerate(outs)]
    m = BoboActionMultiSequential("m", subs, stop)
    ret = m.execute(mk_event(1, 7, 17))
    return ret, log


def enc_multi(ret, log):
    ok, data = ret
    out = [flag(ok), len(data)]
    for o in data:
        out += [flag(o[0]), ival(o[1])] if isinstance(o, tuple) and len(o) == 2 else [BAD, BAD]
    return out + [len(log)] + [ival(i) for i in log]


# multi-actions whose sub-actions are multi-actions again.  tree: ["leaf", ok, data] | ["multi", stop, [tree...]]
def build_tree(t, log, counter, memo=None):
    """memo (shared instances): leaves with the same outcome are ONE action object, listed several times"""
    if t[0] == "leaf":
        i = counter[0]
        counter[0] += 1
        if memo is not None:
            if (t[1], t[2]) not in memo:
                memo[(t[1], t[2])] = RecAction("s%d" % i, i, (t[1], t[2]), log)
            return memo[(t[1], t[2])]
        return RecAction("s%d" % i, i, (t[1], t[2]), log)
    return BoboActionMultiSequential("m%d" % len(log), [build_tree(x, log, counter, memo) for x in t[2]], t[1])


def impl_tree(t, shared=False):
    log = []
    ret = build_tree(t, log, [0], {} if shared else None).execute(mk_event(1, 7, 17))
    return ret, log


def canon_ids(t, counter, memo, out):
    """position -> index logged by the (shared) instance standing at that position"""
    if t[0] == "leaf":
        i = counter[0]
        counter[0] += 1
        out[i] = memo.setdefault((t[1], t[2]), i)
    else:
        for x in t[2]:
            canon_ids(x, counter, memo, out)
    return out


def ref_tree(t, counter):
    """the documented semantics, independent of the model: (success, data, leaves executed)"""
    if t[0] == "leaf":
        i = counter[0]
        counter[0] += 1
        return t[1], t[2], [i]
    ok, data, log, stopped = True, [], [], False
    for x in t[2]:
        if stopped:
            skip_leaves(x, counter)
            continue
        o, d, lg = ref_tree(x, counter)
        data.append((o, d))
        log += lg
        if not o:
            ok = False
            stopped = bool(t[1])
    return ok, data, log


def skip_leaves(t, counter):
    if t[0] == "leaf":
        counter[0] += 1
    else:
        for x in t[2]:
            skip_leaves(x, counter)


def enc_rdata(d):
    if isinstance(d, list):
        out = [1, len(d)]
        for o in d:
            out += ([flag(o[0])] + enc_rdata(o[1])) if isinstance(o, tuple) and len(o) == 2 else [BAD, BAD]
        return out
    return [0, ival(d)]


def enc_tree(ret, log):
    ok, data = ret
    return [flag(ok)] + enc_rdata(data) + [len(log)] + [ival(i) for i in log]


def c_tree(t, counter, ids=None):
    if t[0] == "leaf":
        i = counter[0]
        counter[0] += 1
        return "(ALeaf %d%%nat %s %s)" % (i if ids is None else ids[i], cbool(t[1]), zz(t[2]))
    return "(AMulti %s %s)" % (cbool(t[1]), clist([c_tree(x, counter, ids) for x in t[2]]))


def oracle_tree(t, ret, log, shared=False):
    ok, data, lg = ref_tree(t, [0])
    if shared:
        ids = canon_ids(t, [0], {}, {})
        lg = [ids[i] for i in lg]
    fails = []
    if list(log) != lg:
        fails.append(("multi-nested-executed-set", "executed leaves %s, documented %s" % (log, lg)))
    if ret != (ok, data):
        fails.append(("multi-nested-report", "returned %r, documented %r (one entry per executed sub-action, a nested "
                                             "multi-action being ONE sub-action)" % (ret, (ok, data))))
    return fails


def rand_tree(rng, depth, top=True):
    if not top and (depth == 0 or rng.random() < 0.55):
        return ["leaf", rng.random() < 0.7, rng.randint(-9, 99)]
    return ["multi", rng.random() < 0.5, [rand_tree(rng, depth - 1, False) for _ in range(rng.randint(1, 3))]]


def tree_cases(rng, q):
    out = []
    # leaf, multi of two leaves, leaf: every outcome vector and policy pair; and two levels of nesting
    for bits in itertools.product((True, False), repeat=4):
        for so, si in itertools.product((True, False), repeat=2):
            lv = [["leaf", b, 10 + i] for i, b in enumerate(bits)]
            out.append(["multi", so, [lv[0], ["multi", si, [lv[1], lv[2]]], lv[3]]])
            out.append(["multi", so, [["multi", si, [lv[0], ["multi", not si, [lv[1], lv[2]]]]], lv[3]]])
    for _ in range(300 if q else 5000):
        out.append(rand_tree(rng, 3))
    return out


def shared_tree_cases(rng, q):
    """few distinct outcomes, so that the same instance stands at several positions"""
    out = []
    for stop in (True, False):
        for n in (2, 3, 4):
            for vec in itertools.product(((True, 1), (False, 2), (True, 3)), repeat=n):
                out.append(["multi", stop, [["leaf", o, d] for o, d in vec]])
    def rt(depth, top=True):
        if not top and (depth == 0 or rng.random() < 0.6):
            return ["leaf"] + list(rng.choice(((True, 1), (False, 2), (True, 3), (False, 4))))
        return ["multi", rng.random() < 0.5, [rt(depth - 1, False) for _ in range(rng.randint(1, 4))]]
    for _ in range(150 if q else 2500):
        out.append(rt(3))
    return out


def oracle_multi(stop, outs, ret, log):
    """The property, on the implementation alone."""
    fails = []
    n = len(outs)
    first_fail = next((i for i, (s, _) in enumerate(outs) if not s), None)
    if stop and first_fail is not None and any(i > first_fail for i in log):
        fails.append(("multi-executed-after-failure", "stop_on_fail: a sub-action after the first failure was executed"))
    want = list(range(n)) if (not stop or first_fail is None) else list(range(first_fail + 1))
    if not fails and log != want:
        fails.append(("multi-executed-set", "executed sub-actions %s, expected %s" % (log, want)))
    ok, data = ret
    valid = [i for i in log if isinstance(i, int) and 0 <= i < n]
    if list(data) != [outs[i] for i in valid]:
        fails.append(("multi-report-mismatch", "reported list is not the outcomes of the executed sub-actions in order"))
    if ok is not all(outs[i][0] for i in valid):
        fails.append(("multi-success-flag", "success flag %r but executed sub-actions %s" %
                      (ok, "all succeeded" if all(outs[i][0] for i in valid) else "include a failure")))
    return fails


def multi_vectors(maxlen, rng):
    for n in range(1, maxlen + 1):
        for bits in itertools.product((True, False), repeat=n):
            for stop in (False, True):
                data = rng.sample(range(-5, 40), n)
                yield stop, list(zip(bits, data))


# ----------------------------------------------------------------------------------------------
# handler driven op by op (blocking: H/G; thread pool: H/C/G through gates)
def run_handler_ops(kind, workers, max_size, ops):
    """-> (encoded observations, accepted jobs, responses in delivery order, extra model ops, lost)"""
    h = make_handler(kind, workers, max_size)
    gates, out, accepted, delivered, inflight, lost = {}, [], [], [], [], 0
    try:
        for op in ops:
            if op[0] == "H":
                j = op[1]
                ev = mk_event(j["eid"], j["phen"], j["patt"])
                tab = {ev.event_id: (j["succ"], j["data"], 0)}
                if kind == "blocking":
                    act = TabAction("a%d" % j["name"], tab)
                else:
                    gates[ev.event_id] = threading.Event()
                    act = GateAction("a%d" % j["name"], tab, gates)
                try:
                    h.handle(act, ev)
                    out.append(1)
                    accepted.append(j)
                    if kind != "blocking":
                        inflight.append(j)
                except BoboActionHandlerError:
                    out.append(2)
            elif op[0] == "C":
                if kind != "blocking" and op[1] < len(inflight):
                    j = inflight.pop(op[1])
                    before = h.size()
                    gates["e%d" % j["eid"]].set()
                    if not wait_until(lambda: h.size() > before, 5.0):
                        lost += 1
            else:
                r = h.get_handler_response()
                if r is None:
                    out.append(0)
                else:
                    delivered.append(r)
                    out += [3] + enc_resp(r)
        # to quiescence: finish what is in flight, oldest first, then drain
        extra = []
        while inflight:
            j = inflight.pop(0)
            before = h.size()
            gates["e%d" % j["eid"]].set()
            extra.append(("C", 0))
            if not wait_until(lambda: h.size() > before, 5.0):
                lost += 1
        n = 0
        while n < len(accepted) + 3:
            r = h.get_handler_response()
            n += 1
            if r is None:
                break
            delivered.append(r)
        extra += [("G",)] * (len(accepted) + 3)
        out += [-1, lost, h.size(), len(delivered)]
        for r in delivered:
            out += enc_resp(r)
        return out, accepted, delivered, extra, lost
    finally:
        for g in gates.values():
            g.set()
        close_handler(h)


# timed batch on a pool: submit everything, drain with bounded waiting, infer the completion order
def run_pool_batch(kind, workers, jobs, limit):
    h = make_handler(kind, workers, 0)
    try:
        table = {"e%d" % j["eid"]: (j["succ"], j["data"], j["dur"]) for j in jobs}
        acts = {}
        out, observed = [], []
        for j in jobs:
            act = acts.setdefault(j["name"], TabAction("a%d" % j["name"], table))
            h.handle(act, mk_event(j["eid"], j["phen"], j["patt"]))
            out.append(1)
        want = {j["eid"] for j in jobs}

        def poll():
            r = h.get_handler_response()
            if r is not None:
                observed.append(r)
            return want <= {resp_eid(x) for x in observed} or len(observed) > 3 * len(jobs) + 5
        complete = wait_until(poll, limit)
        # short grace period: anything beyond one response per job would show up now
        t0 = time.time()
        while time.time() - t0 < (0.03 if kind == "thread" else 0.08) and len(observed) <= 3 * len(jobs) + 5:
            r = h.get_handler_response()
            if r is not None:
                observed.append(r)
            else:
                time.sleep(0.002)
        # the model's run: Handle*, then per observed response [Complete k; Get] (k inferred)
        ops = [("H", j) for j in jobs]
        inflight = [j["eid"] for j in jobs]
        for r in observed:
            e = resp_eid(r)
            if e in inflight:
                ops.append(("C", inflight.index(e)))
                inflight.remove(e)
            ops.append(("G",))
            out += [3] + enc_resp(r)
        extra = [("C", 0)] * len(inflight) + [("G",)] * len(inflight)
        out += [-1, len(inflight), h.size(), len(observed)]
        for r in observed:
            out += enc_resp(r)
        return out, observed, ops, extra, complete
    finally:
        close_handler(h)


def oracle_responses(kind, accepted, responses, ordered):
    """Exactly one response per accepted job, with that job's name, complex event, success, data."""
    fails = []
    by = {}
    for r in responses:
        by.setdefault(resp_eid(r), []).append(r)
    for j in accepted:
        rs = by.pop(j["eid"], [])
        if not rs:
            fails.append(("missing-response", "no response for the action handed over with complex event e%d" % j["eid"]))
            continue
        if len(rs) > 1:
            fails.append(("duplicate-response", "%d responses for complex event e%d" % (len(rs), j["eid"])))
        r = rs[0]
        if r.action_name != "a%d" % j["name"]:
            fails.append(("wrong-action-name", "response for e%d names %r, action was a%d" % (j["eid"], r.action_name, j["name"])))
        ce = r.complex_event
        if (getattr(ce, "phenomenon_name", None), getattr(ce, "pattern_name", None)) != ("ph%d" % j["phen"], "pt%d" % j["patt"]):
            fails.append(("wrong-complex-event", "response for e%d carries a different complex event" % j["eid"]))
        if r.success is not j["succ"]:
            fails.append(("wrong-success", "response for e%d has success=%r, the action returned %r" % (j["eid"], r.success, j["succ"])))
        if type(r.data) is not int or r.data != j["data"]:
            fails.append(("wrong-data", "response for e%d has data=%r, the action returned %r" % (j["eid"], r.data, j["data"])))
    for e in by:
        fails.append(("unexpected-response", "response for a complex event that was not handed over (%r)" % e))
    if ordered:
        got = [resp_eid(r) for r in responses]
        sub = [j["eid"] for j in accepted if j["eid"] in got]
        if got != sub:
            fails.append(("blocking-order", "blocking handler delivered %s, submission order %s" % (got, sub)))
    return [("%s:%s" % (kind, s), w) for s, w in fails]


# ----------------------------------------------------------------------------------------------
# forwarder
def make_forwarder(handler, phen, tables, fmax, local_only, gates=None):
    """phen: [(name code, None | (action code, {eid: (succ, data)}))]"""
    ps = []
    for name, act in phen:
        a = None
        if act is not None:
            tab = {"e%d" % e: (s, d, tables.get(e, 0.0)) for e, (s, d) in act[1].items()}
            a = GateAction("a%d" % act[0], tab, gates) if gates is not None else TabAction("a%d" % act[0], tab)
        ps.append(BoboPhenomenon(name="ph%d" % name, patterns=[], action=a))
    fw = BoboForwarder(phenomena=ps, handler=handler, gen_event_id=CountID(), gen_timestamp=CountTS(),
                       local_only=local_only, max_size=fmax)
    rec = Recorder()
    fw.subscribe(rec)
    taken = []
    orig = handler.get_handler_response

    def spy():
        r = orig()
        if r is not None:
            taken.append(r)
        return r
    handler.get_handler_response = spy
    return fw, rec, taken


def fwd_summary(fw, handler, rec, n_inflight):
    out = [-1, fw.size(), n_inflight, handler.size(), len(rec.events)]
    for e in rec.events:
        out += enc_aevent(e)
    return out


def has_action(phen, code_):
    for name, act in phen:
        if name == code_:
            return act is not None
    return False


def run_fwd_ops(kind, workers, hmax, fmax, local_only, phen, ops):
    """Deterministic: blocking handler, or thread pool with gates (FComplete k chosen by the harness)."""
    h = make_handler(kind, workers, hmax)
    gates = {} if kind != "blocking" else None
    out, inflight, lost = [], [], 0
    try:
        if gates is not None:
            for op in ops:
                if op[0] == "P":
                    gates["e%d" % op[1]["eid"]] = threading.Event()
        fw, rec, taken = make_forwarder(h, phen, {}, fmax, local_only, gates)
        fq = []
        accepted = run_fwd_ops.accepted = []
        for op in ops:
            if op[0] == "P":
                before = fw.size()
                try:
                    fw.on_producer_update(mk_event(op[1]["eid"], op[1]["phen"], op[1]["patt"]), op[2])
                except BoboError:
                    out.append(2)
                if fw.size() > before:
                    fq.append(op[1])
                    accepted.append(op[1])
            elif op[0] == "U":
                head = fq.pop(0) if fq else None
                before = h.size()
                try:
                    out.append(flag(fw.update()))
                    if head is not None and kind != "blocking" and has_action(phen, head["phen"]):
                        inflight.append(head["eid"])
                except BoboError:
                    out.append(2)
            else:
                if kind != "blocking" and op[1] < len(inflight):
                    e = inflight.pop(op[1])
                    before = h.size()
                    gates["e%d" % e].set()
                    if not wait_until(lambda: h.size() > before, 5.0):
                        lost += 1
        # to quiescence: finish what is in flight (oldest first), keep updating until nothing is left
        extra = []
        for _ in range(4 * len(ops) + 10):
            while inflight:
                e = inflight.pop(0)
                before = h.size()
                gates["e%d" % e].set()
                extra.append(("C", 0))
                if not wait_until(lambda: h.size() > before, 5.0):
                    lost += 1
            if not fq and h.size() == 0:
                break
            head = fq.pop(0) if fq else None
            extra.append(("U", []))
            try:
                fw.update()
                if head is not None and kind != "blocking" and has_action(phen, head["phen"]):
                    inflight.append(head["eid"])
            except BoboError:
                pass
        out += fwd_summary(fw, h, rec, lost)
        return out, rec.events, taken, extra
    finally:
        if gates:
            for g in gates.values():
                g.set()
        close_handler(h)


def run_fwd_timed(kind, workers, phen, durations, events, limit):
    """Pool handler, real timing: produce everything, call update() until every action event is there."""
    h = make_handler(kind, workers, 0)
    try:
        fw, rec, taken = make_forwarder(h, phen, durations, 0, True)
        out, ops = [], []
        for ev in events:
            fw.on_producer_update(mk_event(ev["eid"], ev["phen"], ev["patt"]), True)
            ops.append(("P", ev, True))
        fq = list(events)
        inflight = []
        expected = sum(1 for ev in events if has_action(phen, ev["phen"]))

        def step():
            n_before = len(taken)
            head = fq.pop(0) if fq else None
            out.append(flag(fw.update()))
            if head is not None and has_action(phen, head["phen"]):
                inflight.append(head["eid"])
            mid = []
            if len(taken) > n_before:
                e = resp_eid(taken[-1])
                if e in inflight:
                    mid = [inflight.index(e)]
                    inflight.remove(e)
            ops.append(("U", mid))
            if not fq and len(taken) == n_before:
                time.sleep(0.001)
            return not fq and len(rec.events) >= expected
        wait_until(step, limit)
        for _ in range(3):      # anything beyond one event per response would show up now
            step()
        extra = [("U", [0])] * len(inflight) + [("U", [])] * (len(fq) + 1)
        out += fwd_summary(fw, h, rec, len(inflight))
        return out, rec.events, taken, ops, extra
    finally:
        close_handler(h)


def oracle_forwarder(kind, events, taken, jobs):
    """Each response taken from the handler became exactly one action event with the right fields;
    jobs (may be None) = what the forwarder handed over, for the end-to-end count."""
    fails = []
    if len(events) != len(taken):
        fails.append(("forwarder-event-count", "%d handler responses became %d action events" % (len(taken), len(events))))
    for r, e in zip(taken, events):
        if not isinstance(e, BoboEventAction):
            fails.append(("forwarder-event-type", "subscriber got %r" % type(e).__name__))
            continue
        ce = r.complex_event
        if (e.action_name, e.success, e.data, e.phenomenon_name, e.pattern_name) != \
                (r.action_name, r.success, r.data, ce.phenomenon_name, ce.pattern_name) \
                or type(e.data) is not type(r.data) or e.success is not r.success:
            fails.append(("forwarder-event-fields",
                          "action event (%r,%r,%r,%r,%r) does not carry the response's (%r,%r,%r,%r,%r)" %
                          (e.action_name, e.success, e.data, e.phenomenon_name, e.pattern_name,
                           r.action_name, r.success, r.data, ce.phenomenon_name, ce.pattern_name)))
    fails = [("%s:%s" % (kind, s), w) for s, w in fails]
    if jobs is not None:
        fails += oracle_responses(kind, jobs, taken, kind == "blocking")
    return fails


# ----------------------------------------------------------------------------------------------
# generators
NAMES = (50, 51, 52)
PHENS = (7, 8)
PATTS = (17, 18, 19)


def gen_jobs(rng, n, durs=None, first_eid=1):
    data = rng.sample([0, 1, -1, 2, -2] + list(range(100, 100 + 3 * n + 5)), n)
    return [job(rng.choice(NAMES), first_eid + i, rng.choice(PHENS), rng.choice(PATTS),
                rng.random() < 0.5, data[i], durs[i] if durs else 0.0) for i in range(n)]


def gen_block_ops(rng, n, pool_workers=None):
    """random H / G (/ C k) sequence"""
    ops, eid, infl = [], 0, 0
    for _ in range(n):
        x = rng.random()
        if pool_workers and infl and x < 0.3:
            k = rng.randrange(min(infl, pool_workers))
            ops.append(("C", k))
            infl -= 1
        elif x < 0.6:
            eid += 1
            ops.append(("H", gen_jobs(rng, 1, None, eid)[0]))
            infl += 1      # over-approximation when the handle is refused: corrected below
        else:
            ops.append(("G",))
    return ops


def fix_completes(kind, workers, max_size, ops):
    """Make every Complete index valid for the real pool (k < min(workers, in flight)) by simulating the
    queue bound in the harness; invalid ones are dropped."""
    out, infl, q = [], 0, 0
    for op in ops:
        if op[0] == "H":
            if max_size > 0 and q >= max_size:
                pass
            else:
                infl += 1
            out.append(op)
        elif op[0] == "C":
            if infl and op[1] < min(infl, workers):
                infl -= 1
                q += 1
                out.append(op)
        else:
            if q:
                q -= 1
            out.append(op)
    return out


def gen_fwd_cfg(rng, n_events, all_action=False):
    acts = {}
    evs = []
    for i in range(1, n_events + 1):
        ph = 7 if all_action else rng.choice((7, 7, 7, 8, 9, 6))
        evs.append(dict(eid=i, phen=ph, patt=rng.choice(PATTS)))
    data = rng.sample([0, 1, -1] + list(range(200, 200 + 3 * n_events)), n_events)
    tab7 = {ev["eid"]: (rng.random() < 0.5, data[i]) for i, ev in enumerate(evs)}
    phen = [(7, (rng.choice(NAMES), tab7)), (8, None)]
    if not all_action and rng.random() < 0.5:
        phen.append((6, (rng.choice(NAMES), {ev["eid"]: (not tab7[ev["eid"]][0], tab7[ev["eid"]][1] + 1000) for ev in evs})))
    return phen, evs


def gen_fwd_ops(rng, evs, pool_workers=None):
    ops, todo, infl_bound = [], list(evs), 0
    n = 2 * len(evs) + rng.randint(1, 4)
    for _ in range(n):
        x = rng.random()
        if todo and x < 0.4:
            ops.append(("P", todo.pop(0), rng.random() < 0.85))
        elif pool_workers and x < 0.6:
            ops.append(("C", rng.randrange(pool_workers)))
        else:
            ops.append(("U", []))
    return ops


def jobs_of_forwarder(phen, evs_handled):
    out = []
    for ev in evs_handled:
        for name, act in phen:
            if name == ev["phen"] and act is not None:
                s, d = act[1][ev["eid"]]
                out.append(job(act[0], ev["eid"], ev["phen"], ev["patt"], s, d))
    return out


# ----------------------------------------------------------------------------------------------
def add_failures(res, fails, case):
    for sig, what in fails:
        res.failures.append(dict(signature=sig, what=what, case=case, detail=None))


def case_size(f):
    c = f["case"]
    return len(c.get("outs", [])) + len(c.get("ops", [])) + len(c.get("jobs", [])) + len(c.get("events", []))


def shared_multi_case(stop, tables, n_sub):
    """ONE multi-action object (as a phenomenon holds it) executed once per event: each response must carry the
    outcome of its own execution, also after later executions (responses read only at the end)."""
    subs = [TabAction("s%d" % i, {eid: tab[i] for eid, tab in tables.items()}) for i in range(n_sub)]
    multi = BoboActionMultiSequential("m", subs, stop)
    h = BoboActionHandlerBlocking()
    eids = sorted(tables)
    for eid in eids:
        h.handle(multi, mk_event(int(eid[1:]), 1, 1))
    bad = []
    for eid in eids:
        r = h.get_handler_response()
        tab = tables[eid]
        exp = []
        for i in range(n_sub):
            exp.append((tab[i][0], tab[i][1]))
            if stop and not tab[i][0]:
                break
        got = [tuple(x) for x in r.data] if r is not None else None
        if r is None or r.complex_event.event_id != eid or got != exp or r.success != all(x[0] for x in exp):
            bad.append((eid, exp, got))
    return bad


def shared_multi(ctx, res):
    rng = ctx.rng
    for k in range(40 if ctx.quick else 400):
        n_sub = rng.randint(1, 4)
        n_ev = rng.randint(2, 4)
        stop = rng.random() < 0.5
        tables = {"e%d" % (k * 10 + j): [(rng.random() < 0.6, 100 * j + i, 0) for i in range(n_sub)] for j in range(n_ev)}
        bad = shared_multi_case(stop, tables, n_sub)
        res.note_case(("shared-multi", k, stop, repr(tables)), True)
        res.count("shared_multi_batches")
        if bad:
            res.failures.append(dict(signature="multi-response-not-its-own-outcome",
                                     what="one multi-action executed for %d events: response for %s reports %s, its own execution gave %s"
                                          % (n_ev, bad[0][0], bad[0][2], bad[0][1]),
                                     case=dict(kind="shared-multi", stop=stop, n_sub=n_sub,
                                               tables={e: [list(x) for x in t] for e, t in tables.items()}), detail=None))


def blocking_two_threads(n_later=1):
    """Two threads hand actions to ONE blocking handler (e.g. two forwarders built over one handler object): the
    first action is still executing when the later ones are handed over.  The blocking handler reports in submission
    order, so the later ones must wait: none runs before the first has finished and the responses come out first
    to last.  The first action waits for a gate the harness opens, so the overlap is decided, not raced for."""
    h = BoboActionHandlerBlocking()
    started, gate = threading.Event(), threading.Event()
    ran_early, errs = [], []

    class First(BoboAction):
        def execute(self, event):
            started.set()
            gate.wait(5)
            return False, 1000

    class Later(BoboAction):
        def __init__(self, k):
            super().__init__("a%d" % (k + 2))
            self.k = k

        def execute(self, event):
            if not gate.is_set():
                ran_early.append(self.k)
            return True, 2000 + self.k

    def submit(act, eid):
        try:
            h.handle(act, mk_event(eid, 7, 17))
        except Exception as ex:      # noqa
            errs.append(repr(ex))
    ta = threading.Thread(target=submit, args=(First("a1"), 1), daemon=True)
    ta.start()
    if not started.wait(5):
        return "the first action never started"
    later = []
    for k in range(n_later):
        t = threading.Thread(target=submit, args=(Later(k), 2 + k), daemon=True)
        t.start()
        later.append(t)
        time.sleep(0.05)
    time.sleep(0.15)
    early = list(ran_early)
    gate.set()
    for t in [ta] + later:
        t.join(5)
    got = []
    while h.size() > 0:
        r = h.get_handler_response()
        got.append((r.action_name, r.complex_event.event_id, r.success, r.data))
    if errs:
        return "handle() raised %s" % errs
    if early:
        return "action(s) %s handed over later were executed while the first was still running" % [k + 2 for k in early]
    if not got or got[0][0] != "a1" or len(got) != 1 + n_later:
        return "handed over a1 first, responses came out as %s" % [g[0] for g in got]
    if got[0][2:] != (False, 1000) or any(g[2:] != (True, 2000 + int(g[0][1:]) - 2) for g in got[1:]):
        return "a response does not carry its own outcome: %s" % got
    return None


def closed_handler_case(kind):
    """actions handed over AFTER close(): each hand-over either raises (a closed pool refuses loudly) or yields exactly
    one response - never silently nothing.  -> failure text | None"""
    h = make_handler(kind, 2, 0)
    accepted, refused = [], 0
    try:
        def hand(eid):
            nonlocal refused
            ev = mk_event(eid, 7, 17)
            act = TabAction("a%d" % eid, {ev.event_id: (eid % 2 == 0, 100 + eid, 0)})
            try:
                h.handle(act, ev)
                accepted.append(eid)
            except Exception:        # noqa
                refused += 1
        for eid in (1, 2):
            hand(eid)
        wait_until(lambda: h.size() >= len(accepted), 10.0)
        h.close()
        for eid in (3, 4, 5):
            hand(eid)
        if kind != "blocking" and len(accepted) > 2:
            wait_until(lambda: h.size() >= len(accepted), 3.0)
        got = []
        while h.size() > 0:
            r = h.get_handler_response()
            got.append(int(r.complex_event.event_id[1:]))
    finally:
        close_handler(h)
    if sorted(got) != sorted(accepted):
        return ("handed over %s (accepted without an error: %s, refused with an error: %d), responses for %s"
                % ([1, 2, 3, 4, 5], accepted, refused, sorted(got)))
    return None


def two_pool_handlers_case(kind):
    """Two pool handlers alive in ONE process (two engines in one program): the older one executes its actions after the
    newer one was constructed.  Every handler reports exactly the actions handed to IT, each once, with its own outcome."""
    def make():
        return BoboActionHandlerMultithreading(threads=2) if kind == "thread" else make_handler("process", 2, 0)
    first = make()
    second = make()
    table = {}
    handed = {0: [], 1: []}
    try:
        for which, h in ((0, first), (1, second), (0, first)):
            for k in range(2):
                eid = 100 * which + len(handed[which]) + 1
                table["e%d" % eid] = (k % 2 == 0, 5000 + eid, 0.02 * (k + 1))
                handed[which].append(eid)
                h.handle(TabAction("t%d" % eid, table), mk_event(eid, 7, 17))
        got = {0: [], 1: []}
        t0 = time.time()
        while time.time() - t0 < 8 and (len(got[0]) < len(handed[0]) or len(got[1]) < len(handed[1])):
            for which, h in ((0, first), (1, second)):
                r = h.get_handler_response()
                while r is not None:
                    got[which].append((int(r.complex_event.event_id[1:]), r.action_name, r.success, r.data))
                    r = h.get_handler_response()
            time.sleep(0.02)
        time.sleep(0.1)
        for which, h in ((0, first), (1, second)):
            r = h.get_handler_response()
            while r is not None:
                got[which].append((int(r.complex_event.event_id[1:]), r.action_name, r.success, r.data))
                r = h.get_handler_response()
    finally:
        close_handler(first)
        close_handler(second)
    for which in (0, 1):
        want = sorted((e, "t%d" % e, table["e%d" % e][0], table["e%d" % e][1]) for e in handed[which])
        if sorted(got[which]) != want:
            return ("the %s handler was handed the actions of events %s and reported %s"
                    % ("older" if which == 0 else "newer", handed[which], sorted(x[0] for x in got[which])))
    return None


def run(ctx, res):
    for kind in ("thread", "process"):
        try:
            bad = two_pool_handlers_case(kind)
        except Exception as ex:      # noqa
            bad = "%s: %s" % (type(ex).__name__, ex)
        res.note_case(("two-pool-handlers", kind), True)
        if bad:
            res.failures.append(dict(signature="response-reported-by-another-handler", detail=None,
                                     what="two %s handlers alive in one process: %s" % (kind, bad),
                                     case=dict(kind="two-pool-handlers", handler=kind)))
    for kind in ("blocking", "thread", "process"):
        bad = closed_handler_case(kind)
        res.note_case(("closed-handler", kind), True)
        if bad:
            res.failures.append(dict(signature="action-handed-over-after-close-vanishes", detail=None,
                                     what="%s handler, close() after two actions, three more handed over: %s" % (kind, bad),
                                     case=dict(kind="closed-handler", handler=kind)))
    shared_multi(ctx, res)
    for n_later in (1, 2, 3):
        bad = blocking_two_threads(n_later)
        res.note_case(("blocking-two-threads", n_later), True)
        if bad:
            res.failures.append(dict(signature="blocking-handler-not-serialised", what="one blocking handler, two submitting threads: " + bad,
                                     case=dict(kind="blocking-two-threads", n_later=n_later), detail=None))
    rng = ctx.rng
    q = ctx.quick
    SLOW["budget"] = 15.0 if q else 60.0
    logging.disable(logging.CRITICAL)
    try:
        _run(ctx, res, rng, q)
    finally:
        logging.disable(logging.NOTSET)
    res.failures.sort(key=case_size)


def _run(ctx, res, rng, q):
    hcases, hmeta = [], []       # handler correspondence: (coq input, expected), case dicts
    fcases, fmeta = [], []       # forwarder correspondence

    # ---- process pool first (before this process has started any thread of its own)
    mp_plan = [(1, 2), (2, 5), (3, 7), (8, 12)] if q else [(w, n) for w in range(1, 9) for n in (1, w + 1, 2 * w + 3)]
    for w, n in mp_plan:
        durs = [0.004 * x for x in rng.sample(range(n), n)]
        jobs = gen_jobs(rng, n, durs)
        case = dict(kind="batch", handler="process", workers=w, jobs=jobs)
        out, observed, ops, extra, complete = run_pool_batch("process", w, jobs, 30.0)
        res.note_case(("mp", w, n, repr(jobs)), n > 1)
        res.count("process_batches")
        add_failures(res, oracle_responses("process", jobs, observed, False), case)
        hcases.append((c_handler_input("process", 0, ops, extra), out))
        hmeta.append(case)
    for w, n in ([(2, 4)] if q else [(1, 3), (3, 7), (8, 10)]):
        phen, evs = gen_fwd_cfg(rng, n, all_action=True)
        durs = {ev["eid"]: 0.004 * x for ev, x in zip(evs, rng.sample(range(n), n))}
        case = dict(kind="fwd-timed", handler="process", workers=w, phen=phen, events=evs, durations=durs)
        out, events, taken, ops, extra = run_fwd_timed("process", w, phen, durs, evs, 30.0)
        res.note_case(("mpf", w, n), True)
        res.count("process_forwarder")
        add_failures(res, oracle_forwarder("process", events, taken, jobs_of_forwarder(phen, evs)), case)
        fcases.append((c_fwd_input("process", 0, 0, True, phen, ops, extra), out))
        fmeta.append(case)

    # ---- multi action: exhaustive truth table + random long vectors
    L = 6 if q else 9
    mcases, mmeta = [], []
    vecs = list(multi_vectors(L, rng))
    for _ in range(60 if q else 600):
        n = rng.randint(7, 40)
        p = rng.choice((0.5, 0.9, 0.98))
        vecs.append((rng.random() < 0.5, [(rng.random() < p, rng.randint(-50, 500)) for _ in range(n)]))
    for stop, outs in vecs:
        ret, log = impl_multi(stop, outs)
        res.note_case(("multi", stop, tuple(outs)), not all(s for s, _ in outs))
        res.count("multi_len_%d" % min(len(outs), 10))
        case = dict(kind="multi", stop=stop, outs=[[s, d] for s, d in outs])
        add_failures(res, oracle_multi(stop, outs, ret, log), case)
        mcases.append(("(%s, %s)" % (cbool(stop), c_outs(outs)), enc_multi(ret, log)))
        mmeta.append(case)
    tcases, tmeta = [], []
    for t in tree_cases(rng, q):
        ret, log = impl_tree(t)
        nested = any(x[0] == "multi" for x in t[2])
        res.note_case(("multi-tree", repr(t)), nested and not ref_tree(t, [0])[0])
        res.count("multi_tree_nested" if nested else "multi_tree_flat")
        case = dict(kind="multi-tree", tree=t)
        add_failures(res, oracle_tree(t, ret, log), case)
        tcases.append((c_tree(t, [0]), enc_tree(ret, log)))
        tmeta.append(case)
    # the same action OBJECT listed several times ([notify, write, notify], [send, send] as "try twice")
    for t in shared_tree_cases(rng, q):
        ret, log = impl_tree(t, shared=True)
        ids = canon_ids(t, [0], {}, {})
        res.note_case(("multi-tree-shared", repr(t)), len(set(ids.values())) < len(ids))
        res.count("multi_tree_shared_instances")
        case = dict(kind="multi-tree", tree=t, shared=True)
        add_failures(res, oracle_tree(t, ret, log, shared=True), case)
        tcases.append((c_tree(t, [0], ids), enc_tree(ret, log)))
        tmeta.append(case)
    # informational: the constructor refuses an empty list
    try:
        BoboActionMultiSequential("m", [], True)
        res.extra["multi_empty_list"] = "accepted"
    except BoboError:
        res.extra["multi_empty_list"] = "refused by the constructor"

    # ---- blocking handler: every H/G sequence up to length Lb (unbounded), random with bounds
    Lb = 7 if q else 10
    plans = []
    for n in range(1, Lb + 1):
        for word in itertools.product("HG", repeat=n):
            eid, ops = 0, []
            for ch in word:
                if ch == "H":
                    eid += 1
                    ops.append(("H", gen_jobs(rng, 1, None, eid)[0]))
                else:
                    ops.append(("G",))
            plans.append((0, ops))
    for _ in range(250 if q else 2500):
        plans.append((rng.choice((0, 1, 1, 2, 3)), gen_block_ops(rng, rng.randint(3, 24))))
    for max_size, ops in plans:
        case = dict(kind="handler-ops", handler="blocking", workers=0, max_size=max_size, ops=ops)
        out, accepted, delivered, extra, _ = run_handler_ops("blocking", 0, max_size, ops)
        nH = sum(1 for o in ops if o[0] == "H")
        res.note_case(("b", max_size, repr(ops)), nH >= 2 and (len(accepted) < nH or any(
            ops[i][0] == "G" and ops[i + 1][0] == "H" for i in range(len(ops) - 1))))
        res.count("blocking_ops")
        add_failures(res, oracle_responses("blocking", accepted, delivered, True), case)
        hcases.append((c_handler_input("blocking", max_size, ops, extra), out))
        hmeta.append(case)

    # ---- thread pool, gated: the harness picks which running job finishes next
    for _ in range(60 if q else 500):
        w = rng.randint(1, 8)
        max_size = rng.choice((0, 0, 1, 2))
        ops = fix_completes("thread", w, max_size, gen_block_ops(rng, rng.randint(3, 18), w))
        case = dict(kind="handler-ops", handler="thread", workers=w, max_size=max_size, ops=ops)
        out, accepted, delivered, extra, lost = run_handler_ops("thread", w, max_size, ops)
        res.note_case(("tg", w, max_size, repr(ops)), sum(1 for o in ops if o[0] == "C") >= 2)
        res.count("thread_gated_ops")
        add_failures(res, oracle_responses("thread", accepted, delivered, False), case)
        hcases.append((c_handler_input("thread", max_size, ops, extra), out))
        hmeta.append(case)

    # ---- thread pool, timed batches: 1..N jobs, distinct outcomes and durations, 1..8 workers
    for w in range(1, 9):
        for n in ((1, 2, w + 1, 2 * w + 2) if q else (1, 2, 3, w, w + 1, 2 * w + 2, 3 * w + 5, 40)):
            durs = [0.0015 * x for x in rng.sample(range(n), n)]
            jobs = gen_jobs(rng, n, durs)
            case = dict(kind="batch", handler="thread", workers=w, jobs=jobs)
            out, observed, ops, extra, complete = run_pool_batch("thread", w, jobs, 10.0)
            order = [resp_eid(r) for r in observed]
            res.note_case(("tb", w, n, repr(jobs)), n > 1)
            if order != sorted(order):
                res.count("thread_batches_completed_out_of_submission_order")
            res.count("thread_batches")
            add_failures(res, oracle_responses("thread", jobs, observed, False), case)
            hcases.append((c_handler_input("thread", 0, ops, extra), out))
            hmeta.append(case)

    # ---- forwarder on the blocking handler (deterministic op sequences, bounded queues included)
    for _ in range(250 if q else 2500):
        phen, evs = gen_fwd_cfg(rng, rng.randint(1, 7))
        hmax, fmax, lo = rng.choice((0, 0, 1, 2)), rng.choice((0, 0, 2)), rng.random() < 0.7
        ops = [o for o in gen_fwd_ops(rng, evs) if o[0] != "C"]
        if rng.random() < 0.35:         # a burst: everything is produced before the forwarder runs
            ops = [o for o in ops if o[0] == "P"] + [o for o in ops if o[0] != "P"]
        case = dict(kind="fwd-ops", handler="blocking", workers=0, hmax=hmax, fmax=fmax, local_only=lo,
                    phen=phen, ops=ops)
        out, events, taken, extra = run_fwd_ops("blocking", 0, hmax, fmax, lo, phen, ops)
        res.note_case(("fb", repr(case)), sum(1 for o in ops if o[0] == "P") >= 2)
        res.count("forwarder_blocking")
        # every complex event the forwarder accepted (and whose phenomenon has an action) is reported once, in order
        add_failures(res, oracle_forwarder("blocking", events, taken, jobs_of_forwarder(phen, run_fwd_ops.accepted)), case)
        fcases.append((c_fwd_input("blocking", hmax, fmax, lo, phen, ops, extra), out))
        fmeta.append(case)

    # ---- forwarder on the thread pool: gated (deterministic) and timed
    for _ in range(40 if q else 300):
        w = rng.randint(1, 8)
        phen, evs = gen_fwd_cfg(rng, rng.randint(1, 7))
        lo = rng.random() < 0.7
        ops = fix_fwd_completes(w, phen, lo, gen_fwd_ops(rng, evs, w))
        case = dict(kind="fwd-ops", handler="thread", workers=w, hmax=0, fmax=0, local_only=lo, phen=phen, ops=ops)
        out, events, taken, extra = run_fwd_ops("thread", w, 0, 0, lo, phen, ops)
        res.note_case(("ft", repr(case)), sum(1 for o in ops if o[0] == "C") >= 2)
        res.count("forwarder_thread_gated")
        add_failures(res, oracle_forwarder("thread", events, taken, None), case)
        fcases.append((c_fwd_input("thread", 0, 0, lo, phen, ops, extra), out))
        fmeta.append(case)
    for w in range(1, 9):
        for n in ((1, w + 2) if q else (1, 2, w + 2, 2 * w + 3, 25)):
            phen, evs = gen_fwd_cfg(rng, n, all_action=True)
            durs = {ev["eid"]: 0.0015 * x for ev, x in zip(evs, rng.sample(range(n), n))}
            case = dict(kind="fwd-timed", handler="thread", workers=w, phen=phen, events=evs, durations=durs)
            out, events, taken, ops, extra = run_fwd_timed("thread", w, phen, durs, evs, 10.0)
            res.note_case(("ftt", w, n, repr(evs)), n >= 2)
            res.count("forwarder_thread_timed")
            add_failures(res, oracle_forwarder("thread", events, taken, jobs_of_forwarder(phen, evs)), case)
            fcases.append((c_fwd_input("thread", 0, 0, True, phen, ops, extra), out))
            fmeta.append(case)

    # ---- informational only: a raising action in a pool handler produces no response (outside C20)
    h = make_handler("thread", 1, 0)
    try:
        h.handle(RaisingAction("a50"), mk_event(1, 7, 17))
        time.sleep(0.05)
        res.extra["raising_action_info"] = "thread pool: %d response(s) for 1 raising action (not part of C20)" % h.size()
    finally:
        close_handler(h)

    # ---- correspondence with the Coq model
    total_ok = 0
    for tag, imports, func, ty, cases, meta in (
            ("C20m", "Model.Action", "run_C20_multi", MULTI_T, mcases, mmeta),
            ("C20t", "Model.ActionTree", "run_C20_tree", "act", tcases, tmeta),
            ("C20h", "Model.Action", "run_C20_handler", HANDLER_T, hcases, hmeta),
            ("C20f", "Model.Action", "run_C20_fwd", FWD_T, fcases, fmeta)):
        mism, errs = common.coq_run_cases(tag, imports, func, ty, cases, shard=150)
        res.errors += errs
        total_ok += len(cases) - len(mism)
        mism.sort(key=lambda m: case_size(dict(case=meta[m[0]])))
        for idx, model_out in mism[:8]:
            res.mismatches.append(dict(case=meta[idx], impl=cases[idx][1], model=model_out))
    res.traces_validated = total_ok
    res.samples = [mmeta[5], hmeta[0], hmeta[len(mp_plan) + 40], fmeta[0], fmeta[-1]]
    res.exhaustive = True
    res.extra["exhaustive_scope"] = ("multi: all success/failure vectors for 1..%d sub-actions x stop flag; blocking handler: "
                                     "all handle/get sequences of length 1..%d (unbounded queue)" % (L, Lb))
    res.extra["slow_budget_left_s"] = round(SLOW["budget"], 1)


def fix_fwd_completes(workers, phen, local_only, ops):
    """Drop FComplete ops whose index is not a running job of the real pool (harness-side bookkeeping)."""
    out, fq, infl = [], [], 0
    for op in ops:
        if op[0] == "P":
            if op[2] or not local_only:
                fq.append(op[1])
            out.append(op)
        elif op[0] == "U":
            if fq:
                ev = fq.pop(0)
                if has_action(phen, ev["phen"]):
                    infl += 1
            out.append(op)
        else:
            if infl and op[1] < min(infl, workers):
                infl -= 1
                out.append(op)
    return out


# ----------------------------------------------------------------------------------------------
def _tup(ops):
    return [tuple(o) for o in ops]


def _phen(p):
    out = []
    for name, act in p:
        out.append((name, None if act is None else (act[0], {int(k): tuple(v) for k, v in act[1].items()})))
    return out


def replay_shared(case):
    tables = {e: [tuple(x) for x in t] for e, t in case["tables"].items()}
    bad = shared_multi_case(case["stop"], tables, case["n_sub"])
    print("oracle:", ("response for %s reports %s, its own execution gave %s" % (bad[0][0], bad[0][2], bad[0][1])) if bad
          else "every response carries the outcome of its own execution")
    return 1 if bad else 0


def replay(obj):
    if (obj.get("case") or {}).get("kind") == "shared-multi":
        return replay_shared(obj["case"])
    if (obj.get("case") or {}).get("kind") == "closed-handler":
        bad = closed_handler_case(obj["case"]["handler"])
        print("oracle:", bad or "every hand-over after close() either raised or was answered once")
        return 1 if bad else 0
    if (obj.get("case") or {}).get("kind") == "two-pool-handlers":
        bad = two_pool_handlers_case(obj["case"]["handler"])
        print("oracle:", bad or "each handler reported exactly the actions handed to it, once, with their own outcomes")
        return 1 if bad else 0
    if (obj.get("case") or {}).get("kind") == "blocking-two-threads":
        bad = blocking_two_threads(obj["case"]["n_later"])
        print("oracle:", bad or "later submissions waited for the first; responses in submission order, own outcomes")
        return 1 if bad else 0
    case = obj.get("case") or {}
    kind = case.get("kind")
    if kind is None and obj.get("mismatches"):
        case = obj["mismatches"][0]["case"]
        kind = case.get("kind")
    if kind is None:
        print(obj)
        return 0
    logging.disable(logging.CRITICAL)
    bad = 0
    if kind == "multi":
        stop, outs = case["stop"], [(bool(s), d) for s, d in case["outs"]]
        ret, log = impl_multi(stop, outs)
        print("stop_on_fail=%s sub-action outcomes=%s" % (stop, outs))
        print("implementation: returned %r ; executed sub-actions %s" % (ret, log))
        impl = enc_multi(ret, log)
        model, _ = common.coq_eval("C20", "Model.Action", "run_C20_multi (%s, %s)" % (cbool(stop), c_outs(outs)))
        fails = oracle_multi(stop, outs, ret, log)
    elif kind == "multi-tree":
        t, sh = case["tree"], bool(case.get("shared"))
        ret, log = impl_tree(t, shared=sh)
        print("multi-action tree%s:" % (" (leaves with the same outcome are ONE action object)" if sh else ""), t)
        print("implementation: returned %r ; executed leaves %s" % (ret, log))
        impl = enc_tree(ret, log)
        model, _ = common.coq_eval("C20", "Model.ActionTree", "run_C20_tree %s" %
                                   c_tree(t, [0], canon_ids(t, [0], {}, {}) if sh else None))
        fails = oracle_tree(t, ret, log, shared=sh)
    elif kind == "handler-ops":
        ops = _tup(case["ops"])
        impl, accepted, delivered, extra, _ = run_handler_ops(case["handler"], case["workers"], case["max_size"], ops)
        print("%s handler, workers=%s, max_size=%s" % (case["handler"], case["workers"], case["max_size"]))
        for o in ops:
            print("   ", o)
        print("implementation: delivered", [(r.action_name, r.complex_event.event_id, r.success, r.data) for r in delivered])
        model, _ = common.coq_eval("C20", "Model.Action", "run_C20_handler %s" %
                                   c_handler_input(case["handler"], case["max_size"], ops, extra))
        fails = oracle_responses(case["handler"], accepted, delivered, case["handler"] == "blocking")
    elif kind == "batch":
        jobs = case["jobs"]
        impl, observed, ops, extra, _ = run_pool_batch(case["handler"], case["workers"], jobs,
                                                       30.0 if case["handler"] == "process" else 10.0)
        print("%s handler, workers=%s, jobs:" % (case["handler"], case["workers"]))
        for j in jobs:
            print("   ", j)
        print("implementation: responses", [(r.action_name, r.complex_event.event_id, r.success, r.data) for r in observed])
        model, _ = common.coq_eval("C20", "Model.Action", "run_C20_handler %s" %
                                   c_handler_input(case["handler"], 0, ops, extra))
        fails = oracle_responses(case["handler"], jobs, observed, False)
    elif kind == "fwd-ops":
        ops = [tuple(o) for o in case["ops"]]
        phen = _phen(case["phen"])
        impl, events, taken, extra = run_fwd_ops(case["handler"], case["workers"], case["hmax"], case["fmax"],
                                                 case["local_only"], phen, ops)
        print("forwarder on %s handler; phenomena %s" % (case["handler"], phen))
        for o in ops:
            print("   ", o)
        print("implementation: responses    ", [(r.action_name, r.complex_event.event_id, r.success, r.data) for r in taken])
        print("implementation: action events", [(e.action_name, e.success, e.data, e.phenomenon_name, e.pattern_name) for e in events])
        model, _ = common.coq_eval("C20", "Model.Action", "run_C20_fwd %s" %
                                   c_fwd_input(case["handler"], case["hmax"], case["fmax"], case["local_only"], phen, ops, extra))
        fails = oracle_forwarder(case["handler"], events, taken, None)
    else:
        phen = _phen(case["phen"])
        durs = {int(k): v for k, v in case["durations"].items()}
        impl, events, taken, ops, extra = run_fwd_timed(case["handler"], case["workers"], phen, durs, case["events"],
                                                        30.0 if case["handler"] == "process" else 10.0)
        print("forwarder on %s handler, workers=%s; events %s" % (case["handler"], case["workers"], case["events"]))
        print("implementation: responses    ", [(r.action_name, r.complex_event.event_id, r.success, r.data) for r in taken])
        print("implementation: action events", [(e.action_name, e.success, e.data, e.phenomenon_name, e.pattern_name) for e in events])
        model, _ = common.coq_eval("C20", "Model.Action", "run_C20_fwd %s" %
                                   c_fwd_input(case["handler"], 0, 0, True, phen, ops, extra))
        fails = oracle_forwarder(case["handler"], events, taken, jobs_of_forwarder(phen, case["events"]))
    print("implementation (encoded):", impl)
    print("model          (encoded):", model)
    if model is not None and list(model) != list(impl):
        print("MODEL AND IMPLEMENTATION DIFFER")
        bad = 1
    for sig, what in fails:
        print("PROPERTY FAILS [%s]: %s" % (sig, what))
        bad = 1
    if not bad:
        print("property holds on this case; model and implementation agree")
    return bad
