"""Drive a real BoboDecider from a config description and a list of operations
(local event / remote note), recording what subscribers and the public accessors show."""
import predlang as PL

IMPORTS = "Base.History Model.Pattern Model.Run Model.Decider Model.PredLang"


class CountGen:
    def __init__(self, base):
        self.base, self.n = base, 0

    def generate(self):
        s = str(self.base + self.n)
        self.n += 1
        return s


class Rec:
    """BoboDeciderSubscriber"""
    def __init__(self):
        self.calls = []

    def on_decider_update(self, completed, halted, updated, local):
        self.calls.append((list(completed), list(halted), list(updated), local))


def make_decider(cfg):
    from bobocep.cep.engine.decider.decider import BoboDecider
    from bobocep.cep.phenom.phenom import BoboPhenomenon
    from bobocep.cep.engine.decider.pubsub import BoboDeciderSubscriber
    mode = cfg.get("mode")
    phen = [BoboPhenomenon(name=PL.phname(k), patterns=[PL.make_pattern(p, mode) for p in ps]) for k, ps in cfg["phen"]]
    gen = CountGen(cfg["idbase"])
    dec = BoboDecider(phenomena=phen, gen_event_id=CountGen(10 ** 9), gen_run_id=gen, max_cache=cfg["maxcache"])

    class R(Rec, BoboDeciderSubscriber):
        pass
    rec = R()
    dec.subscribe(rec)

    class Boom(BoboDeciderSubscriber):
        """a later subscriber (e.g. the distributed component with a full outgoing queue) that may refuse a change"""
        armed = False

        def on_decider_update(self, completed, halted, updated, local):
            if self.armed:
                raise SubscriberRefused("scripted")
    dec.verif_boom = Boom()
    dec.subscribe(dec.verif_boom)
    dec.verif_textdata = bool(mode and mode.get("typed"))
    dec.verif_castraise = (set(mode["cast_ts"]), mode["castexc"]) if mode and mode.get("castexc") else None
    return dec, rec


class SubscriberRefused(Exception):
    pass


def enc_state(dec):
    c, h, _u = dec.snapshot()
    return (PL.enc_list(PL.enc_run, list(dec.all_runs())) + PL.enc_list(PL.enc_ser, c) + PL.enc_list(PL.enc_ser, h))


def apply_op(dec, rec, op):
    """op = ("local", event tuple) | ("remote", note dict).  Returns (encoded observation, raw note lists)."""
    n0 = len(rec.calls)
    if op[0] == "local":
        dec.on_receiver_update(PL.make_event(op[1], getattr(dec, "verif_textdata", False), getattr(dec, "verif_castraise", None)))
        try:
            dec.update()
        except SubscriberRefused:  # a subscriber refused the change: the caller carries on; the decider's own state
            pass                   # (runs, finished-run memory) must be what it is when every subscriber returns
        except Exception as ex:   # BoboDeciderError (duplicate run id) escapes update()
            dec.verif_error = "%s: %s" % (type(ex).__name__, ex)
            return [-9, 3], None
        tag = -7
    else:
        n = op[1]
        try:
            dec.on_distributed_update([PL.make_ser(r) for r in n["comp"]], [PL.make_ser(r) for r in n["halt"]],
                                      [PL.make_ser(r) for r in n["upd"]])
        except SubscriberRefused:
            pass
        except Exception as ex:   # a well-formed remote note must be applied, never refused with an exception
            dec.verif_error = "%s: %s" % (type(ex).__name__, ex)
            return [-9, 4], None
        tag = -8
    calls = rec.calls[n0:]
    if calls:
        comp, halt, upd, _loc = calls[0]
    else:
        comp, halt, upd = [], [], []
    out = [tag] + PL.enc_list(PL.enc_ser, comp) + PL.enc_list(PL.enc_ser, halt) + PL.enc_list(PL.enc_ser, upd)
    return out + enc_state(dec), (comp, halt, upd)


# ---- two callers of one decider: every operation is atomic (the decider's lock) ------------------------------
def raw_op(dec, op):
    """the operation as a callable (what the engine thread / the distributed component's main thread does)"""
    if op[0] == "local":
        ev = PL.make_event(op[1], getattr(dec, "verif_textdata", False), getattr(dec, "verif_castraise", None))
        return lambda: (dec.on_receiver_update(ev), dec.update())
    n = op[1]
    lists = [[PL.make_ser(r) for r in n[k]] for k in ("comp", "halt", "upd")]
    return lambda: dec.on_distributed_update(*lists)


def outcome(dec, rec, n0):
    notes = [tuple(tuple(sorted(tuple(PL.enc_ser(r)) for r in lst)) for lst in c[:3]) + (bool(c[3]),) for c in rec.calls[n0:]]
    return notes, enc_state(dec)


def atomic_pair(cfg, prefix, op_a, op_b, k, wait=0.005):
    """op_a with op_b started when op_a is at line k inside decider.py.  Returns (line reached, outcome, the two
    serial outcomes [a;b, b;a], exceptions)."""
    import interleave as IL

    def fresh():
        dec, rec = make_decider(cfg)
        for op in prefix:
            apply_op(dec, rec, op)
        return dec, rec
    serial = []
    for order in ((op_a, op_b), (op_b, op_a)):
        dec, rec = fresh()
        n0 = len(rec.calls)
        for op in order:
            raw_op(dec, op)()
        serial.append(outcome(dec, rec, n0))
    dec, rec = fresh()
    n0 = len(rec.calls)
    r = IL.second_caller(raw_op(dec, op_a), raw_op(dec, op_b), ("decider.py",), k, wait=wait)
    return r["reached"], outcome(dec, rec, n0), serial, [x for x in (r["a_exc"], r["b_exc"]) if x is not None]


def remote_raise_failure(dec, k):
    return dict(signature="decider-raised-on-remote-update", step=k,
                what="on_distributed_update raised on a well-formed note (operation %d): %s; the rest of the note is "
                     "not applied and subscribers are not notified" % (k, getattr(dec, "verif_error", "?")), detail=None)


def run_ops(cfg, ops):
    dec, rec = make_decider(cfg)
    out = []
    for op in ops:
        o, _ = apply_op(dec, rec, op)
        out += o
        if o[0] == -9:
            break
    return out, dec, rec


def op_coq(op):
    if op[0] == "local":
        return "(OLocal %s)" % PL.event_coq(op[1])
    return "(ORemote %s)" % PL.note_coq(op[1])


def case_coq(cfg, ops):
    from common import clist
    return "(%s, %s)" % (PL.config_coq(cfg), clist([op_coq(o) for o in ops]))
