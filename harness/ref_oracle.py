"""The documented run semantics (docs/phenomena.rst + the property text of C01), restated independently of
the Coq model as a table over block kinds, executed on plain Python data.  Used as the property oracle: it
predicts, per event, which runs start / advance / halt / complete and with which history, and is compared with
what the real decider reports.  Predicates are evaluated with predlang.ev_eval on light-weight stand-ins."""
import predlang as PL


class H:
    """stand-in for BoboHistory over event tuples (id, ts, kind, data, ph, pat)"""
    def __init__(self, groups):
        self.g = groups          # list of [group code, [FakeE]]

    def size(self): return sum(len(es) for _, es in self.g)

    def group(self, name):
        for g, es in self.g:
            if PL.gname(g) == name:
                return tuple(es)
        return ()

    def last(self):
        best = None
        for _, es in self.g:
            for e in es:
                if best is None or e.timestamp > best.timestamp:
                    best = e
        return best

    def first(self):
        best = None
        for _, es in self.g:
            for e in es:
                if best is None or e.timestamp < best.timestamp:
                    best = e
        return best

    def added(self, gcode, e):
        gs = [[g, list(es)] for g, es in self.g]
        for ge in gs:
            if ge[0] == gcode:
                ge[1].append(e)
                break
        else:
            gs.append([gcode, [e]])
        return H(gs)

    def enc(self):
        out = [len(self.g)]
        for g, es in self.g:
            out += [g, len(es)] + [e.i for e in es]
        return out


class FakeE:
    def __init__(self, t):
        self.i, self.timestamp, self.kind, d, self.ph, self.pat = t
        self.data = None if d == -1 else d
        self.phenomenon_name, self.pattern_name = PL.phname(self.ph), PL.patname(self.pat)


def _kind(e): return e.kind


PL_kind_of_orig = PL.kind_of


def _kind_of(e):
    return e.kind if isinstance(e, FakeE) else PL_kind_of_orig(e)


PL.kind_of = _kind_of


def matches(block, e, h):
    return any(PL.ev_eval(p, e, h) for p in block["preds"])


def offer(pattern, idx, h, e):
    """One event offered to an active run at block idx.  Returns (outcome, idx', h') with outcome in
    {'wait','advance','halt','complete'}."""
    if not all([PL.ev_eval(p, e, h) for p in pattern["pre"]]):
        return "halt", idx, h
    if any([PL.ev_eval(p, e, h) for p in pattern["halt"]]):
        return "halt", idx, h
    blocks = pattern["blocks"]
    i = idx
    while True:
        b = blocks[i]
        m = matches(b, e, h)
        if b["loop"]:                      # looping block: may repeat; otherwise the next block is tried
            if m:
                return "advance", idx, h.added(b["group"], e)
            if b["strict"]:
                return "halt", idx, h
            i += 1
            continue
        if b["neg"]:                       # negated: advances on the first non-matching event
            if m:
                return ("halt", idx, h) if b["strict"] else ("wait", idx, h)
            return _accept(blocks, i, b, h, e)
        if b["opt"]:                       # optional: may be skipped
            if m:
                return _accept(blocks, i, b, h, e)
            i += 1
            continue
        if m:
            return _accept(blocks, i, b, h, e)
        return ("halt", idx, h) if b["strict"] else ("wait", idx, h)


def _accept(blocks, i, b, h, e):
    h2 = h.added(b["group"], e)
    if i + 1 >= len(blocks):
        return "complete", i + 1, h2
    return "advance", i + 1, h2


class RefDecider:
    def __init__(self, cfg):
        self.cfg = cfg
        self.runs = []       # dicts: id, ph, pat(pattern dict), idx, h   (creation order)
        self.next = 0

    def step(self, et):
        """returns dict(started, advanced, halted, completed) -> lists of (id, ph, pat, idx, hist-enc)"""
        e = FakeE(et)
        rep = dict(started=[], advanced=[], halted=[], completed=[])
        existing = list(self.runs)          # offered to every run that existed before the event
        for r in existing:
            try:
                out, idx, h = offer(r["pat"], r["idx"], r["h"], e)
            except PL.PredRaise:
                continue                    # C14: run left exactly as it was
            if out == "wait":
                continue
            r["idx"], r["h"] = idx, h
            rec = (r["id"], r["ph"], r["pat"]["name"], idx, h.enc())
            if out == "advance":
                rep["advanced"].append(rec)
            else:
                self.runs.remove(r)
                rep["halted" if out == "halt" else "completed"].append(rec)
        for ph, pats in self.cfg["phen"]:
            for p in pats:
                b0 = p["blocks"][0]
                ok = False
                for q in b0["preds"]:
                    try:
                        if PL.ev_eval(q, e, H([])):
                            ok = True
                            break
                    except PL.PredRaise:
                        pass
                if not ok:
                    continue
                rid = self.cfg["idbase"] + self.next
                self.next += 1
                h = H([]).added(b0["group"], e)
                rec = (rid, ph, p["name"], 1, h.enc())
                if len(p["blocks"]) == 1:
                    rep["completed"].append(rec)
                    continue
                if p["single"] and any(r["ph"] == ph and r["pat"]["name"] == p["name"] for r in self.runs):
                    continue                # a singleton pattern starts no run while one is active
                self.runs.append(dict(id=rid, ph=ph, pat=p, idx=1, h=h))
                rep["started"].append(rec)
        return rep

    def active(self):
        return sorted((r["id"], r["ph"], r["pat"]["name"], r["idx"], tuple(r["h"].enc())) for r in self.runs)
