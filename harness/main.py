"""./check <Cxx> [--tier quick|thorough] [--replay <file>]

Per property: (1) re-check the Coq theorems (and regenerated obligations), (2) run the
correspondence between the Coq model and /repo's current working tree, (3) run the property
oracle directly on the implementation to find a concrete failing input, (4) classify against
known_findings.json, write evidence, print VIOLATION / KNOWN-FINDING lines, exit 0/1."""
import argparse
import importlib
import json
import os
import sys
import time
import traceback

sys.path.insert(0, os.path.dirname(os.path.abspath(__file__)))
import common  # noqa: E402


def main():
    ap = argparse.ArgumentParser()
    ap.add_argument("prop")
    ap.add_argument("--tier", default=os.environ.get("VERIF_TIER", "quick"))
    ap.add_argument("--replay")
    ap.add_argument("--no-proof", action="store_true", help="development only: skip the Coq build")
    a = ap.parse_args()
    prop = a.prop
    tier = a.tier if a.tier in ("quick", "thorough") else "quick"
    seed = int(os.environ.get("VERIF_SEED", "20260930"))
    mod = importlib.import_module("p" + prop)

    if a.replay:
        obj = json.load(open(a.replay))
        return mod.replay(obj)

    t0 = time.time()
    ctx = common.Ctx(prop, tier, seed)
    violations = []   # (replay path, suffix)
    known_lines = []

    # 1. proofs
    if a.no_proof:
        pr = dict(ok=True, obligations=0, discharged=0, theorems=[], assumptions=[], log="", failed=[])
    else:
        pr = common.prove(mod.PROPERTY_FILES)

    # 2/3. correspondence + oracle
    res = common.Result()
    crashed = None
    try:
        mod.run(ctx, res)
    except Exception:
        crashed = traceback.format_exc()
        res.errors.append("harness crashed: " + crashed)

    obligations = pr["obligations"] + len(res.gen_obligations)
    discharged = pr["discharged"] + sum(1 for g in res.gen_obligations if g[1])
    broken = []
    if not pr["ok"]:
        broken.append("coq: " + ", ".join(pr["failed"]) + " no longer checks")
    for g in res.gen_obligations:
        if not g[1]:
            broken.append("regenerated obligation %s no longer checks" % g[0])
    if res.mismatches:
        broken.append("correspondence: %d case(s) where model and implementation differ" % len(res.mismatches))
    if res.errors:
        broken.append("machinery: " + "; ".join(e[:300] for e in res.errors[:3]))

    # 4. classify failures found on the implementation
    known = [k for k in common.load_known() if k.get("property") == prop and k.get("status") == "known"]
    known_sigs = {k["signature"]: k for k in known}
    seen_known = {}
    unknown = []
    for f in res.failures:
        if f.get("signature") in known_sigs:
            seen_known.setdefault(f["signature"], f)
        else:
            unknown.append(f)
    for sig, f in seen_known.items():
        known_lines.append("KNOWN-FINDING: property=%s %s [%s]" % (prop, known_sigs[sig]["what"], sig))
    # one replay per distinct signature (at most 5)
    bysig = {}
    for f in unknown:
        bysig.setdefault(f.get("signature", "unclassified"), f)
    for sig, f in list(bysig.items())[:5]:
        path = common.write_replay(prop, dict(property=prop, kind="failing-input", signature=sig,
                                              what=f.get("what"), case=f.get("case"),
                                              detail=f.get("detail"), seed=seed, tier=tier))
        violations.append((path, ""))
    if broken and not unknown:
        # A proof / obligation / correspondence no longer checks, and the search found no failing input
        # (known findings do not explain a broken tie).
        obj = dict(property=prop, kind="unchecked", no_longer_checks=broken,
                   theorems=pr["theorems"], coq_log_tail=pr["log"][-3000:] if not pr["ok"] else "",
                   gen_obligations=[dict(name=g[0], ok=g[1], log=g[2][-2000:]) for g in res.gen_obligations
                                    if not g[1]],
                   mismatches=res.mismatches[:5], errors=res.errors[:5], seed=seed, tier=tier)
        path = common.write_replay(prop, obj)
        violations.append((path, " no-failing-input-found"))

    wall = time.time() - t0
    meta = getattr(mod, "META", {})
    cov = dict(
        obligations=obligations, discharged=discharged,
        checker_cmd="cd /verif/coq && coq_makefile -f _CoqProject -o Makefile && make %s && coqc -Q . Bobo %s"
                    % (" ".join(f[:-2] + ".vo" for f in mod.PROPERTY_FILES), " ".join(mod.PROPERTY_FILES)),
        trusted_base=["Coq 8.16.1 kernel + vm_compute (no native_compute)"]
                     + ["Print Assumptions: " + x for x in pr["assumptions"]]
                     + meta.get("trusted_base", []),
        theorems=pr["theorems"] + [g[0] for g in res.gen_obligations],
        evaluations=res.evaluations, distinct_nontrivial=len(res.nontrivial),
        rule=res.rule or meta.get("rule", ""), samples=res.samples[:6] or ["(none)"],
        traces_validated_against_impl=res.traces_validated,
        disagreements_checked=len(res.mismatches),
        implementation_failures=len(res.failures), known_findings_seen=sorted(seen_known),
        input_distribution=res.distribution, exhaustive=res.exhaustive,
        no_longer_checks=broken)
    cov.update(res.extra)
    ev = dict(property_id=prop, tier=tier, seed=seed, level="proof", coverage=cov,
              assumptions=meta.get("assumptions", []) + res.assumptions,
              wall_s=round(wall, 2), violations=len(violations))
    common.write_evidence(prop, ev)

    for line in known_lines:
        print(line)
    for path, suffix in violations:
        print("VIOLATION property=%s replay=%s%s" % (prop, path, suffix))
    print("%s %s: theorems %d/%d, cases %d (distinct non-trivial %d), corr mismatches %d, "
          "impl failures %d (known %d), %.1fs"
          % (prop, tier, discharged, obligations, res.evaluations, len(res.nontrivial),
             len(res.mismatches), len(res.failures), len(res.failures) - len(unknown), wall))
    if crashed:
        print(crashed, file=sys.stderr)
    return 1 if violations else 0


if __name__ == "__main__":
    sys.exit(main())
