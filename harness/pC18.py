"""C18 Validators gate the stream consistently.

Values are described by JSON-able recipes (so that a failing case can be written to a replay file),
built into real Python objects, pushed bare and wrapped in every event kind through a real
BoboReceiver configured with every validator class, and observed at two recording subscribers.
The Coq model (Model/Validator.v, run_C18) is evaluated on an encoding of the same objects."""
import itertools
import json
import sys
from decimal import Decimal

import common
from common import zs, zz, clist, cbool

PROP = "C18"
PROPERTY_FILES = ["Properties/C18.v"]
META = dict(
    level_text="Theorems (Coq, closed under the global context) over the model of validator.py and of "
               "BoboReceiver._process_data/update: for every validator (All, JSONable, Type with any type list and "
               "either subtype flag, JSONSchema with any schema - a schema is jsonschema's answer on every value), "
               "every value (unbounded nesting, ints of any size, NaN/inf, tuples, non-string keys, bytes/sets/"
               "objects, cyclic and over-deep containers), every event kind, every queue content and every generator "
               "result: a datum whose verdict is not True publishes nothing; every published event stems from an "
               "accepted datum and carries its data; an accepted bare datum becomes exactly the simple event "
               "(next id, next timestamp, the datum); an accepted event is published as it is; streams keep order "
               "with one event per accepted datum; the verdict depends only on the carried data (wrapped = bare); "
               "whatever JSONable/JSONSchema accept satisfies the model of json.dumps and the published event "
               "serialises. The pinned-commit JSONSchema validator is refuted (D15) by `type: integer` with 3 "
               "bare/in an event and by `{}` with a set. Tie to the code: every generated (validator, value, "
               "wrapping) is run through a real BoboReceiver and through the model inside Coq, compared on verdict, "
               "number/kind/identity/id/timestamp of published events and to_json_str success; an independent "
               "oracle checks the property's sentences on the implementation alone, also through "
               "on_producer_update/on_forwarder_update/gen_event and through an engine built by BoboSetupSimple.",
    level_note="Carried by correspondence only: that CPython's json.dumps and isinstance behave as `jsonable` / "
               "`isinstance` of the model say (compared on every generated value), and jsonschema's verdict, which "
               "enters the model as an oracle value computed by calling jsonschema on the unwrapped data. An event "
               "whose data is itself an event is outside the model.",
    rule="values: fixed corpus (JSON scalars, NaN/inf, ints around the 4300-digit str() limit, unicode/surrogate "
         "strings, lists/tuples/dicts nested up to 6, non-string keys incl. tuple/frozenset/bytes/object keys, "
         "bytes, set, frozenset, Decimal, user objects, self-containing lists/dicts, a 100000-deep list) plus seeded "
         "random trees over the same alphabet; each value bare and inside BoboEventSimple/Complex/Action; "
         "validators: All, JSONable, Type x 18 type lists x subtype on/off, JSONSchema x 15 schemas (one invalid); "
         "random mixed streams of 3-8 data through one receiver. non-trivial = the value is not a plain JSON "
         "scalar, or some step of the case is rejected",
    trusted_base=["harness: recipes -> Python objects, encoding of Python objects into Coq pyval terms, scripted "
                  "id/timestamp generators, recording subscribers",
                  "CPython json.dumps / isinstance as modelled by jsonable / isinstance (checked per case)",
                  "jsonschema: its verdict on the unwrapped data is an input of the model"],
    assumptions=["jsonschema's answer depends on the instance and the schema only (it is a function of the value)",
                 "sys.get_int_max_str_digits() is the CPython default 4300",
                 "event data are not themselves BoboEvent instances",
                 "the timestamp of a published event is an int str() can print (premise of the serialisation "
                 "theorem)"])


# ---------------------------------------------------------------------------- values
class O:
    pass


class OChild(O):
    pass


_DEEP = None


def deep_value():
    global _DEEP
    if _DEEP is None:
        d = []
        for _ in range(100000):
            d = [d]
        _DEEP = d
    return _DEEP


def build(r):
    t = r[0]
    if t == "none":
        return None
    if t == "bool":
        return bool(r[1])
    if t == "int":
        return int(r[1])
    if t == "pow10":                       # sign * 10**exp + delta
        return r[2] * 10 ** r[1] + r[3]
    if t == "float":
        return float(r[1])
    if t == "str":
        return r[1]
    if t == "list":
        return [build(x) for x in r[1]]
    if t == "tuple":
        return tuple(build(x) for x in r[1])
    if t == "dict":
        return {build(k): build(v) for k, v in r[1]}
    if t == "bytes0":                      # falsy (empty / zero) values that json cannot encode
        return b""
    if t == "set0":
        return set()
    if t == "frozenset0":
        return frozenset()
    if t == "decimal0":
        return Decimal("0")
    if t == "bytes":
        return b"ab"
    if t == "set":
        return {1, 2}
    if t == "frozenset":
        return frozenset([1])
    if t == "decimal":
        return Decimal("1.5")
    if t == "obj":
        return O()
    if t == "objchild":
        return OChild()
    if t == "cyclist":                     # a list that contains itself
        lst = [build(x) for x in r[1]]
        lst.append(lst)
        return lst
    if t == "cycdict":                     # a dict that contains itself
        d = {build(k): build(v) for k, v in r[1]}
        d["self"] = d
        return d
    if t == "cyc2":                        # a list containing a dict containing the list
        lst = []
        lst.append({"a": lst})
        return lst
    if t == "deep":
        return deep_value()
    raise ValueError(r)


OPAQUE = {bytes: "OBytes", set: "OSet", frozenset: "OFrozenset", Decimal: "ODecimal", O: "OUser",
          OChild: "OUserChild"}


BIGS = {}            # ints too long to repeat in every term: defined once per generated file
INLINE_BIG = [False]


def zlit(v):
    if abs(v) < 2 ** 62:
        return zz(v)
    lit = "(-%s)" % hex(-v) if v < 0 else hex(v)      # hex(): no 4300-digit limit
    if INLINE_BIG[0] or abs(v) < 2 ** 256:
        return lit
    if v not in BIGS:
        BIGS[v] = ("big%d" % len(BIGS), lit)
    return BIGS[v][0]


def big_preamble():
    return "\n".join("Definition %s : Z := %s." % nl for nl in BIGS.values())


def enc(v, path=(), depth=0):
    """Python object -> Coq term of type pyval (what json.dumps / isinstance can tell apart)."""
    if depth > 40:
        return "VDeep"
    if v is None:
        return "VNone"
    t = type(v)
    if t is bool:
        return "(VBool %s)" % cbool(v)
    if t is int:
        return "(VInt %s)" % zlit(v)
    if t is float:
        if v != v:
            return "(VFloat FNan)"
        if v in (float("inf"), float("-inf")):
            return "(VFloat %s)" % ("FPosInf" if v > 0 else "FNegInf")
        return "(VFloat FFinite)"
    if t is str:
        return "(VStr %s)" % zs([ord(c) for c in v])
    if t is list or t is tuple:
        if t is list and id(v) in path:
            return "(VCyclic false)"
        p = path + (id(v),)
        return "(%s %s)" % ("VList" if t is list else "VTuple", clist([enc(x, p, depth + 1) for x in v]))
    if t is dict:
        if id(v) in path:
            return "(VCyclic true)"
        p = path + (id(v),)
        return "(VDict %s)" % clist(["(%s, %s)" % (enc(k, p, depth + 1), enc(x, p, depth + 1))
                                     for k, x in v.items()])
    if t in OPAQUE:
        return "(VOpaque %s)" % OPAQUE[t]
    raise ValueError("no encoding for %r" % t)


def plain_scalar(r):
    return r[0] in ("none", "bool", "int", "str") or (r[0] == "float" and r[1] not in ("nan", "inf", "-inf"))


I = lambda n: ["int", n]          # noqa: E731
S = lambda s: ["str", s]          # noqa: E731
L = lambda *xs: ["list", list(xs)]    # noqa: E731
T = lambda *xs: ["tuple", list(xs)]   # noqa: E731
D = lambda *kvs: ["dict", [list(kv) for kv in kvs]]   # noqa: E731

CORPUS = [
    I(3), ["set"], ["none"], ["bool", True], ["bool", False], I(0), I(-7), I(2 ** 70), I(1),
    ["float", "1.5"], ["float", "3.0"], ["float", "2.0"], ["float", "nan"], ["float", "inf"], ["float", "-inf"],
    S(""), S("a"), S("hé€\ud800\n\"\\"), ["bytes"], ["frozenset"], ["decimal"], ["obj"], ["objchild"],
    ["bytes0"], ["set0"], ["frozenset0"], ["decimal0"], L(["bytes0"]), D((S("a"), ["set0"])), ["float", "0.0"], ["float", "-0.0"],
    L(), L(I(1), I(2)), L(S("x"), ["none"]), T(), T(I(1), I(2)), T(S("a")), D(), D((S("a"), I(1))),
    D((S("a"), L(I(1), I(2)))), D((S("forename"), S("Foo")), (S("surname"), S("Bar"))), D((S("forename"), S("Foo"))),
    D((S("a"), S("x")), (S("b"), I(2))),
    # keys that are not strings
    D((I(1), I(2))), D((["float", "1.5"], I(2))), D((["bool", True], I(1))), D((["none"], I(1))),
    D((["float", "nan"], I(1))), D((T(I(1), I(2)), I(3))), D((["frozenset"], I(1))), D((["bytes"], I(1))),
    D((["obj"], I(1))), D((["decimal"], I(1))), D((T(), ["none"])), D((S("k"), D((I(5), D((T(I(1)), I(1))))))),
    D((I(1), S("a")), (["bool", True], S("b")), (["float", "1.0"], ["set"])),
    # containers holding something json cannot encode
    L(["set"]), T(["bytes"]), D((S("a"), ["set"])), D((S("a"), L(I(1), D((S("b"), ["obj"]))))), L(L(L(["decimal"]))),
    T(L(I(1), T(I(2), I(3))), D((S("a"), T(["none"])))), L(["float", "nan"], T(["float", "inf"])),
    # self-containing
    ["cyclist", []], ["cyclist", [I(1)]], ["cycdict", []], ["cycdict", [[S("a"), I(1)]]], ["cyc2"],
    L(["cyclist", []]), D((S("a"), ["cyclist", [I(1)]])), T(["cycdict", []]),
    # over-deep
    ["deep"], L(["deep"]), D((S("a"), ["deep"])),
    # the str(int) limit of CPython (4300 digits)
    ["pow10", 4299, 1, 0], ["pow10", 4300, 1, -1], ["pow10", 4300, 1, 0], ["pow10", 4300, -1, 1],
    ["pow10", 4300, -1, 0], ["pow10", 4310, 1, 7], L(["pow10", 4300, 1, 0]), D((["pow10", 4300, 1, 0], I(1))),
    D((["pow10", 4300, 1, -1], I(1))),
    # nesting
    L(L(L(L(L(I(1)))))), D((S("a"), D((S("b"), D((S("c"), D((S("d"), L(I(1), I(2), D((S("e"), ["none"]))))))))))),
    L(I(1), S("a"), ["none"], L(I(1), I(2))), L(I(1), L(I(2), L(I(3), T(I(4), D((S("z"), ["float", "0.5"])))))),
    D((S("a"), L(I(1), I(2), I(3)))), D((S("a"), L(I(1), S("x")))), L(I(5), I(6)), L(I(1), ["float", "2.5"]),
    I(5), I(2), ["float", "7.25"], S("b"), L(["bool", True]), L(I(1), ["bool", False]),
]

LEAVES_JSON = [["none"], ["bool", True], ["bool", False], I(0), I(1), I(3), I(-2), I(12345678901234567890),
               ["float", "0.5"], ["float", "3.0"], ["float", "nan"], ["float", "inf"], ["float", "-inf"],
               S(""), S("a"), S("b"), S("é")]
LEAVES_OTHER = [["bytes"], ["set"], ["frozenset"], ["decimal"], ["obj"], ["objchild"], ["bytes0"], ["set0"], ["frozenset0"],
                ["decimal0"], ["cyclist", []],
                ["cycdict", []], ["pow10", 4300, 1, 0]]
KEYS_JSON = [S("a"), S("b"), S("c"), S(""), I(1), I(0), ["float", "1.5"], ["bool", True], ["none"], ["float", "nan"]]
KEYS_OTHER = [T(I(1), I(2)), T(), ["frozenset"], ["bytes"], ["obj"], ["decimal"], ["pow10", 4300, 1, 0]]


def rand_value(rng, depth, p_other):
    x = rng.random()
    if depth <= 0 or x < 0.3:
        if rng.random() < p_other:
            return rng.choice(LEAVES_OTHER)
        return rng.choice(LEAVES_JSON)
    n = rng.choice([0, 1, 1, 2, 2, 3])
    if x < 0.55:
        return ["list", [rand_value(rng, depth - 1, p_other) for _ in range(n)]]
    if x < 0.7:
        return ["tuple", [rand_value(rng, depth - 1, p_other) for _ in range(n)]]
    kvs = []
    for _ in range(n):
        k = rng.choice(KEYS_OTHER) if rng.random() < p_other else rng.choice(KEYS_JSON)
        kvs.append([k, rand_value(rng, depth - 1, p_other)])
    return ["dict", kvs]


# ---------------------------------------------------------------------------- validators
TYPES = {
    "object": (object, "TyObject"), "NoneType": (type(None), "TyNone"), "bool": (bool, "TyBool"),
    "int": (int, "TyInt"), "float": (float, "TyFloat"), "str": (str, "TyStr"), "list": (list, "TyList"),
    "tuple": (tuple, "TyTuple"), "dict": (dict, "TyDict"), "bytes": (bytes, "(TyOpaque OBytes)"),
    "set": (set, "(TyOpaque OSet)"), "frozenset": (frozenset, "(TyOpaque OFrozenset)"),
    "Decimal": (Decimal, "(TyOpaque ODecimal)"), "O": (O, "(TyOpaque OUser)"),
    "OChild": (OChild, "(TyOpaque OUserChild)"),
}
TYPE_LISTS = [["int"], ["bool"], ["float"], ["str"], ["list"], ["tuple"], ["dict"], ["NoneType"], ["object"],
              ["int", "str"], ["bool", "float"], ["list", "dict", "tuple"], ["bytes", "set"],
              ["frozenset", "Decimal"], ["O"], ["OChild"], ["O", "int"], []]
SCHEMAS = {
    "any": {},
    "integer": {"type": "integer"},
    "string": {"type": "string"},
    "object": {"type": "object"},
    "array": {"type": "array"},
    "number": {"type": "number"},
    "boolean": {"type": "boolean"},
    "null": {"type": "null"},
    "required": {"type": "object", "required": ["forename", "surname"],
                 "properties": {"forename": {"type": "string"}, "surname": {"type": "string"}}},
    "minimum": {"minimum": 3},
    "enum": {"enum": [1, "a", None, [1, 2]]},
    "items": {"type": "array", "items": {"type": "integer"}},
    "nested": {"type": "object", "properties": {"a": {"type": "array", "items": {"type": "integer"}}},
               "required": ["a"]},
    "intornull": {"type": ["integer", "null"]},
    "invalid": {"type": 12},
}
VALIDATORS = ([["schema", "integer"], ["schema", "any"], ["all"], ["jsonable"]]
              + [["schema", n] for n in SCHEMAS if n not in ("integer", "any")]
              + [["type", tl, sub] for tl in TYPE_LISTS for sub in (True, False)])


def make_validator(spec):
    import bobocep.cep.engine.receiver.validator as V
    if spec[0] == "all":
        return V.BoboValidatorAll()
    if spec[0] == "jsonable":
        return V.BoboValidatorJSONable()
    if spec[0] == "type":
        return V.BoboValidatorType([TYPES[n][0] for n in spec[1]], subtype=spec[2])
    return V.BoboValidatorJSONSchema(SCHEMAS[spec[1]])


def is_json_validator(spec):
    return spec[0] in ("jsonable", "schema")


def vspec_term(spec):
    if spec[0] == "all":
        return "SAll"
    if spec[0] == "jsonable":
        return "SJSONable"
    if spec[0] == "type":
        return "(SType %s %s)" % (clist([TYPES[n][1] for n in spec[1]]), cbool(spec[2]))
    return "SSchema"


def py_jsonable(v):
    try:
        json.dumps(v)
        return True
    except (RecursionError, TypeError, ValueError):
        return False


def schema_answer(name, v):
    """jsonschema's own verdict on the unwrapped data: 'T' / 'F' / 'S' (SchemaError) / 'X' (anything else)."""
    import jsonschema
    try:
        jsonschema.validate(instance=v, schema=SCHEMAS[name])
        return "T"
    except jsonschema.exceptions.ValidationError:
        return "F"
    except jsonschema.exceptions.SchemaError:
        return "S"
    except Exception:                      # e.g. RecursionError while formatting the error message
        return "X"


# ---------------------------------------------------------------------------- implementation driver
KIND_TERM = {"simple": "KSimple", "complex": "KComplex", "action": "KAction"}


def wrap(kind, data, eid, ts):
    from bobocep.cep.event import BoboEventSimple, BoboEventComplex, BoboEventAction, BoboHistory
    if kind == "simple":
        return BoboEventSimple(event_id=eid, timestamp=ts, data=data)
    if kind == "complex":
        return BoboEventComplex(event_id=eid, timestamp=ts, data=data, phenomenon_name="ph", pattern_name="pa",
                                history=BoboHistory({"g": [BoboEventSimple("h1", 1, 0)]}))
    return BoboEventAction(event_id=eid, timestamp=ts, data=data, phenomenon_name="ph", pattern_name="pa",
                           action_name="ac", success=True)


def kind_code(ev):
    from bobocep.cep.event import BoboEventSimple, BoboEventComplex, BoboEventAction
    return {BoboEventSimple: 0, BoboEventComplex: 1, BoboEventAction: 2}.get(type(ev), 9)


def serialises(ev):
    try:
        json.loads(ev.to_json_str())
        return True
    except Exception:
        return False


def observe(case):
    """Run one case on the implementation.  case = dict(validator=spec, supply=[[id, ts], ...],
    steps=[dict(value=recipe, wrap=None|kind, eid=, ets=, route=)]).  Returns a list of per-step observations."""
    from bobocep.cep.engine.receiver.receiver import BoboReceiver
    from bobocep.cep.engine.receiver.pubsub import BoboReceiverSubscriber
    from bobocep.cep.engine.receiver.validator import BoboValidatorError, BoboValidator
    from bobocep.cep.gen.event_id import BoboGenEventID
    from bobocep.cep.gen.timestamp import BoboGenTimestamp

    supply = case["supply"]

    class Ids(BoboGenEventID):
        def __init__(self):
            self.n = 0

        def generate(self):
            self.n += 1
            return supply[self.n - 1][0] if self.n <= len(supply) else "exhausted%d" % self.n

    class Stamps(BoboGenTimestamp):
        def __init__(self):
            self.n = 0

        def generate(self):
            self.n += 1
            return supply[self.n - 1][1] if self.n <= len(supply) else -self.n

    class Rec(BoboReceiverSubscriber):
        def __init__(self):
            self.events = []

        def on_receiver_update(self, event):
            self.events.append(event)

    try:
        inner = make_validator(case["validator"])
    except BoboValidatorError:
        return None                         # a schema refused at construction: nothing to observe

    class Spy(BoboValidator):
        """the configured validator, recording the verdicts the receiver obtains from it"""
        def __init__(self):
            self.calls = []

        def is_valid(self, data):
            try:
                r = inner.is_valid(data)
            except BaseException as e:      # noqa
                self.calls.append((data, "raise:" + type(e).__name__))
                raise
            self.calls.append((data, bool(r)))
            return r

    validator = Spy()
    receiver = BoboReceiver(validator=validator, gen_event_id=Ids(), gen_timestamp=Stamps())
    s1, s2 = Rec(), Rec()
    receiver.subscribe(s1)
    receiver.subscribe(s2)
    out = []
    for st in case["steps"]:
        data = build(st["value"])
        datum = data if st.get("wrap") is None else wrap(st["wrap"], data, st["eid"], st["ets"])
        o = dict(data=data, datum=datum)
        n1, n2 = len(s1.events), len(s2.events)
        del validator.calls[:]
        o["update_raised"] = None
        try:
            route = st.get("route", "add_data")
            if route == "producer":
                receiver.on_producer_update(event=datum, local=True)
            elif route == "forwarder":
                receiver.on_forwarder_update(event=datum)
            else:
                receiver.add_data(datum)
            receiver.update()
        except BaseException as e:          # noqa
            o["update_raised"] = type(e).__name__
        # the verdict the receiver obtained; if it did not ask exactly once about this datum, ask ourselves
        if len(validator.calls) == 1 and validator.calls[0][0] is datum:
            o["verdict"] = validator.calls[0][1]
        else:
            o["asked"] = len(validator.calls)
            try:
                o["verdict"] = bool(inner.is_valid(datum))
            except BaseException as e:      # noqa
                o["verdict"] = "raise:" + type(e).__name__
        o["events"] = s1.events[n1:]
        o["events2"] = s2.events[n2:]
        o["queue_left"] = receiver.size()
        out.append(o)
    return out


def same_data(a, b):
    if a is b:
        return True
    try:
        return type(a) is type(b) and enc(a) == enc(b)
    except ValueError:
        return False


def verdict_code(v):
    if v is True:
        return 1
    if v is False:
        return 0
    return 2 if v == "raise:BoboValidatorError" else 3


def expected(obs):
    """The implementation's observations in the model's encoding (Validator.encode_step)."""
    out = []
    for o in obs:
        out.append(verdict_code(o["verdict"]))
        evs, evs2 = o["events"], o["events2"]
        if len(evs) != len(evs2) or any(a is not b for a, b in zip(evs, evs2)):
            out.append(99)
        elif o["update_raised"] is not None and not str(o["verdict"]).startswith("raise") or o["queue_left"]:
            out.append(98)
        elif len(evs) != 1:
            out.append(len(evs))
        else:
            ev = evs[0]
            ts = ev.timestamp if type(ev.timestamp) is int else -99
            eid = ev.event_id if type(ev.event_id) is str else "?"
            out += [1, kind_code(ev), int(same_data(ev.data, o["data"])), int(ev is o["datum"]),
                    int(serialises(ev))]
            out.append(ts)
            out += [ord(c) for c in eid] + [-1]
    return out


def ans_term(a):
    return {"T": "PTrue", "F": "PFalse", "S": "PRaise"}.get(a, "PFalse")


def coq_input(case, obs, answers):
    sup = clist(["(%s, %s)" % (zs([ord(c) for c in i]), zlit(t)) for i, t in case["supply"]])
    steps = []
    for st, o, a in zip(case["steps"], obs, answers):
        v = enc(o["data"])
        if st.get("wrap") is None:
            d = "Bare %s" % v
        else:
            d = "Ev (mkEv %s %s %s %s)" % (KIND_TERM[st["wrap"]], zs([ord(c) for c in st["eid"]]), zlit(st["ets"]), v)
        steps.append("(%s, %s)" % (d, ans_term(a)))
    return "(%s, %s, %s)" % (vspec_term(case["validator"]), sup, clist(steps))


COQ_TYPE = "(vspec * list (list Z * Z) * list (datum * pres))"


# ---------------------------------------------------------------------------- the property, on the implementation alone
def printable_int(n):
    try:
        str(n)
        return type(n) is int
    except ValueError:
        return False


def reference_verdict(spec, data, answer):
    """What the configured validator stands for, said without the implementation: json.dumps succeeds /
    isinstance or exact type / jsonschema's own answer on data json.dumps accepts.  None = not fixed here."""
    if spec[0] == "all":
        return True
    if spec[0] == "jsonable":
        return py_jsonable(data)
    if spec[0] == "type":
        ts = [TYPES[n][0] for n in spec[1]]
        return any(isinstance(data, t) for t in ts) if spec[2] else any(type(data) is t for t in ts)
    if not py_jsonable(data):
        return False
    return {"T": True, "F": False}.get(answer)


def judge(case, obs, answers=None):
    """The sentences of the property, checked on the observations of one case; no model involved.
    Returns [(signature, what, [indices of the steps involved])]."""
    from bobocep.cep.event import BoboEventSimple, BoboHistory
    fails = []
    spec = case["validator"]
    invalid_schema = spec[0] == "schema" and spec[1] == "invalid"
    created = []
    by_value = {}
    for i, (st, o) in enumerate(zip(case["steps"], obs)):
        v, evs, evs2 = o["verdict"], o["events"], o["events2"]
        by_value.setdefault(json.dumps(st["value"], sort_keys=True), []).append(i)
        if answers is not None and st.get("wrap") is None and not isinstance(v, str):
            ref = reference_verdict(spec, o["data"], answers[i])
            if ref is not None and ref != v:
                fails.append(("verdict-differs-from-reference-" + spec[0],
                              "the %s validator said %s for data its configuration %s"
                              % (spec[0], v, "accepts" if ref else "rejects"), [i]))
        if answers is not None and answers[i] == "S" and v != "raise:BoboValidatorError" \
                and py_jsonable(o["data"]):
            fails.append(("invalid-schema-not-reported", "is_valid gave %s for an invalid schema instead of raising "
                          "BoboValidatorError" % v, [i]))
        if isinstance(v, str):
            if not (invalid_schema and v == "raise:BoboValidatorError"):
                fails.append(("validator-raised", "is_valid raised %s instead of giving a verdict" % v[6:], [i]))
            if evs or evs2:
                fails.append(("rejected-data-became-event", "is_valid raised, yet an event was published", [i]))
            continue
        if o["update_raised"] is not None:
            fails.append(("receiver-raised", "update() raised %s for a datum with verdict %s"
                          % (o["update_raised"], v), [i]))
            continue
        if len(evs) != len(evs2) or any(a is not b for a, b in zip(evs, evs2)):
            fails.append(("subscribers-disagree", "the subscribers did not receive the same events", [i]))
            continue
        if v is False:
            if evs:
                fails.append(("rejected-data-became-event", "the validator said False, %d event(s) were published"
                              % len(evs), [i]))
            continue
        # accepted
        if len(evs) != 1:
            fails.append(("accepted-data-not-exactly-one-event", "the validator said True, %d events were published"
                          % len(evs), [i]))
            continue
        ev = evs[0]
        if st.get("wrap") is None:
            if type(ev) is not BoboEventSimple:
                fails.append(("accepted-data-not-a-simple-event", "accepted bare data came out as %s"
                              % type(ev).__name__, [i]))
            elif not same_data(ev.data, o["data"]):
                fails.append(("accepted-data-changed", "the simple event does not carry the accepted data", [i]))
            created.append((ev.event_id, ev.timestamp))
        elif ev is not o["datum"]:
            fails.append(("event-not-passed-through", "an accepted %s event did not come out as it went in"
                          % st["wrap"], [i]))
        if is_json_validator(spec) and printable_int(ev.timestamp):
            ok = serialises(ev)
            if ok:
                try:
                    BoboHistory({"g": [ev]}).to_json_str()
                except Exception:
                    ok = False
            if not ok:
                fails.append(("json-validator-accepts-unserialisable",
                              "a JSON validator accepted data whose event cannot be serialised (to_json_str raises)",
                              [i]))
    if created != [tuple(x) for x in case["supply"][:len(created)]]:
        fails.append(("simple-event-id-or-timestamp", "created events do not carry the generators' results in order",
                      list(range(len(obs)))))
    for idxs in by_value.values():
        bare = [i for i in idxs if case["steps"][i].get("wrap") is None]
        for b in bare[:1]:
            for i in idxs:
                if obs[i]["verdict"] != obs[b]["verdict"]:
                    fails.append(("verdict-differs-wrapped-vs-bare",
                                  "the same data: verdict %s bare, %s inside a %s event"
                                  % (obs[b]["verdict"], obs[i]["verdict"], case["steps"][i]["wrap"]), [b, i]))
    return fails


def nodes(r):
    if r[0] in ("list", "tuple", "cyclist"):
        return 1 + sum(nodes(x) for x in r[1])
    if r[0] in ("dict", "cycdict"):
        return 1 + sum(nodes(k) + nodes(v) for k, v in r[1])
    return 1


def case_size(case):
    return (len(case["steps"]), sum(nodes(s["value"]) for s in case["steps"]))


def sub_case(case, idxs):
    return dict(validator=case["validator"], supply=case["supply"], steps=[case["steps"][i] for i in idxs])


# ---------------------------------------------------------------------------- other ways into the receiver / the engine
def other_routes(spec, recipe, res):
    """gen_event route and a whole engine built by BoboSetupSimple: the gate must be the same."""
    from bobocep.cep.engine.receiver.receiver import BoboReceiver
    from bobocep.cep.engine.receiver.pubsub import BoboReceiverSubscriber
    from bobocep.cep.engine.receiver.validator import BoboValidatorError
    from bobocep.cep.gen.event import BoboGenEvent
    from bobocep.cep.gen.event_id import BoboGenEventIDUnique
    from bobocep.cep.gen.timestamp import BoboGenTimestampEpoch
    from bobocep.cep.action import BoboActionHandlerBlocking
    from bobocep.cep.phenom import BoboPatternBuilder, BoboPhenomenon
    from bobocep.setup import BoboSetupSimple
    try:
        validator = make_validator(spec)
    except BoboValidatorError:
        return
    fails = []
    for kind in (None, "simple", "complex", "action"):
        data = build(recipe)
        datum = data if kind is None else wrap(kind, data, "e1", 5)
        try:
            verdict = bool(validator.is_valid(datum))
        except BaseException:               # noqa
            verdict = None                  # reported by the main oracle
        casej = dict(validator=spec, value=recipe, wrap=kind)

        # (a) generated events enter through maybe_generate
        if kind is not None:
            class Gen(BoboGenEvent):
                def __init__(self):
                    self.left = [datum]

                def maybe_generate(self, event_id):
                    return self.left.pop() if self.left else None

            class Rec(BoboReceiverSubscriber):
                def __init__(self):
                    self.events = []

                def on_receiver_update(self, event):
                    self.events.append(event)
            r = BoboReceiver(validator=validator, gen_event_id=BoboGenEventIDUnique("t"),
                             gen_timestamp=BoboGenTimestampEpoch(), gen_event=Gen())
            rec = Rec()
            r.subscribe(rec)
            try:
                r.update()
                r.update()
            except BaseException:           # noqa
                pass
            if verdict is not True and rec.events:
                fails.append(("rejected-data-became-event", "a generated event with rejected data was published",
                              dict(casej, route="gen_event")))
            if verdict is True and not (len(rec.events) == 1 and rec.events[0] is datum):
                fails.append(("event-not-passed-through", "an accepted generated event was not published as it is",
                              dict(casej, route="gen_event")))

        # (b) an engine assembled by BoboSetupSimple with this validator
        seen = []
        pattern = BoboPatternBuilder("p").followed_by(lambda e, h: bool(seen.append(e))).generate()
        engine = BoboSetupSimple(phenomena=[BoboPhenomenon(name="ph", patterns=[pattern], action=None)],
                                 handler=BoboActionHandlerBlocking(), validator=validator).generate()
        try:
            engine.receiver.add_data(datum)
            engine.update()
        except BaseException:               # noqa
            pass
        res.note_case(("engine", json.dumps(spec), json.dumps(recipe), kind), True)
        if verdict is not True and seen:
            fails.append(("rejected-data-reached-decider", "rejected data reached the decider of a BoboSetupSimple "
                          "engine as an event", dict(casej, route="engine")))
        if verdict is True:
            good = len(seen) == 1 and (seen[0] is datum if kind is not None
                                       else (kind_code(seen[0]) == 0 and same_data(seen[0].data, data)))
            if not good:
                fails.append(("accepted-data-not-exactly-one-event", "accepted data did not reach the decider of a "
                              "BoboSetupSimple engine as exactly one event carrying it",
                              dict(casej, route="engine")))
    for sig, what, c in fails:
        res.failures.append(dict(signature=sig, what=what, case=c, detail=None))


def setup_defaults(res):
    """informational: which validator the two setups install when none is given"""
    try:
        from bobocep.cep.action import BoboActionHandlerBlocking
        from bobocep.cep.phenom import BoboPatternBuilder, BoboPhenomenon
        from bobocep.dist.device import BoboDevice
        from bobocep.setup.simple import BoboSetupSimple, BoboSetupSimpleDistributed
        pattern = BoboPatternBuilder("p").followed_by(lambda e, h: False).generate()
        ph = [BoboPhenomenon(name="ph", patterns=[pattern], action=None)]
        e1 = BoboSetupSimple(phenomena=ph, handler=BoboActionHandlerBlocking()).generate()
        devs = [BoboDevice(addr="127.0.0.1", port=8081 + i, urn="urn:%d" % i, id_key="key_%d" % i) for i in (0, 1)]
        e2, _ = BoboSetupSimpleDistributed(phenomena=ph, handler=BoboActionHandlerBlocking(), urn="urn:0",
                                           devices=devs, aes_key="1234567890ABCDEF").generate()
        res.extra["default_validator_simple"] = type(e1.receiver._validator).__name__
        res.extra["default_validator_distributed"] = type(e2.receiver._validator).__name__
    except Exception as e:                  # informational only
        res.extra["default_validator_probe"] = "not available: %s" % type(e).__name__


# ---------------------------------------------------------------------------- run
def four_steps(recipe, k, feed_back):
    """the value bare and inside each event kind, through one receiver"""
    return [dict(value=recipe, wrap=None),
            dict(value=recipe, wrap="simple", eid="e%d" % k, ets=10 + k),
            dict(value=recipe, wrap="complex", eid="c%d" % k, ets=20 + k,
                 route="producer" if feed_back else "add_data"),
            dict(value=recipe, wrap="action", eid="a%d" % k, ets=30 + k,
                 route="forwarder" if feed_back else "add_data")]


def run(ctx, res):
    rng = ctx.rng
    common.impl_modules_fresh()
    res.rule = META["rule"]
    big_ok = sys.get_int_max_str_digits() == 4300
    corpus = [r for r in CORPUS if big_ok or "pow10" not in json.dumps(r)]
    n_rand = 200 if ctx.quick else 3000
    values = list(corpus)
    seen_vals = {json.dumps(r, sort_keys=True) for r in values}
    while len(values) < len(corpus) + n_rand:
        r = rand_value(rng, rng.choice([1, 2, 3, 4, 5]), rng.choice([0.0, 0.1, 0.3]))
        if not big_ok and "pow10" in json.dumps(r):
            continue
        key = json.dumps(r, sort_keys=True)
        if key not in seen_vals:
            seen_vals.add(key)
            values.append(r)

    cases = []
    k = 0
    for vi, recipe in enumerate(values):
        if vi < len(corpus) or ctx.quick is False and vi % 4 == 0:
            specs = VALIDATORS
        else:   # random values: All, JSONable and a sample of the schema and Type validators
            specs = ([["all"], ["jsonable"]] + rng.sample([s for s in VALIDATORS if s[0] == "schema"], 5)
                     + rng.sample([s for s in VALIDATORS if s[0] == "type"], 6))
        for spec in specs:
            k += 1
            cases.append(dict(validator=spec, supply=[["g%d" % (k % 97), 1000 + k], ["g%d_1" % (k % 97), 7]],
                              steps=four_steps(recipe, k % 50, k % 2 == 0)))
    # mixed streams through one receiver
    for _ in range(400 if ctx.quick else 8000):
        spec = rng.choice(VALIDATORS)
        n = rng.randint(3, 8)
        steps = []
        for j in range(n):
            recipe = rng.choice(values)
            w = rng.choice([None, None, "simple", "complex", "action"])
            st = dict(value=recipe, wrap=w)
            if w is not None:
                st.update(eid="%s%d" % (w[0], j), ets=rng.choice([0, 5, -3, 1700000000000, j]))
            steps.append(st)
        cases.append(dict(validator=spec, steps=steps,
                          supply=[["s%d" % rng.randint(0, 9), rng.choice([1, 2, 1700000000123, -4, j])]
                                  for j in range(n)]))
    # ONE validator instance judging values that compare equal in Python but are different JSON values
    # (1 / True / 1.0, 0 / False / 0.0), in every order: the verdict depends on the datum only, not on what the
    # instance judged before
    import itertools
    for spec in VALIDATORS:
        for grp in ([["int", 1], ["bool", True], ["float", 1.0]], [["int", 0], ["bool", False], ["float", 0.0]]):
            for perm in itertools.permutations(grp):
                steps = []
                for j, recipe in enumerate(perm):
                    steps.append(dict(value=list(recipe), wrap=None))
                    steps.append(dict(value=list(recipe), wrap="simple", eid="q%d" % j, ets=40 + j))
                cases.append(dict(validator=spec, steps=steps, supply=[["h%d" % j, 2000 + j] for j in range(len(steps))]))
    coq_cases, kept = [], []
    skipped = 0
    ans_cache = {}
    for case in cases:
        obs = observe(case)
        if obs is None:
            skipped += 1
            res.count("skipped_schema_refused_at_construction")
            continue
        spec = case["validator"]
        answers = []
        skip = False
        for st, o in zip(case["steps"], obs):
            if spec[0] != "schema":
                answers.append("F")
                continue
            key = (spec[1], json.dumps(st["value"], sort_keys=True))
            if key not in ans_cache:
                a = schema_answer(spec[1], o["data"])
                if a == "X" and py_jsonable(o["data"]):
                    a = "skip"
                ans_cache[key] = a
            answers.append(ans_cache[key])
            skip = skip or ans_cache[key] == "skip"
        rejected = any(o["verdict"] is not True for o in obs)
        res.note_case((json.dumps(spec), json.dumps([(s["value"], s.get("wrap")) for s in case["steps"]])),
                      rejected or any(not plain_scalar(s["value"]) for s in case["steps"]))
        res.count("validator_" + spec[0])
        for st, o in zip(case["steps"], obs):
            res.count("wrap_%s" % st.get("wrap"))
            res.count("verdict_%s" % o["verdict"])
            res.count("value_%s" % st["value"][0])
        # the property on the implementation
        for sig, what, idxs in judge(case, obs, answers):
            sc = sub_case(case, idxs)
            if sig == "simple-event-id-or-timestamp":
                sc = case
            res.failures.append(dict(signature=sig, what=what, case=sc,
                                     detail=dict(verdicts=[str(obs[i]["verdict"]) for i in idxs])))
        if skip:
            skipped += 1
            res.count("skipped_jsonschema_raised_on_json_data")
            continue
        # an invalid schema with data json.dumps refuses: raising and returning False are both admissible
        # (the property fixes "no event" and "same verdict wrapped or bare", checked by judge)
        if spec == ["schema", "invalid"] and not all(py_jsonable(o["data"]) for o in obs):
            res.count("oracle_only_invalid_schema_nonjson")
            continue
        coq_cases.append((coq_input(case, obs, answers), expected(obs)))
        kept.append(case)
    res.extra["cases_skipped"] = skipped
    res.samples = [dict(validator=c["validator"], steps=c["steps"]) for c in (kept[:2] + kept[len(kept) // 2:][:2])]

    mism, errs = common.coq_run_cases("C18", "Model.Validator", "run_C18", COQ_TYPE, coq_cases,
                                      shard=250, preamble=big_preamble())
    res.errors += errs
    res.traces_validated = len(coq_cases) - len(mism)
    mism.sort(key=lambda m: case_size(kept[m[0]]))
    for idx, model_out in mism[:20]:
        c = kept[idx]
        res.mismatches.append(dict(case=c, impl=expected(observe(c)), model=model_out))

    # other ways in: gen_event, and a whole engine from BoboSetupSimple
    route_values = corpus[:14] + [r for r in corpus if r[0] in ("cyclist", "deep", "tuple", "dict")][:8]
    if not ctx.quick:
        route_values = corpus
    for spec in VALIDATORS:
        for recipe in (route_values if spec[0] != "type" else route_values[:6]):
            other_routes(spec, recipe, res)
    setup_defaults(res)
    shared_half(res, corpus)
    nested_half(res)
    dotdata_half(res)
    changed_before_update_half(res)
    full_queue_feedback_half(res)

    res.failures.sort(key=lambda f: (case_size(f["case"]) if "steps" in f["case"]
                                     else (1, nodes(f["case"]["value"])) if "value" in f["case"] else (1, 1)))
    del res.failures[2000:]


# ---------------------------------------------------------------------------- data that look like an event (".data")
def dotdata_values():
    """ordinary values that are NOT events but have an attribute called `data` (a validator unwraps events, nothing
    else): name -> value"""
    import collections
    import types

    class Record:                          # an application record with a field called data
        def __init__(self, data):
            self.data = data
    return {"UserDict": collections.UserDict({"a": 1}), "UserList": collections.UserList([1, 2]),
            "UserString": collections.UserString("abc"), "Namespace(data=3)": types.SimpleNamespace(data=3),
            "Record(data={})": Record({}), "Record(data=None)": Record(None), "memoryview-free bytes holder": Record(b"x")}


def dotdata_case(spec, name, wrapping):
    """-> failure text | None.  Verdict as the validator class documents it for the VALUE ITSELF (json.dumps of it /
    its type / accept all), the same bare and wrapped, and if accepted: one event carrying it, serialisable for a JSON
    validator"""
    from bobocep.cep.engine.receiver.receiver import BoboReceiver
    from bobocep.cep.engine.receiver.pubsub import BoboReceiverSubscriber
    from bobocep.cep.gen.event_id import BoboGenEventIDUnique
    from bobocep.cep.gen.timestamp import BoboGenTimestampEpoch
    import bobocep.cep.engine.receiver.validator as V
    v = dotdata_values()[name]
    try:
        val = make_validator(spec)
    except V.BoboValidatorError:
        return None
    want = reference_verdict(spec, v, "F")          # none of these values is JSON, so a schema's own answer is moot
    got = []

    class Sub(BoboReceiverSubscriber):
        def on_receiver_update(self, event):
            got.append(event)
    rc = BoboReceiver(validator=val, gen_event_id=BoboGenEventIDUnique("u"), gen_timestamp=BoboGenTimestampEpoch())
    rc.subscribe(Sub())
    datum = v if wrapping == "bare" else wrap(wrapping, v, "w1", 5)
    try:
        verdict = bool(val.is_valid(datum))
    except V.BoboValidatorError:
        return None                                   # the schema itself is invalid
    rc.add_data(datum)
    try:
        rc.update()
    except V.BoboValidatorError:
        return None
    if verdict != want:
        return "verdict %s, documented %s" % (verdict, want)
    if len(got) != (1 if want else 0):
        return "verdict %s but %d events published" % (verdict, len(got))
    if want and (got[0].data is not v):
        return "the published event does not carry the datum itself"
    if want and is_json_validator(spec) and not serialises(got[0]):
        return "accepted by a JSON validator but the event cannot be serialised"
    return None


def dotdata_half(res):
    n = 0
    for spec in VALIDATORS:
        for name in dotdata_values():
            for wrapping in ("bare", "simple", "complex", "action"):
                bad = dotdata_case(spec, name, wrapping)
                n += 1
                if bad:
                    res.failures.append(dict(signature="value-with-a-data-attribute", what="%s on %s (%s): %s" % (spec, name, wrapping, bad),
                                             case=dict(dotdata=True, validator=spec, value=["str", name], name=name, wrap=wrapping)))
        res.note_case(("dotdata", repr(spec)), True)
    res.extra["values_with_a_data_attribute"] = n


# ---------------------------------------------------------------------------- deep, but not too deep for json
def nested(depth, kind):
    v = 1
    for i in range(depth):
        v = [v] if kind == "list" or (kind == "mixed" and i % 2) else {"k": v}
    return v


def nested_case(depth, kind, spec, wrapping):
    """a JSON value nested `depth` levels (far below what json.dumps gives up on, far above what a recursive helper
    written in Python survives): the JSON validators accept it, so the event must exist once, carry it, and be
    serialisable - alone and inside the history of a run record (what replication sends)"""
    from bobocep.cep.engine.receiver.receiver import BoboReceiver
    from bobocep.cep.engine.receiver.pubsub import BoboReceiverSubscriber
    from bobocep.cep.engine.decider.runserial import BoboRunSerial
    from bobocep.cep.event import BoboHistory
    from bobocep.cep.gen.event_id import BoboGenEventIDUnique
    from bobocep.cep.gen.timestamp import BoboGenTimestampEpoch
    v = nested(depth, kind)
    try:
        json.dumps(v)
    except (RecursionError, ValueError):
        return None                      # json itself refuses: the validators reject it, nothing to check
    val = make_validator(spec)
    got = []

    class Sub(BoboReceiverSubscriber):
        def on_receiver_update(self, event):
            got.append(event)
    rc = BoboReceiver(validator=val, gen_event_id=BoboGenEventIDUnique("u"), gen_timestamp=BoboGenTimestampEpoch())
    rc.subscribe(Sub())
    datum = v if wrapping == "bare" else wrap(wrapping, v, "w1", 5)
    verdict = val.is_valid(datum)
    rc.add_data(datum)
    rc.update()
    if verdict is not True:
        return "the validator rejects a JSON value nested %d levels (json.dumps encodes it)" % depth
    if len(got) != 1 or got[0].data is not v or (wrapping != "bare" and got[0] is not datum):
        return "accepted, but %d events were published / the event does not carry the datum" % len(got)
    try:
        json.loads(got[0].to_json_str())
    except Exception as ex:      # noqa
        return "the accepted event cannot be serialised: %s" % type(ex).__name__
    try:
        json.loads(BoboRunSerial("r1", "ph", "pa", 1, BoboHistory({"g": [got[0]]})).to_json_str())
    except Exception as ex:      # noqa
        return "a run record holding the accepted event cannot be serialised for replication: %s" % type(ex).__name__
    return None


def nested_half(res):
    n = 0
    for depth in (60, 300, 700, 900):
        for kind in ("list", "dict", "mixed"):
            for spec in (["jsonable"], ["schema", "any"]):
                for wrapping in ("bare", "simple", "complex", "action"):
                    bad = nested_case(depth, kind, spec, wrapping)
                    n += 1
                    if bad:
                        res.failures.append(dict(signature="deeply-nested-json-value", what="%s, %s, nesting %d (%s): %s"
                                                 % (spec, wrapping, depth, kind, bad),
                                                 case=dict(nested=True, validator=spec, value=["nest", depth, kind], depth=depth,
                                                           kind=kind, wrap=wrapping)))
            res.note_case(("nested", depth, kind), True)
    res.extra["deeply_nested_values"] = n


# ---------------------------------------------------------------------------- one instance, two users
def shared_verdicts(spec, rx, ry):
    """One validator instance used by two receivers in two threads (each receiver holds only its own lock).  Thread A
    judges x; at every library call the validator makes on A's behalf (json.dumps, jsonschema validate: the points
    where another thread can run in between two steps of is_valid) thread B judges y on the SAME instance, to
    completion (B is waited for at most 2 s, so a validator that serialises its users is not penalised).
    Returns (A's verdict alone, A's verdict interleaved, B's verdict alone, B's verdicts interleaved)."""
    import threading
    import json as _json
    import jsonschema as _js
    import bobocep.cep.engine.receiver.validator as V
    try:
        val = make_validator(spec)
    except V.BoboValidatorError:
        return None
    x, y = build(rx), build(ry)

    def verdict(d):
        try:
            return bool(val.is_valid(d))
        except V.BoboValidatorError:
            return "refused-schema"
    alone_x, alone_y = verdict(x), verdict(y)
    a_id = threading.get_ident()
    b_out = []
    busy = [False]

    def other():
        if threading.get_ident() != a_id or busy[0]:
            return
        busy[0] = True
        t = threading.Thread(target=lambda: b_out.append(verdict(y)), daemon=True)
        t.start()
        t.join(2)
        busy[0] = False

    def hooked(fn):
        def f(*a, **k):
            other()
            try:
                return fn(*a, **k)
            finally:
                other()
        return f
    saved = []
    for mod, name in ((V, "dumps"), (V, "jsonschema_validate"), (_json, "dumps"), (_js, "validate")):
        if hasattr(mod, name):
            saved.append((mod, name, getattr(mod, name)))
    try:
        for mod, name, fn in saved:
            setattr(mod, name, hooked(fn))
        inter_x = verdict(x)
    finally:
        for mod, name, fn in saved:
            setattr(mod, name, fn)
    return alone_x, inter_x, alone_y, b_out


def shared_half(res, corpus):
    vals = [r for r in corpus if r[0] in ("int", "str", "dict", "list", "bytes", "set", "float", "none", "bool")][:10]
    n = 0
    for spec in VALIDATORS:
        if spec[0] == "type" and len(spec[1]) > 1:
            continue
        for rx, ry in itertools.permutations(vals, 2):
            r = shared_verdicts(spec, rx, ry)
            if r is None:
                continue
            n += 1
            ax, ix, ay, by = r
            if n % 7 == 0:
                res.note_case(("shared", repr(spec), repr(rx), repr(ry)), ax != ay)
            if ix != ax or any(b != ay for b in by):
                res.failures.append(dict(signature="verdict-depends-on-another-user-of-the-validator",
                                         what="one %s instance used by two threads: alone it gives %r -> %s and %r -> %s; with the second "
                                              "user running in between the validator's steps the first got %s, the second %s"
                                              % (spec, rx, ax, ry, ay, ix, by),
                                         case=dict(shared=True, validator=spec, value=rx, other=ry)))
    res.extra["shared_instance_interleavings"] = n


# ---------------------------------------------------------------------------- replay
# ------------------------------------------------------------------------------------------------------------
# the datum is a mutable object that changes between add_data() and the update() that turns it into an event (a
# reused buffer; a complex event whose data the action enriches while it waits in the receiver): what leaves the
# receiver is what the validator accepts THEN
def changed_before_update_case(wrapping, poison):
    from bobocep.cep.engine.receiver.receiver import BoboReceiver
    from bobocep.cep.engine.receiver.pubsub import BoboReceiverSubscriber
    from bobocep.cep.gen.event_id import BoboGenEventIDUnique
    from bobocep.cep.gen.timestamp import BoboGenTimestampEpoch
    validator = make_validator(("jsonable",))

    class Rec(BoboReceiverSubscriber):
        def __init__(self):
            self.events = []

        def on_receiver_update(self, event):
            self.events.append(event)
    r = BoboReceiver(validator=validator, gen_event_id=BoboGenEventIDUnique("t"), gen_timestamp=BoboGenTimestampEpoch(),
                     gen_event=None)
    rec = Rec()
    r.subscribe(rec)
    buf = {"sensor": "s1", "value": 1}
    datum = buf if wrapping is None else wrap(wrapping, buf, "e1", 5)
    r.add_data(datum)
    buf["value"] = {"bytes": b"\x15\x05", "set": {1, 2}, "tuple-key": {(1, 2): 3}}[poison]
    try:
        r.update()
        r.update()
    except Exception:       # noqa (a refusal may be an exception: that is not this oracle's concern)
        pass
    for ev in rec.events:
        try:
            ok = bool(validator.is_valid(ev))
        except Exception:   # noqa
            ok = False
        if not ok:
            return ("an event left the receiver carrying data the validator rejects: the datum (%s) was %r when add_data() "
                    "took it and %r when update() made the event" % ("bare" if wrapping is None else "inside a %s event" % wrapping,
                                                                      {"sensor": "s1", "value": 1}, buf))
    return None


def changed_before_update_half(res):
    for wrapping in (None, "simple", "complex", "action"):
        for poison in ("bytes", "set", "tuple-key"):
            bad = changed_before_update_case(wrapping, poison)
            res.note_case(("changed-before-update", wrapping, poison), True)
            if bad:
                res.failures.append(dict(signature="rejected-data-became-event", what=bad, detail=None,
                                         case=dict(changed_before_update=[wrapping, poison])))
                return


# ------------------------------------------------------------------------------------------------------------
# a BOUNDED receiver whose queue is full when the producer / forwarder feed an event back: whatever the receiver does
# with it (refuse, queue later), an event whose data the validator rejects reaches no subscriber
def full_queue_feedback_case(spec, data, route):
    from bobocep.cep.engine.receiver.receiver import BoboReceiver
    from bobocep.cep.engine.receiver.pubsub import BoboReceiverSubscriber
    from bobocep.cep.gen.event_id import BoboGenEventIDUnique
    from bobocep.cep.gen.timestamp import BoboGenTimestampEpoch
    validator = make_validator(spec)

    class Rec(BoboReceiverSubscriber):
        def __init__(self):
            self.events = []

        def on_receiver_update(self, event):
            self.events.append(event)
    r = BoboReceiver(validator=validator, gen_event_id=BoboGenEventIDUnique("t"), gen_timestamp=BoboGenTimestampEpoch(),
                     gen_event=None, max_size=1)
    rec = Rec()
    r.subscribe(rec)
    filler = "ok"           # accepted by both validators used here; it fills the queue
    try:
        r.add_data(filler)
    except Exception:       # noqa
        pass
    ev = wrap("complex" if route == "producer" else "action", data, "fb1", 5)
    try:
        if route == "producer":
            r.on_producer_update(ev, True)
        else:
            r.on_forwarder_update(ev)
    except Exception:       # noqa (a full queue may refuse with an error)
        pass
    for _ in range(3):
        try:
            r.update()
        except Exception:   # noqa
            pass
    for e in rec.events:
        if e is ev or getattr(e, "data", None) is data:
            try:
                ok = bool(validator.is_valid(e))
            except Exception:   # noqa
                ok = False
            if not ok:
                return ("receiver with max_size=1 and a full queue: the %s fed back a %s event whose data %r the validator (%s) "
                        "rejects, and it reached the subscribers" % (route, type(ev).__name__, data, spec[0]))
    return None


def full_queue_feedback_half(res):
    for spec, data in ((("jsonable",), {"k": b"\x00"}), (("jsonable",), {1, 2}), (("type", ["str"], False), 123)):
        for route in ("producer", "forwarder"):
            try:
                bad = full_queue_feedback_case(spec, data, route)
            except KeyError:
                continue
            res.note_case(("full-queue-feedback", repr(spec), route), True)
            if bad:
                res.failures.append(dict(signature="rejected-data-became-event", what=bad, detail=None,
                                         case=dict(full_queue_feedback=[list(spec), route, repr(data)])))
                return


def show(o):
    evs = o["events"]
    return "verdict=%s published=%d%s%s" % (
        o["verdict"], len(evs),
        "".join(" [%s id=%s ts=%s same_data=%s same_event=%s to_json_str_ok=%s]"
                % (type(e).__name__, e.event_id, str(e.timestamp)[:24], same_data(e.data, o["data"]),
                   e is o["datum"], serialises(e)) for e in evs),
        " update() raised %s" % o["update_raised"] if o["update_raised"] else "")


def replay(obj):
    if (obj.get("case") or {}).get("full_queue_feedback"):
        sp, route, drepr = obj["case"]["full_queue_feedback"]
        table = {repr({"k": b"\x00"}): {"k": b"\x00"}, repr({1, 2}): {1, 2}, "123": 123}
        bad = full_queue_feedback_case(tuple(sp), table[drepr], route)
        print(bad or "nothing the validator rejects reached a subscriber (the full receiver refused or dropped the event)")
        return 1 if bad else 0
    if (obj.get("case") or {}).get("changed_before_update"):
        w, pz = obj["case"]["changed_before_update"]
        bad = changed_before_update_case(w, pz)
        print(bad or "the changed datum was judged when the event was made: nothing the validator rejects left the receiver")
        return 1 if bad else 0
    case = obj.get("case") or {}
    if obj.get("kind") == "unchecked":
        ms = obj.get("mismatches") or []
        if not ms:
            print(json.dumps(obj, indent=1)[:3000])
            return 1
        case = ms[0]["case"]
    if case.get("dotdata"):
        bad = dotdata_case(case["validator"], case["name"], case["wrap"])
        print("validator %s, value %s, %s:" % (case["validator"], case["name"], case["wrap"]), bad or "as documented")
        return 1 if bad else 0
    if case.get("nested"):
        bad = nested_case(case["depth"], case["kind"], case["validator"], case["wrap"])
        print("JSON value nested %d levels (%s), validator %s, %s:" % (case["depth"], case["kind"], case["validator"], case["wrap"]),
              bad or "accepted, one event carrying it, serialisable alone and inside a run record")
        return 1 if bad else 0
    if case.get("shared"):
        ax, ix, ay, by = shared_verdicts(case["validator"], case["value"], case["other"])
        print("validator:", case["validator"], " first user's value:", case["value"], " second user's value:", case["other"])
        print("alone: %s / %s; interleaved: %s / %s" % (ax, ay, ix, by))
        return 1 if (ix != ax or any(b != ay for b in by)) else 0
    if "steps" not in case:
        if "value" not in case:
            print(obj)
            return 0
        res = common.Result()
        other_routes(case["validator"], case["value"], res)
        bad = [f for f in res.failures if f["case"].get("route") == case.get("route")
               and f["case"].get("wrap") == case.get("wrap")]
        print("validator:", case["validator"], " value:", case["value"], " wrap:", case.get("wrap"),
              " route:", case.get("route"))
        for f in bad:
            print("FAIL [%s] %s" % (f["signature"], f["what"]))
        print("property fails on the implementation" if bad else "property holds on this case")
        return 1 if bad else 0
    obs = observe(case)
    if obs is None:
        print("the validator refused the schema at construction")
        return 0
    spec = case["validator"]
    print("validator:", spec)
    for st, o in zip(case["steps"], obs):
        print("  %-8s %-60s -> %s" % (st.get("wrap") or "bare", json.dumps(st["value"])[:60], show(o)))
    answers = [schema_answer(spec[1], o["data"]) if spec[0] == "schema" else "F" for o in obs]
    exp = expected(obs)
    INLINE_BIG[0] = True
    model, log = common.coq_eval("C18", "Model.Validator", "run_C18 %s" % coq_input(case, obs, answers))
    print("implementation (encoded):", exp)
    print("model          (encoded):", model if model is not None else log[-500:])
    fails = judge(case, obs, answers)
    for sig, what, idxs in fails:
        print("FAIL [%s] %s (steps %s)" % (sig, what, idxs))
    if model is not None and model != exp:
        print("model and implementation differ")
    print("property fails on the implementation" if fails else "property holds on this case")
    return 1 if fails or (model is not None and model != exp) else 0
