"""C04 Replicas converge under every message interleaving."""
import itertools

import common
import gen_patterns as G
import predlang as PL
import sim_cluster as SC
import sim_decider as SD
from common import zs
from par import pmap

PROP = "C04"
PROPERTY_FILES = ["Properties/C04.v"]
META = dict(
    level_text="Theorems (Coq, all closed): (1) abstract replication system over the status lattice (Absent < Active(index, "
               "history size) < Halted < Completed): local steps grow statuses and announce every change, a delivered "
               "message is ANY list of previously announced facts joined in by maximum (delay, reordering across peers, "
               "duplication, re-delivery, backlog merge, snapshots): for EVERY execution, once all announcements have "
               "reached the n instances they hold every run at the same status; completion beats halt beats progress; "
               "nothing moves backwards; completed anywhere => completed everywhere. (2) The DECIDER MODEL is an instance "
               "of that system - proved: P1 a local step only grows cstatus and its note names every changed run with "
               "its new status; P2 cstatus after remote_apply = join of the status before and the facts of the message - "
               "for non-singleton patterns, finished-run memory on and with room, messages whose records name existing "
               "patterns consistently with each run id's owner; hence C04_model_convergence for every execution of the "
               "decider model (local events anywhere, deliveries of any well-formed message made of announced facts). "
               "Tie: every instance's operation sequence of every explored schedule is replayed on the model inside Coq "
               "(outputs and status traces compared), the theorem's hypotheses (owner consistency of run ids, P1, P2) "
               "are checked on every step of the implementation, and equality at quiescence is checked directly - on deciders exchanging notes and on real engines replicating "
               "through their real BoboDistributedTCP under link faults, after healing.",
    level_note="Trusted: Coq kernel; harness. Stated for non-singleton patterns, finished-run memory enabled and not "
               "overflowing, per-link FIFO delivery with re-delivery. The network is simulated at note level (serialised "
               "records); tcp.py's own behaviour is C06/C10/C15.",
    rule="2..3 real deciders; schedules over {input datum at i, deliver next message on link i->j, re-deliver the last "
         "message of a link}: exhaustive to depth 5 for a small stream, seeded random to depth 30-40, then all links "
         "flushed; patterns with halt conditions, loops, 3..4 blocks, non-singleton; non-trivial = some run was changed "
         "on two different instances",
    trusted_base=["harness/sim_cluster.py, sim_decider.py"],
    assumptions=["per-link FIFO order (one TCP connection per message, sequential sender loop)", "run ids unique across instances (C16)",
                 "theorem hypotheses: non-singleton patterns, memory with room, wf_msg (records name existing patterns, "
                 "one owner pattern per run id), note_owned"])

IMPORTS = SD.IMPORTS + " Model.Converge"


def status_of(dec, rid):
    c, h, _ = dec.snapshot()
    if any(r.run_id == rid for r in c):
        return (3, 0, 0)
    if any(r.run_id == rid for r in h):
        return (2, 0, 0)
    for r in dec.all_runs():
        if r.run_id == rid:
            return (1, r.block_index, r.history().size())
    return (0, 0, 0)


def msg_status(note, rid):
    """the most advanced thing the note says about the run (a merged backlog may mention it several times)"""
    comp, halt, upd = note
    if any(r.run_id == rid for r in comp):
        return (3, 0, 0)
    if any(r.run_id == rid for r in halt):
        return (2, 0, 0)
    return max([(1, r.block_index, r.history.size()) for r in upd if r.run_id == rid], default=(0, 0, 0))


def ser_dict(r):
    h = r.history
    return dict(id=int(r.run_id), ph=PL.code_of(r.phenomenon_name), pat=PL.code_of(r.pattern_name), idx=r.block_index,
                hist=[(PL.code_of(g) if g else 0, [ev_tuple(e) for e in h.group(g)]) for g in h.all_groups()])


def ev_tuple(e):
    return (PL.ev_code(e), e.timestamp, 0, PL.dval(e), 0, 0)


def gen_cfg(rng):
    shapes = [s for s in G.shapes(4) if 3 <= len(s) <= 4]
    shape = rng.choice(shapes)
    halt = [("deq", 4)] if rng.random() < 0.7 else []
    p1 = G.pattern(1, G.assign(shape, rng.choice([0, 1]), "distinct"), (), halt, False)
    r = rng.random()
    if r < 0.65:
        return dict(phen=[(1, [p1])], maxcache=100, idbase=1000)
    # a second pattern over the same data: one input advances a run of the first and starts a run of the second, so
    # one message names runs of two patterns (the receiver may hold runs of only one of them)
    p2 = second_pattern(rng.choice([2, 3]))
    return dict(phen=[(1, [p1, p2])] if r < 0.82 else [(1, [p1]), (2, [p2])], maxcache=100, idbase=1000)


def second_pattern(first):
    syms = [first, first % 3 + 1, (first + 1) % 3 + 1]
    return G.pattern(2, [G.blk([("deq", d)], "R", i + 1) for i, d in enumerate(syms)], (), (), False)


def gen_schedules(ctx):
    rng = ctx.rng
    out = []
    # exhaustive small: 2 instances, stream 1,2,3 (inputs alternate), schedule = sequence over {in0,in1,d01,d10,r01,r10}
    cfg0 = dict(phen=[(1, [G.pattern(1, G.assign(["R", "RL", "R"], 0, "distinct"), (), [("deq", 4)], False)])], maxcache=100, idbase=1000)
    alpha = [("in", 0), ("in", 1), ("dl", 0, 1), ("dl", 1, 0), ("re", 0, 1), ("re", 1, 0)]
    depth = 5 if ctx.quick else 6
    for seq in itertools.product(alpha, repeat=depth):
        if sum(1 for a in seq if a[0] == "in") < 2:
            continue
        out.append((cfg0, 2, list(seq), [1, 2, 2, 3, 4, 3]))
    # backlog merges ("mg", i, j, k): the next k notes from i to j arrive as ONE message, the newest first and the
    # older ones (the stash) after it, list by list - what _tcp_outgoing sends after k-1 failed attempts.  Pattern
    # 1 ; strictly 2 ; 3: a second 1 halts the run and starts another, so a merged message names a run as halted and,
    # further down its updated list, as active
    cfg1 = dict(phen=[(1, [G.pattern(1, G.assign(["R", "S", "R"], 0, "distinct"), (), (), False)])], maxcache=100, idbase=1000)
    alpha_m = alpha + [("mg", 0, 1, 2), ("mg", 1, 0, 2), ("mg", 0, 1, 3)]
    for seq in itertools.product(alpha_m, repeat=4 if ctx.quick else 5):
        if sum(1 for a in seq if a[0] == "in") < 2 or not any(a[0] == "mg" for a in seq):
            continue
        out.append((cfg1, 2, list(seq), [1, 1, 2, 1, 3, 1]))
        if len(out) % 3 == 0:
            out.append((cfg0, 2, list(seq), [1, 2, 4, 1, 2, 3]))
    # two patterns over the same data (1 ; 2.. ; 3 and 2 ; 3 ; 1): datum 2 advances a run of the first and starts one of
    # the second, in one note
    cfg2 = dict(phen=[(1, [cfg0["phen"][0][1][0], second_pattern(2)])], maxcache=100, idbase=1000)
    cfg3 = dict(phen=[(1, [cfg0["phen"][0][1][0]]), (2, [second_pattern(2)])], maxcache=100, idbase=1000)
    for seq in itertools.product(alpha_m, repeat=4):
        if sum(1 for a in seq if a[0] == "in") < 2:
            continue
        out.append((cfg2 if len(out) % 2 else cfg3, 2, list(seq), [1, 2, 3, 1, 2, 3]))
    for _ in range(700 if ctx.quick else 15000):
        n = rng.choice([2, 2, 3])
        cfg = gen_cfg(rng)
        links = [(i, j) for i in range(n) for j in range(n) if i != j]
        seq = []
        for _ in range(rng.randint(8, 30 if ctx.quick else 40)):
            r = rng.random()
            if r < 0.45:
                seq.append(("in", rng.randrange(n)))
            elif r < 0.78:
                seq.append(("dl",) + rng.choice(links))
            elif r < 0.9:
                seq.append(("mg",) + rng.choice(links) + (rng.choice([2, 2, 3, 4]),))
            else:
                seq.append(("re",) + rng.choice(links))
        out.append((cfg, n, seq, [rng.randint(1, 4) if rng.random() < 0.9 else 4 for _ in range(40)]))
    return out


def work(sc):
    cfg, n, seq, data = sc
    decs = [SD.make_decider(dict(cfg, idbase=cfg["idbase"] * (k + 1))) for k in range(n)]
    links = {(i, j): [] for i in range(n) for j in range(n) if i != j}
    last = {}
    ops = [[] for _ in range(n)]          # per-instance op sequences (for the model)
    outs = [[] for _ in range(n)]
    stat = [[] for _ in range(n)]
    ids_seen = []
    fail = None
    pos = 0
    changed_at = {}
    owner = {}

    def check_owner(records):
        nonlocal fail
        for r in records:
            key = (r.phenomenon_name, r.pattern_name)
            if owner.setdefault(r.run_id, key) != key and fail is None:
                fail = dict(signature="run-id-names-two-patterns", what="run id %s is used for %s and %s" % (r.run_id, owner[r.run_id], key))

    def all_ids():
        s = set(ids_seen)
        for d, _ in decs:
            for r in d.all_runs():
                s.add(r.run_id)
        return sorted(s)

    def do_local(i, d):
        nonlocal pos, fail
        dec, rec = decs[i]
        et = (1000 * i + pos, pos, 0, d, 0, 0)
        pos += 1
        before = {rid: status_of(dec, rid) for rid in all_ids()}
        o, lists = SD.apply_op(dec, rec, ("local", et))
        ops[i].append(("local", et))
        outs[i] += o
        comp, halt, upd = lists
        check_owner(comp + halt + upd)
        for r in comp + halt + upd:
            if r.run_id not in ids_seen:
                ids_seen.append(r.run_id)
            changed_at.setdefault(r.run_id, set()).add(i)
        if comp or halt or upd:
            for j in range(n):
                if j != i:
                    links[(i, j)].append((comp, halt, upd))
        # P1: monotone and truthful
        for rid in all_ids():
            b, a = before.get(rid, (0, 0, 0)), status_of(dec, rid)
            if a < b and fail is None:
                fail = dict(signature="local-step-moved-run-backwards", what="run %s went from %s to %s in a local step" % (rid, b, a))
            if a != b and msg_status((comp, halt, upd), rid) != a and fail is None:
                fail = dict(signature="local-change-not-announced", what="run %s changed to %s but the note says %s" % (rid, a, msg_status((comp, halt, upd), rid)))
        stat[i].append(("local", None))

    def do_deliver(i, j, note):
        nonlocal fail
        dec, rec = decs[j]
        comp, halt, upd = (SC.wire_copy(x) for x in note)
        nd = dict(comp=[ser_dict(r) for r in comp], halt=[ser_dict(r) for r in halt], upd=[ser_dict(r) for r in upd])
        before = {rid: status_of(dec, rid) for rid in all_ids()}
        o, lists = SD.apply_op(dec, rec, ("remote", nd))
        ops[j].append(("remote", nd))
        outs[j] += o
        if lists is None:
            if fail is None:
                fail = SD.remote_raise_failure(dec, len(ops[j]) - 1)
            return
        for rid in all_ids():
            b, a, m = before.get(rid, (0, 0, 0)), status_of(dec, rid), msg_status((comp, halt, upd), rid)
            if a != max(b, m) and fail is None:
                fail = dict(signature="remote-update-not-a-join", what="run %s: status %s, message says %s, afterwards %s (expected the maximum)" % (rid, b, m, a))

    for a in seq:
        if a[0] == "in":
            do_local(a[1], data[pos % len(data)])
        elif a[0] == "dl":
            q = links[(a[1], a[2])]
            if q:
                note = q.pop(0)
                last[(a[1], a[2])] = note
                do_deliver(a[1], a[2], note)
        elif a[0] == "mg":
            q = links[(a[1], a[2])]
            if len(q) >= 2:
                notes = [q.pop(0) for _ in range(min(len(q), a[3]))]
                merged = tuple(list(notes[-1][x]) + [r for nt in notes[:-1] for r in nt[x]] for x in range(3))
                last[(a[1], a[2])] = merged
                do_deliver(a[1], a[2], merged)
        else:
            if (a[1], a[2]) in last:
                do_deliver(a[1], a[2], last[(a[1], a[2])])
    # flush: deliver everything still in flight (new notes cannot appear: no inputs)
    for (i, j), q in links.items():
        while q:
            do_deliver(i, j, q.pop(0))
    # quiescence: same partial runs at the same positions everywhere, completed reported everywhere
    tabs = [sorted((r.run_id, r.block_index, r.history().size()) for r in d.all_runs()) for d, _ in decs]
    if any(t != tabs[0] for t in tabs) and fail is None:
        fail = dict(signature="replicas-differ-at-quiescence", what="partial runs differ after all messages were delivered: %s" % tabs)
    comps = []
    for d, rec in decs:
        comps.append(sorted(r.run_id for c in rec.calls for r in c[0]))
    if any(c != comps[0] for c in comps) and fail is None:
        fail = dict(signature="completed-not-reported-everywhere", what="completed runs reported per instance: %s" % comps)
    if any(len(c) != len(set(c)) for c in comps) and fail is None:
        fail = dict(signature="completed-reported-twice", what="a completed run was reported twice: %s" % comps)
    nontrivial = any(len(v) > 1 for v in changed_at.values())
    ids = [int(x) for x in all_ids()]
    # per-instance status traces for the model
    return dict(ops=ops, outs=outs, ids=ids, fail=fail, nontrivial=nontrivial, n=n)


def status_trace(cfg, k, ops, ids):
    """statuses of ids after every op at instance k, from a fresh real decider (deterministic replay)"""
    dec, rec = SD.make_decider(dict(cfg, idbase=cfg["idbase"] * (k + 1)))
    out = []
    for op in ops:
        SD.apply_op(dec, rec, op)
        for rid in ids:
            out += list(status_of(dec, str(rid)))
            if op[0] == "remote":
                ms = (0, 0, 0)
                n = op[1]
                if any(r["id"] == rid for r in n["comp"]):
                    ms = (3, 0, 0)
                elif any(r["id"] == rid for r in n["halt"]):
                    ms = (2, 0, 0)
                else:
                    for r in n["upd"]:
                        if r["id"] == rid:
                            ms = (1, r["idx"], sum(len(es) for _, es in r["hist"]))
                            break
                out += list(ms)
    return out


# ---------- the same statement with the REAL replication stack between real engines ----------
def tcp_case(sc):
    """2-3 real engines replicating through their real BoboDistributedTCP (sim_cluster.TcpCluster) under link faults;
    after the links heal and the backlogs were retried: same partial runs at the same positions everywhere, and a run
    completed anywhere is reported completed everywhere"""
    from bobocep.cep.engine.decider.pubsub import BoboDeciderSubscriber
    cfg, n = sc["cfg"], sc["n"]
    ed = dict(cfg=cfg, tr=0, td=0, tp=0, tf=0, early=True, local_only=True, datagen=[], act=[])
    cl = SC.TcpCluster(ed, n)
    comp = [set() for _ in range(n)]

    def spy(k):
        class Spy(BoboDeciderSubscriber):
            def on_decider_update(self, completed, halted, updated, local):
                comp[k].update(r.run_id for r in completed)
        return Spy()
    for k in range(n):
        cl.net.nodes[k].engine.decider.subscribe(spy(k))
    for st in list(sc["steps"]) + [("heal",), ("wait", 6), ("wait", 6), ("wait", 6)]:
        if st[0] == "in":
            cl.input(st[1], st[2])
        elif st[0] == "link":
            cl.link(st[1], st[2], st[3])
        elif st[0] == "heal":
            cl.heal()
        else:
            cl.wait(st[1])
    tabs = [sorted((r.run_id, r.block_index, r.history().size()) for r in cl.nodes[k][0].decider.all_runs()) for k in range(n)]
    faults = sum(1 for m in cl.net.wire if m.get("kind") == "refused" or (m.get("kind") == "msg" and not m.get("sender_ok", True)))
    fail = None
    if any(t != tabs[0] for t in tabs):
        fail = dict(signature="replicas-differ-at-quiescence-through-tcp",
                    what="after the links healed and the backlogs were retried the instances hold different partial runs: %s" % tabs)
    elif any(c != comp[0] for c in comp):
        fail = dict(signature="completed-not-reported-everywhere-through-tcp",
                    what="completed runs reported per instance: %s" % [sorted(c) for c in comp])
    return fail, faults > 0 and (any(tabs) or any(comp))


def gen_tcp(ctx):
    rng = ctx.rng
    out = []
    pats = [G.pattern(1, G.assign(["R", "R", "R"], 0, "distinct"), (), [("deq", 4)], False),
            G.pattern(1, G.assign(["R", "RL", "R"], 0, "distinct"), (), (), False)]
    # one message fails towards TWO peers at once; the links come back at different times, inside the resync period
    for p in pats:
        cfg = dict(phen=[(1, [p])], maxcache=100, idbase=1000)
        for last in (3, 4):
            for first_back in (1, 2):
                other = 3 - first_back
                out.append(dict(cfg=cfg, n=3, steps=[("in", 0, 1), ("in", 0, 2), ("link", 0, 1, "down"), ("link", 0, 2, "down"),
                                                     ("in", 0, last), ("link", 0, first_back, "up"), ("wait", 6),
                                                     ("link", 0, other, "up"), ("wait", 6)]))
    # an outage longer than the resync period with changes made during it (some after a failed RESYNC attempt), input
    # stops, the link heals while the sender is idle: the peer is owed the full state
    for p in pats:
        cfg = dict(phen=[(1, [p])], maxcache=100, idbase=1000)
        for st in ("down", "fail"):
            for tail in ([("in", 0, 3), ("in", 0, 1)], [("in", 0, 3)], [("in", 0, 4)], []):
                out.append(dict(cfg=cfg, n=2, steps=[("in", 0, 1), ("link", 0, 1, st), ("in", 0, 2), ("wait", 6), ("wait", 61), ("wait", 1)] +
                                                    tail + [("wait", 1), ("heal",), ("wait", 11), ("wait", 11), ("wait", 11)]))
    for _ in range(120 if ctx.quick else 2000):
        n = rng.choice([2, 3, 3])
        cfg = dict(phen=[(1, [rng.choice(pats)])], maxcache=100, idbase=1000)
        steps = []
        for _ in range(rng.randint(4, 9)):
            r = rng.random()
            if r < 0.3:
                i, j = rng.sample(range(n), 2)
                steps.append(("link", i, j, rng.choice(["fail", "down", "down"])))
            elif r < 0.42:
                steps.append(("heal",))
            elif r < 0.52:
                steps.append(("wait", rng.choice([1, 6, 6, 11])))
            steps.append(("in", rng.randrange(n), rng.randint(1, 4)))
        out.append(dict(cfg=cfg, n=n, steps=steps))
    return out


def tcp_half(ctx, res):
    scs = gen_tcp(ctx)
    for sc, (fail, nontrivial) in zip(scs, pmap(tcp_case, scs, chunksize=4)):
        res.note_case(("tcp", repr(sc)), nontrivial)
        res.count("tcp_scenarios_with_link_faults" if nontrivial else "tcp_scenarios_without_effective_fault")
        if fail:
            res.failures.append(dict(signature=fail["signature"], what=fail["what"], case=dict(tcp=sc), detail=None))


def atomic_half(res):
    """a stale update for run r arrives (on the replication thread) while the engine thread is completing r, and the
    other way round, the second operation starting at every line of the first: progress never beats a completion - the
    outcome is that of one of the two orders"""
    import pC05
    n = 0
    for ci, (cfg, prefix, a, b) in enumerate(pC05.atomic_cases()):
        rem = a if a[0] == "remote" else b
        if rem[1]["comp"] or rem[1]["halt"] or not rem[1]["upd"]:
            continue
        for k in range(1, 400):
            reached, got, serial, excs = SD.atomic_pair(cfg, prefix, a, b, k)
            if not reached:
                break
            n += 1
            if excs or got not in serial:
                res.failures.append(dict(
                    signature="stale-progress-beats-a-completion-between-threads",
                    what="a %s operation started when a %s operation was at line %d of decider.py (a stale update for the run "
                         "the engine thread is completing): notifications and final runs are those of neither order of the two%s"
                         % (b[0], a[0], k, "; raised %r" % excs if excs else ""),
                    case=dict(atomic=ci, line=k), detail=dict(got=repr(got)[:600], serial=repr(serial)[:1200])))
                return n
        res.note_case(("atomic", ci), True)
    return n


def run(ctx, res):
    res.extra["two_thread_interleavings_stale_update_vs_completion"] = atomic_half(res)
    tcp_half(ctx, res)
    scs = gen_schedules(ctx)
    results = pmap(work, scs, chunksize=20)
    coq_cases, coq_status, index = [], [], []
    for si, (sc, r) in enumerate(zip(scs, results)):
        res.note_case((repr(sc[0]), sc[1], repr(sc[2])), r["nontrivial"])
        res.count("instances_%d" % sc[1])
        res.count("schedule_len_%d" % min(len(sc[2]), 40))
        if r["fail"]:
            res.failures.append(dict(signature=r["fail"]["signature"], what=r["fail"]["what"],
                                     case=dict(cfg=sc[0], n=sc[1], schedule=sc[2], data=sc[3]), detail=None))
        if si % (4 if ctx.quick else 3) == 0:       # model correspondence on a sample of the schedules
            for k in range(r["n"]):
                cfgk = dict(sc[0], idbase=sc[0]["idbase"] * (k + 1))
                coq_cases.append((SD.case_coq(cfgk, r["ops"][k]), r["outs"][k]))
                index.append((si, k))
                if si % 16 == 0:
                    st = status_trace(sc[0], k, r["ops"][k], r["ids"][:6])
                    coq_status.append(("(%s, %s, %s)" % (PL.config_coq(cfgk), zs(r["ids"][:6]), common.clist([SD.op_coq(o) for o in r["ops"][k]])), st))
    res.failures.sort(key=lambda f: len(repr(f["case"].get("schedule") or f["case"])))
    res.samples = [dict(n=scs[-1][1], schedule=scs[-1][2][:12])]
    mism, errs = common.coq_run_cases("C04", IMPORTS, "run_decider", "(cdesc * list dop)", coq_cases, shard=120)
    res.errors += errs
    res.traces_validated = len(coq_cases) - len(mism)
    for idx, mo in mism[:8]:
        si, k = index[idx]
        res.mismatches.append(dict(case=dict(schedule=scs[si][2], n=scs[si][1], instance=k, cfg=scs[si][0]), impl=coq_cases[idx][1][:60], model=mo[:60]))
    mism2, errs2 = common.coq_run_cases("C04s", IMPORTS, "run_decider_status", "(cdesc * list Z * list dop)", coq_status, shard=60)
    res.errors += errs2
    res.traces_validated += len(coq_status) - len(mism2)
    res.extra["status_traces_compared_with_model"] = len(coq_status)
    for idx, mo in mism2[:5]:
        res.mismatches.append(dict(case="status trace %d" % idx, impl=coq_status[idx][1][:60], model=mo[:60]))
    res.exhaustive = True
    res.extra["exhaustive_scope"] = "all schedules of depth %d over {in0,in1,deliver 0->1,1->0,re-deliver 0->1,1->0} with >=2 inputs, 2 instances" % (5 if ctx.quick else 6)


def replay(obj):
    case = obj.get("case")
    if case and "atomic" in case:
        import pC05
        cfg, prefix, a, b = pC05.atomic_cases()[case["atomic"]]
        reached, got, serial, excs = SD.atomic_pair(cfg, prefix, a, b, case["line"])
        print("a %s operation started when a %s operation is at line %d of decider.py" % (b[0], a[0], case["line"]))
        print("outcome          :", got)
        print("serial a;b / b;a :", serial)
        bad = bool(excs) or got not in serial
        print("neither serial order" if bad else "equal to one of the serial orders")
        return 1 if bad else 0
    if case and "tcp" in case:
        import pC12
        sc = case["tcp"]
        sc["cfg"], _ = pC12.norm_case(dict(cfg=sc["cfg"], ops=[]))
        for _ph, ps in sc["cfg"]["phen"]:
            for p in ps:
                p["halt"] = [tuple(x) for x in p["halt"]]
                for b in p["blocks"]:
                    b["preds"] = [tuple(x) for x in b["preds"]]
        sc["steps"] = [tuple(x) for x in sc["steps"]]
        fail, _ = tcp_case(sc)
        print("scenario (real engines + real BoboDistributedTCP, link faults, then healing):", sc["steps"])
        print("oracle  :", fail or "replicas hold the same runs; completions reported everywhere")
        return 1 if fail else 0
    if not case or "schedule" not in case:
        print(obj)
        return 0
    import pC12
    cfg, _ = pC12.norm_case(dict(cfg=case["cfg"], ops=[]))
    for _ph, ps in cfg["phen"]:
        for p in ps:
            p["halt"] = [tuple(x) for x in p["halt"]]
            for b in p["blocks"]:
                b["preds"] = [tuple(tuple(y) if isinstance(y, list) and y and isinstance(y[0], str) else y for y in x) for x in b["preds"]]
    r = work((cfg, case["n"], [tuple(a) for a in case["schedule"]], case["data"]))
    print("schedule:", case["schedule"])
    print("oracle  :", r["fail"] or "replicas converged")
    return 1 if r["fail"] else 0
