"""Mirror of coq/Model/PredLang.v: predicate ASTs -> real Python callables and -> Coq terms;
pattern / config / event descriptions -> real bobocep objects and -> Coq terms.  Test glue (trusted base)."""
from common import zz, zs, cbool, clist, cnat


def phname(k): return "ph%d" % k
def patname(k): return "pa%d" % k
def gname(k): return "" if k == 0 else "g%d" % k
def code_of(name): return 0 if name == "" else int(name[2:]) if name[:2] in ("ph", "pa") else int(name[1:])


class PredRaise(Exception):
    pass


def dval(e):
    d = e.data
    if isinstance(d, str) and d.lstrip("-").isdigit():     # "typed" mode: data travel as text, predicates cast
        return int(d)
    return d if isinstance(d, int) and not isinstance(d, bool) else -1


def kind_of(e):
    from bobocep.cep.event import BoboEventSimple, BoboEventComplex, BoboEventAction
    if isinstance(e, BoboEventComplex):
        return 1
    if isinstance(e, BoboEventAction):
        return 2
    return 0


def ev_eval(p, e, h):
    t = p[0]
    if t == "const":
        return p[1]
    if t == "deq":
        return dval(e) == p[1]
    if t == "din":
        return dval(e) in p[1]
    if t == "kind":
        return kind_of(e) == p[1]
    if t == "hsz":
        return h.size() >= p[1]
    if t == "gsz":
        return len(h.group(gname(p[1]))) >= p[2]
    if t == "lastplus":
        g = h.group(gname(p[1]))
        return len(g) > 0 and dval(e) == dval(g[-1]) + p[2]
    if t == "tsgap":
        last = h.last()
        return last is not None and e.timestamp - last.timestamp <= p[1]
    if t == "tsfirst":
        first = h.first()
        return first is not None and e.timestamp - first.timestamp >= p[1]
    if t == "cof":
        return kind_of(e) == 1 and e.phenomenon_name == phname(p[1]) and e.pattern_name == patname(p[2])
    if t == "raiseon":
        if e.timestamp in p[1]:
            raise PredRaise("scripted")
        return ev_eval(p[2], e, h)
    if t == "falseon":
        if e.timestamp in p[1]:
            return False
        return ev_eval(p[2], e, h)
    if t == "raisehist":        # depends on the run's own history, not on the event
        if len(h.group(gname(p[1]))) >= p[2]:
            raise PredRaise("scripted (history)")
        return ev_eval(p[3], e, h)
    if t == "falsehist":
        if len(h.group(gname(p[1]))) >= p[2]:
            return False
        return ev_eval(p[3], e, h)
    if t == "and":
        return ev_eval(p[1], e, h) and ev_eval(p[2], e, h)
    if t == "or":
        return ev_eval(p[1], e, h) or ev_eval(p[2], e, h)
    if t == "not":
        return not ev_eval(p[1], e, h)
    raise ValueError(p)


def _exception_classes():
    """every built-in class below Exception that can be raised with one string argument, plus user-defined
    subclasses (of Exception, and of two classes the library's own code could plausibly catch for itself)"""
    import builtins
    out = {}
    for name in sorted(dir(builtins)):
        c = getattr(builtins, name)
        if isinstance(c, type) and issubclass(c, Exception) and not issubclass(c, Warning):
            try:
                c("scripted")
            except Exception:
                continue
            out[c.__name__] = c          # aliases (IOError, EnvironmentError) collapse onto OSError
    out["UserError"] = type("UserError", (Exception,), {})
    out["UserIndexError"] = type("UserIndexError", (IndexError,), {})
    out["UserKeyError"] = type("UserKeyError", (KeyError,), {})
    # the library's own error classes (a predicate that calls a library helper, e.g. an event factory, raises them),
    # and an application error derived from the library's base class
    try:
        import importlib
        import pkgutil
        import bobocep
        for m in pkgutil.walk_packages(bobocep.__path__, "bobocep."):
            try:
                importlib.import_module(m.name)
            except Exception:      # noqa (optional dependencies of a module)
                pass
        base = getattr(bobocep, "BoboError", None)
        todo = [base] if isinstance(base, type) else []
        while todo:
            c = todo.pop()
            todo += c.__subclasses__()
            try:
                c("scripted")
            except Exception:
                continue
            out.setdefault(c.__name__, c)
        if isinstance(base, type):
            out["UserBoboError"] = type("UserBoboError", (base,), {})
    except ImportError:
        pass
    return out


EXC = _exception_classes()


def to_callable(p, exc=None, noargs=False):
    """exc: name of the built-in exception a scripted raise throws (None: PredRaise); noargs: raised without
    arguments, as `raise KeyError` or a bare `assert` do"""
    if exc is None:
        return lambda e, h: ev_eval(p, e, h)

    def f(e, h):
        try:
            return ev_eval(p, e, h)
        except PredRaise:
            raise (EXC[exc]() if noargs else EXC[exc]("scripted"))
    return f


def to_coq(p):
    t = p[0]
    if t == "const":
        return "(PConst %s)" % cbool(p[1])
    if t == "deq":
        return "(PDataEq %s)" % zz(p[1])
    if t == "din":
        return "(PDataIn %s)" % zs(p[1])
    if t == "kind":
        return "(PKind %s)" % zz(p[1])
    if t == "hsz":
        return "(PHistSizeGe %s)" % cnat(p[1])
    if t == "gsz":
        return "(PGroupSizeGe %s %s)" % (zz(p[1]), cnat(p[2]))
    if t == "lastplus":
        return "(PLastDataPlus %s %s)" % (zz(p[1]), zz(p[2]))
    if t == "tsgap":
        return "(PTsGapLe %s)" % zz(p[1])
    if t == "tsfirst":
        return "(PTsSinceFirstGe %s)" % zz(p[1])
    if t == "cof":
        return "(PComplexOf %s %s)" % (zz(p[1]), zz(p[2]))
    if t == "raiseon":
        return "(PRaiseOn %s %s)" % (zs(p[1]), to_coq(p[2]))
    if t == "falseon":
        return "(PFalseOn %s %s)" % (zs(p[1]), to_coq(p[2]))
    if t == "raisehist":
        return "(PRaiseIfGroupGe %s %s %s)" % (zz(p[1]), cnat(p[2]), to_coq(p[3]))
    if t == "falsehist":
        return "(PFalseIfGroupGe %s %s %s)" % (zz(p[1]), cnat(p[2]), to_coq(p[3]))
    if t in ("and", "or"):
        return "(%s %s %s)" % ("PAnd" if t == "and" else "POr", to_coq(p[1]), to_coq(p[2]))
    if t == "not":
        return "(PNot %s)" % to_coq(p[1])
    raise ValueError(p)


def strip_raise(p):
    """the same predicate with every scripted raise replaced by 'returns False at those events'"""
    t = p[0]
    if t == "raiseon":
        return ("falseon", p[1], strip_raise(p[2]))
    if t == "raisehist":
        return ("falsehist", p[1], p[2], strip_raise(p[3]))
    if t in ("and", "or"):
        return (t, strip_raise(p[1]), strip_raise(p[2]))
    if t == "not":
        return ("not", strip_raise(p[1]))
    return p


# ---- descriptions ----
# block  = dict(preds=[ast], group=int, strict, loop, neg, opt)
# pattern= dict(name=int, blocks=[block], pre=[ast], halt=[ast], single=bool)
# config = dict(phen=[(int, [pattern])], maxcache=int, idbase=int)
# event  = (id, ts, kind, data, ph, pat)
def block_coq(b):
    return "(BD %s %s %s %s %s %s)" % (clist([to_coq(p) for p in b["preds"]]), zz(b["group"]),
                                       cbool(b["strict"]), cbool(b["loop"]), cbool(b["neg"]), cbool(b["opt"]))


def pattern_coq(p):
    return "(PD %s %s %s %s %s)" % (zz(p["name"]), clist([block_coq(b) for b in p["blocks"]]),
                                    clist([to_coq(x) for x in p["pre"]]), clist([to_coq(x) for x in p["halt"]]),
                                    cbool(p["single"]))


def config_coq(c):
    ph = clist(["(%s, %s)" % (zz(k), clist([pattern_coq(p) for p in ps])) for k, ps in c["phen"]])
    return "(CD %s %s %s)" % (ph, cnat(c["maxcache"]), zz(c["idbase"]))


def event_coq(e):
    return "(mkEv %s %s %s %s %s %s)" % tuple(zz(x) for x in e)


def hist_coq(h):
    """h = [(group code, [event tuples])]"""
    return clist(["(%s, %s)" % (zz(g), clist([event_coq(e) for e in es])) for g, es in h])


def ser_coq(r):
    """r = dict(id, ph, pat, idx, hist)"""
    return "(mkSer %s %s %s %s %s)" % (zz(r["id"]), zz(r["ph"]), zz(r["pat"]), cnat(r["idx"]), hist_coq(r["hist"]))


def note_coq(n):
    return "(mkNote %s %s %s)" % tuple(clist([ser_coq(r) for r in n[k]]) for k in ("comp", "halt", "upd"))


# ---- real objects ----
def make_pattern(p, mode=None):
    """mode = None | dict(typed=bool, exc=name): typed wraps every predicate in BoboPredicateCallType(int, cast=True)
    (events then carry their data as text, see make_event); exc is what a scripted raise throws"""
    from bobocep.cep.phenom.pattern.pattern import BoboPattern, BoboPatternBlock
    from bobocep.cep.phenom.pattern.predicate import BoboPredicateCall, BoboPredicateCallType
    mode = mode or {}
    exc = mode.get("exc")
    if mode.get("typed"):
        def mk(x):
            return BoboPredicateCallType(to_callable(x, exc, bool(mode.get("noargs"))), dtype=int, subtype=bool(mode.get("subtype", True)), cast=True)
    else:
        def mk(x):
            return BoboPredicateCall(to_callable(x, exc, bool(mode.get("noargs"))))
    blocks = [BoboPatternBlock(predicates=[mk(x) for x in b["preds"]],
                               group=gname(b["group"]), strict=b["strict"], loop=b["loop"],
                               negated=b["neg"], optional=b["opt"]) for b in p["blocks"]]
    return BoboPattern(name=patname(p["name"]), blocks=blocks,
                       preconditions=[mk(x) for x in p["pre"]],
                       haltconditions=[mk(x) for x in p["halt"]],
                       singleton=p["single"])


class RaisingNumber:
    """a datum that is not an int and whose conversion to int raises the given exception (like float('inf') ->
    OverflowError): the CAST of a typed predicate fails with something other than TypeError / ValueError"""

    def __init__(self, exc, shown):
        self.exc, self.shown = exc, shown

    def __int__(self):
        raise self.exc("scripted cast failure")

    __index__ = __float__ = __int__

    def __repr__(self):
        return "RaisingNumber(%s, %r)" % (self.exc.__name__, self.shown)


def make_event(e, textdata=False, castraise=None):
    """castraise = (timestamps, exception name): simple events with those timestamps carry a RaisingNumber"""
    from bobocep.cep.event import BoboEventSimple, BoboEventComplex, BoboEventAction, BoboHistory
    i, ts, kind, data, ph, pat = e
    d = None if data == -1 else (str(data) if textdata else data)
    if castraise and kind == 0 and ts in castraise[0]:
        d = RaisingNumber(EXC[castraise[1]], data)
    if kind == 0:
        return BoboEventSimple(event_id="e%d" % i, timestamp=ts, data=d)
    if kind == 1:
        return BoboEventComplex(event_id="e%d" % i, timestamp=ts, data=d, phenomenon_name=phname(ph),
                                pattern_name=patname(pat), history=BoboHistory({}))
    return BoboEventAction(event_id="e%d" % i, timestamp=ts, data=d, phenomenon_name=phname(ph),
                           pattern_name=patname(pat), action_name="act", success=True)


def ev_code(e):
    return int(e.event_id[1:])


def make_history(h):
    from bobocep.cep.event import BoboHistory
    return BoboHistory({gname(g): [make_event(e) for e in es] for g, es in h})


def make_ser(r):
    from bobocep.cep.engine.decider.runserial import BoboRunSerial
    return BoboRunSerial(run_id=str(r["id"]), phenomenon_name=phname(r["ph"]), pattern_name=patname(r["pat"]),
                         block_index=r["idx"], history=make_history(r["hist"]))


# ---- encodings of real objects (must equal PredLang.v enc_*) ----
def enc_hist(h):
    out = [len(h.all_groups())]
    for g in h.all_groups():
        es = h.group(g)
        out += [code_of(g) if g else 0, len(es)] + [ev_code(e) for e in es]
    return out


def enc_ser(r):
    return [int(r.run_id), code_of(r.phenomenon_name), code_of(r.pattern_name), r.block_index] + enc_hist(r.history)


def enc_list(f, l):
    out = [len(l)]
    for x in l:
        out += f(x)
    return out


def enc_run(r):
    return [int(r.run_id), code_of(r.phenomenon_name), code_of(r.pattern.name), r.block_index,
            1 if r.is_halted() else 0] + enc_hist(r.history())
