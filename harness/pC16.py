"""C16 Generated identifiers never repeat."""
import itertools
import json
import threading

import common
from common import zs, clist

PROP = "C16"
PROPERTY_FILES = ["Properties/C16.v", "Properties/C16two.v"]
META = dict(
    level_text="Theorems (Coq, closed under the global context): for every clock sequence over Z of any length and "
               "every generator state the rendered identifiers are pairwise distinct (strictly increasing "
               "(second,counter)), the text format is injective in (prefix, second, counter) so different prefixes "
               "never collide; the pinned-commit generator is refuted by clock 5,5,6,5. THREADS: for any number of threads and "
               "every interleaving of the steps of generate() (take the lock when free / read clock and update / build "
               "the identifier and release) the identifiers handed out are an initial segment of the sequential "
               "generator's on the clock readings in lock-acquisition order, hence pairwise distinct; building the "
               "identifier after the release is refuted (two threads, one second). Tie to the code: the model's "
               "generate/str(int)/format are evaluated in Coq and compared with /repo's generator on exhaustive clock "
               "step sequences and random ones; the thread model against a second caller scheduled at every lock release "
               "of the first; an independent duplicate search runs on the implementation.",
    level_note="Trusted: Coq kernel/vm_compute; harness (scripted clock replaces event_id.time); RLock mutual exclusion "
               "(a thread takes the lock only when it is free - the step relation of Model/IdGenThreads.v); str(int) as "
               "modelled by dec. The interleaving granularity is the three steps of generate(); the CPython scheduler "
               "below that granularity is covered by the lock (nothing shared is touched outside it).",
    rule="clock step sequences over {-2..+2} (exhaustive up to the tier's length), random long "
         "sequences incl. large jumps and negative seconds, prefixes none / plain / containing '_' and digits; "
         "non-trivial = the clock repeats a second or steps backwards at least once",
    trusted_base=["harness: scripted replacement of bobocep.cep.gen.event_id.time; str(int) modelled by dec "
                  "(Pos.to_uint)", "RLock serialises generate() (threads: sequential theorem applies to lock order)"],
    assumptions=["int(time()) is the only clock read per generate() call",
                 "generate() runs under the generator's RLock (one critical section)"])

PREFIXES = [None, "u", "U", "dev_1", "Dev_1", "a_5", "7", " 7", "urn:x:A7", "urn:x:a7", ""]   # differ by case / space too


# [second, number of requests] ...
BURSTS = [[[100, 70000], [101, 5]], [[101, 70000], [102, 5]], [[100, 3], [40, 140000], [101, 70000]],
          [[7, 65536], [8, 65537], [9, 2]], [[1700000001, 66000], [1700000000, 66000], [1700000002, 66000]]]


def expand(bursts):
    return [sec for sec, n in bursts for _ in range(n)]


def impl_ids(urn, clock):
    import bobocep.cep.gen.event_id as m
    # one value per READ of the clock, the last one repeated: an implementation that looks at the clock once per
    # request (as the code does) sees one value per request; one that looks twice sees the clock move between its reads
    left = list(clock)
    old = m.time
    m.time = lambda: left.pop(0) if len(left) > 1 else left[0]
    try:
        g = m.BoboGenEventIDUnique(urn)
        return [g.generate() for _ in clock]
    finally:
        m.time = old


def encode(idlist):
    out = []
    for s in idlist:
        out += [ord(c) for c in s] + [10]
    return out


def coq_input(urn, clock):
    u = "None" if urn is None else "(Some %s)" % zs([ord(c) for c in urn])
    return "(%s, %s)" % (u, zs(clock))


def sequences(maxlen):
    for n in range(1, maxlen + 1):
        for steps in itertools.product((-2, -1, 0, 1, 2), repeat=n - 1):
            t, seq = 100, [100]
            for d in steps:
                t += d
                seq.append(t)
            yield seq


def nontrivial(clock):
    return any(b <= a for a, b in zip(clock, clock[1:]))


def run(ctx, res):
    rng = ctx.rng
    corr_len = 6 if ctx.quick else 7
    oracle_len = 7 if ctx.quick else 10
    cases = []   # (urn, clock)
    # corpus first
    for clock in ([5, 5, 6, 5], [0, 0], [-3, -3, -4, 0, 0], [5, 6, 5, 6, 5]):
        cases.append((None, clock))
        cases.append(("u", clock))
    k = 0
    for seq in sequences(corr_len):
        cases.append((PREFIXES[k % len(PREFIXES)], seq))
        k += 1
    for _ in range(300 if ctx.quick else 3000):
        n = rng.randint(1, 40)
        t = rng.choice([0, 5, 1700000000, -7])
        seq = []
        for _ in range(n):
            t += rng.choice([0, 0, 0, 1, 1, -1, -2, 2, 100, -100, rng.randint(-10**6, 10**6)])
            seq.append(t)
        cases.append((rng.choice(PREFIXES), seq))

    coq_cases = []
    for urn, clock in cases:
        ids = impl_ids(urn, clock)
        res.note_case((urn, tuple(clock)), nontrivial(clock))
        res.count("len_%d" % min(len(clock), 10))
        res.count("prefix_%s" % urn)
        coq_cases.append((coq_input(urn, clock), encode(ids)))
        if len(set(ids)) != len(ids):
            res.failures.append(dict(signature="duplicate-id", what="generate() returned the same identifier twice",
                                     case=dict(urn=urn, clock=clock), detail=ids))
    res.samples = [dict(urn=u, clock=c, ids=impl_ids(u, c)) for u, c in cases[:2] + cases[5000:5002]]
    mism, errs = common.coq_run_cases("C16", "Model.IdGen", "run_C16", "(option (list Z) * list Z)", coq_cases)
    res.errors += errs
    res.traces_validated = len(coq_cases) - len(mism)
    for idx, model_out in mism[:20]:
        u, c = cases[idx]
        res.mismatches.append(dict(case=dict(urn=u, clock=c), impl=impl_ids(u, c),
                                   model="".join(chr(x) for x in model_out)))

    # property oracle on the implementation alone: longer exhaustive sweep, no Coq involved
    n_or = 0
    for seq in sequences(oracle_len):
        if len(seq) <= corr_len:
            continue
        ids = impl_ids("u", seq)
        n_or += 1
        res.note_case(("or", tuple(seq)), nontrivial(seq))
        if len(set(ids)) != len(ids):
            res.failures.append(dict(signature="duplicate-id", what="generate() returned the same identifier twice",
                                     case=dict(urn="u", clock=seq), detail=ids))
            if len(res.failures) > 50:
                break
    res.extra["oracle_sequences"] = n_or
    res.extra["exhaustive_scope"] = "all clock step sequences over {-2..2}: length<=%d model-vs-impl, length<=%d oracle" % (corr_len, oracle_len)
    res.exhaustive = True

    # "any number of requests within the same second": long bursts on one second (counter beyond 2^16 / 2^17), with
    # steps forwards and backwards between them; seconds of both parities
    n_burst = 0
    for urn in (None, "u"):
        for bursts in BURSTS:
            ids = impl_ids(urn, expand(bursts))
            n_burst += len(ids)
            res.note_case(("burst", urn, tuple(map(tuple, bursts))), True)
            if len(set(ids)) != len(ids):
                seen = {}
                dup = next((i, seen[x]) for i, x in enumerate(ids) if x in seen or seen.setdefault(x, i) != i)
                res.failures.append(dict(signature="duplicate-id", what="generate() returned the same identifier twice "
                                         "(requests #%d and #%d: %r)" % (dup[1], dup[0], ids[dup[0]]),
                                         case=dict(urn=urn, bursts=bursts), detail=None))
    res.extra["burst_ids"] = n_burst

    # different prefixes never collide (oracle): same clock, all prefixes
    for seq in list(sequences(5))[:400]:
        allids = {}
        for p in PREFIXES:
            for i in impl_ids(p, seq):
                if i in allids and allids[i] != p:
                    res.failures.append(dict(signature="prefix-collision", what="two prefixes gave the same identifier",
                                             case=dict(prefixes=[allids[i], p], clock=seq), detail=i))
                allids[i] = p

    # ... nor under clocks of their own (two devices, or one process at different times): prefixes of which one extends
    # the other by "_<digits>", and no prefix against a numeric one - every pair of clocks up to length 3
    n_pp = 0
    for pa, pb, d in ((None, "7", 7), ("a", "a_5", 5), ("dev", "dev_1", 1), ("u", "u_3", 3), (None, "3", 3), ("dev_1", "dev_1_2", 2)):
        vals = sorted({1, 2, d})
        clocks = [list(c) for n in (1, 2, 3) for c in itertools.product(vals, repeat=n)]
        ids_a = [impl_ids(pa, c) for c in clocks]
        ids_b = [impl_ids(pb, c) for c in clocks]
        hit = None
        for ca, ia in zip(clocks, ids_a):
            sa = set(ia)
            for cb, ib in zip(clocks, ids_b):
                n_pp += 1
                if sa & set(ib):
                    hit = (ca, cb, sorted(sa & set(ib)))
                    break
            if hit:
                break
        res.note_case(("prefix-pair", pa, pb), True)
        if hit:
            res.failures.append(dict(signature="prefix-collision", case=dict(prefixes=[pa, pb], clocks=[hit[0], hit[1]]), detail=hit[2],
                                     what="generators with the different prefixes %r and %r gave the same identifier %r (clock seconds "
                                          "%r and %r)" % (pa, pb, hit[2][0], hit[0], hit[1])))
    res.extra["prefix_pair_clock_pairs"] = n_pp

    # real threads (sanity only; the theorem covers the lock's serialisation order)
    import bobocep.cep.gen.event_id as m
    g = m.BoboGenEventIDUnique("t")
    out = []

    def work():
        loc = [g.generate() for _ in range(2000)]
        out.extend(loc)
    ths = [threading.Thread(target=work) for _ in range(8)]
    [t.start() for t in ths]
    [t.join() for t in ths]
    res.extra["thread_hammer_ids"] = len(out)
    if len(set(out)) != len(out):
        res.failures.append(dict(signature="duplicate-id-threads", what="duplicate identifier from concurrent callers",
                                 case=dict(threads=8, per_thread=2000), detail=None))
    # another caller scheduled exactly when the generator releases its lock (deterministic stand-in for a
    # pre-emption between "release" and "return"): the ids of the two callers must still differ
    n_hook = 0
    for seq in list(sequences(5)):
        r = hook_case(seq)
        if r is None:
            break
        n_hook += 1
        mine, other = r
        allids = mine + other
        if len(set(allids)) != len(allids):
            res.failures.append(dict(signature="duplicate-id-caller-at-lock-release",
                                     what="a second caller scheduled at the moment the generator releases its lock got the same identifier",
                                     case=dict(clock=seq, interleaving="B.generate() at every lock release of A"),
                                     detail=dict(a=mine, b=other)))
            break
    res.extra["lock_release_interleavings"] = n_hook
    # ... and the same interleaving against the THREAD model (Model/IdGenThreads.v, identifier built under the lock):
    # two threads, schedule A A A B B B per round, both reading the same clock value
    tcases, tmeta = [], []
    for seq in list(sequences(5)):
        r = hook_case(seq)
        if r is None:
            break
        mine, other = r
        inter = [x for pair in zip(mine, other) for x in pair]
        try:
            flat = [int(v) for i in inter for v in i.split("_")[1:]]
        except ValueError:
            flat = [-1]
        clk = [c for c in seq for _ in (0, 1)]
        sched = [0, 0, 0, 1, 1, 1] * len(seq)
        tcases.append(("((true, 2%%nat), (%s, [%s]))" % (zs(clk), "; ".join("%d%%nat" % t for t in sched)), flat))
        tmeta.append(seq)
        res.note_case(("threads", tuple(seq)), True)
    tm, terr = common.coq_run_cases("C16T", "Model.IdGenThreads", "run_C16_threads",
                                    "((bool * nat) * (list Z * list nat))", tcases)
    res.errors += terr
    res.traces_validated += len(tcases) - len(tm)
    for idx, model_out in tm[:10]:
        res.mismatches.append(dict(case=dict(clock=tmeta[idx], interleaving="B.generate() at every lock release of A"),
                                   impl=tcases[idx][1], model=model_out))
    res.extra["thread_model_cases"] = len(tcases)
    # Model/IdGenTwo.v (Properties/C16two.v): two generators of one process, calls alternating arbitrarily, any clock
    two, twometa = [], []
    import bobocep.cep.gen.event_id as m2
    for n in range(260 if ctx.quick else 3000):
        t, calls = 10 ** 10 + 1000 * n, []
        for _ in range(rng.randint(2, 12)):
            t += rng.choice([0, 0, 0, 1, 1, -1, -2, 2])
            calls.append((rng.random() < 0.5, t))
        gens = {True: m2.BoboGenEventIDUnique(None), False: m2.BoboGenEventIDUnique(None)}
        got = {True: [], False: []}
        old = m2.time
        try:
            for who, c in calls:
                m2.time = lambda c=c: c
                got[who].append(gens[who].generate())
        finally:
            m2.time = old
        try:
            flat = [int(v) for i in got[True] for v in i.split("_")] + [-1] + [int(v) for i in got[False] for v in i.split("_")]
        except ValueError:
            flat = [-2]
        sched = "; ".join("(%s, %d)" % ("true" if w else "false", c) for w, c in calls for _ in (0, 1))
        two.append(("(false, [%s])" % sched, flat))
        twometa.append(calls)
        res.note_case(("two-generators-model", n), len({w for w, _ in calls}) == 2)
    tm2, terr2 = common.coq_run_cases("C16W", "Model.IdGenTwo", "run_C16_two", "(bool * list (bool * Z))", two)
    res.errors += terr2
    res.traces_validated += len(two) - len(tm2)
    for idx, model_out in tm2[:5]:
        res.mismatches.append(dict(case=dict(calls=[[bool(w), c] for w, c in twometa[idx]], two_generators=True),
                                   impl=two[idx][1], model=model_out))
    res.extra["two_generator_model_cases"] = len(two)
    # the engines BoboSetupSimple assembles: devices with different URNs, the same clock second, the same requests -
    # their run identifiers and event identifiers must not coincide (the prefix has to reach every generator)
    r = setup_case(["dev:1", "dev:2", "dev:10", "Dev:1", "urn:x:A7", "urn:x:a7"])
    res.note_case(("setup", "dev:1/dev:2/dev:10/Dev:1/urn:x:A7/urn:x:a7"), True)
    res.extra["setup_wiring_ids"] = r
    for kind in ("run_ids", "event_ids"):
        allx = [x for u in r for x in r[u][kind]]
        if len(set(allx)) != len(allx):
            res.failures.append(dict(signature="setup-%s-collide-across-devices" % kind.replace("_", "-"),
                                     what="engines built by BoboSetupSimple for different URNs produced the same %s in the same second: %s"
                                          % (kind.replace("_", " "), {u: r[u][kind] for u in r}),
                                     case=dict(clock=[1700000000], setup=True), detail=r))
    interleave_half(res)
    # shrink failures: keep the shortest
    res.failures.sort(key=lambda f: len(f["case"].get("clock", [])))


# ------------------------------------------------------------------------------------------------------------
# a second caller at EVERY line of generate(), whether or not the generator has a lock of its own
def line_interleave(gen, clock, k, gen_b=None, b_ahead=0):
    """Caller A asks `gen` for one identifier per clock reading.  When A's generate() reaches its k-th traced line a
    second caller B (a real thread) asks the same generator for an identifier and is given 30 ms: with the critical
    section intact B simply waits until A is done; with any gap B runs inside A's call.  Returns (A's ids, B's ids,
    whether the k-th line was ever reached)."""
    import sys
    import bobocep.cep.gen.event_id as m
    cur = [clock[0]]
    a_ids, b_ids, threads, hit = [], [], [], [False]
    old = m.time
    m.time = lambda: cur[0]

    def b_call():
        # (gen_b: B asks ANOTHER generator of the same process, and reads the clock b_ahead seconds later than A did)
        if gen_b is not None:
            m.time = lambda: cur[0] + b_ahead
        b_ids.append((gen_b or gen).generate())

    a_thread = threading.get_ident()

    def tracer(frame, event, arg):
        if event != "call" or threading.get_ident() != a_thread:
            return None
        if frame.f_code.co_name != "generate" or frame.f_locals.get("self") is not gen:
            return None
        n = [0]

        def local(frame, event, arg):
            if event == "line":
                n[0] += 1
                if n[0] == k:
                    hit[0] = True
                    t = threading.Thread(target=b_call, daemon=True)
                    t.start()
                    threads.append(t)
                    t.join(0.03)
                    if gen_b is not None:
                        t.join(2)
                        m.time = lambda: cur[0]
            return local
        return local
    try:
        for c in clock:
            cur[0] = c
            sys.settrace(tracer)
            try:
                a_ids.append(gen.generate())
            finally:
                sys.settrace(None)
        for t in threads:
            t.join(5)
    finally:
        m.time = old
    return a_ids, b_ids, hit[0]


def generators_of_setup(urn):
    """the identifier generators inside an engine assembled by BoboSetupSimple (found by type, not by name)"""
    import bobocep.cep.gen.event_id as m
    from bobocep.setup.simple import BoboSetupSimple
    from bobocep.cep.phenom.phenom import BoboPhenomenon
    from bobocep.cep.phenom.pattern.builder import BoboPatternBuilder
    from bobocep.cep.action.handler import BoboActionHandlerBlocking
    pat = BoboPatternBuilder("p").followed_by(lambda e, h: True).followed_by(lambda e, h: True).generate()
    eng = BoboSetupSimple(phenomena=[BoboPhenomenon(name="ph", patterns=[pat], action=None)],
                          handler=BoboActionHandlerBlocking(), urn=urn).generate()
    found = {}
    for part in (eng.receiver, eng.decider, eng.producer, eng.forwarder):
        for v in vars(part).values():
            if isinstance(v, m.BoboGenEventID):
                found[id(v)] = v
    return list(found.values())


def two_switch_case(origin, k, j):
    """two callers of a FRESH generator, both possibly inside generate() at once: A to its line k, B to its line j, A to
    the end, B to the end.  Returns (ids of A, ids of B, whether A's line k exists)"""
    import interleave as IL
    import bobocep.cep.gen.event_id as m
    gen = m.BoboGenEventIDUnique("u") if origin == "direct" else generators_of_setup("u")[0]
    old = m.time
    m.time = lambda: 5
    try:
        r = IL.two_switches(lambda: [gen.generate() for _ in range(2)], lambda: [gen.generate() for _ in range(2)],
                            ("event_id.py",), k, j)
    finally:
        m.time = old
    return list(r["a"] or []), list(r["b"] or []), r["reached"], [x for x in (r["a_exc"], r["b_exc"]) if x is not None]


def interleave_half(res):
    import bobocep.cep.gen.event_id as m
    n, lines = 0, 0
    targets = [("direct", lambda: [m.BoboGenEventIDUnique("u")]), ("setup", lambda: generators_of_setup("u"))]
    for origin, make in targets:
        for clock in ([5, 5, 6, 6, 7], [5, 6, 7, 8], [5, 4, 5, 6]):
            for k in range(1, 16):
                reached = False
                for gi, gen in enumerate(make()):
                    a, b, hit = line_interleave(gen, clock, k)
                    reached = reached or hit
                    n += 1
                    ids = a + b
                    if len(set(ids)) != len(ids):
                        res.failures.append(dict(signature="duplicate-id-second-caller-inside-generate",
                                                 what="a second caller asking at line %d of generate() got an identifier the first "
                                                      "caller also got (generator %s): A %s, B %s"
                                                      % (k, "constructed directly" if origin == "direct" else "of an engine from BoboSetupSimple", a, b),
                                                 case=dict(clock=clock, line=k, origin=origin, gen_index=gi, interleaving="line"), detail=None))
                        break
                if not reached:
                    break
                lines = max(lines, k)
            res.note_case(("line-interleave", origin, tuple(clock)), True)
    # two generators of one process (an engine has one for events and one for runs), each used by ONE thread: while A is
    # at line k of its generator, B obtains an identifier from the other one, a second later on the clock
    n3, base = 0, 10 ** 12         # (beyond every second used earlier in this process: the real clock, the 1e10 of the model cases)
    for origin in ("direct", "setup"):
        for clock0 in ([5, 5, 6, 6, 7], [5, 6, 6, 7, 7, 7], [5, 4, 4, 5, 6]):
            for ahead in (0, 1, 2):
                for k in range(1, 16):
                    base += 20          # (later seconds in every case: nothing a generator may keep per process interferes)
                    clock = [c + base for c in clock0]
                    gens = [m.BoboGenEventIDUnique("u"), m.BoboGenEventIDUnique("v")] if origin == "direct" else generators_of_setup("u")
                    if len(gens) < 2:
                        break
                    a, b, hit = line_interleave(gens[0], clock, k, gen_b=gens[1], b_ahead=ahead)
                    if not hit:
                        break
                    n3 += 1
                    if len(set(a)) != len(a) or len(set(b)) != len(b) or len(a) != len(clock):
                        res.failures.append(dict(signature="duplicate-id-two-generators-two-threads",
                                                 what="two generators (%s), each used by one thread; B asks its generator while A is at "
                                                      "line %d of generate() of the other, reading the clock %d s later: A got %s, B got %s"
                                                      % ("constructed directly" if origin == "direct" else "of an engine from BoboSetupSimple",
                                                         k, ahead, a, b),
                                                 case=dict(clock=clock, line=k, origin=origin, ahead=ahead, interleaving="two-generators"),
                                                 detail=None))
                        break
            res.note_case(("two-generators", origin, tuple(clock0)), True)
    res.extra["two_generator_interleavings"] = n3
    n2 = 0
    for origin in ("direct", "setup"):
        stop = False
        for k in range(1, 14):
            for j in range(1, 14):
                a, b, reached, excs = two_switch_case(origin, k, j)
                if not reached:
                    stop = True
                    break
                n2 += 1
                if excs or len(set(a + b)) != len(a + b) or len(a + b) != 4:
                    res.failures.append(dict(signature="duplicate-id-two-callers-inside-generate",
                                             what="two callers of a fresh generator (%s), first paused at its line %d, second at its "
                                                  "line %d: A got %s, B got %s%s" % ("constructed directly" if origin == "direct" else
                                                  "of an engine from BoboSetupSimple", k, j, a, b, " raised %r" % excs if excs else ""),
                                             case=dict(origin=origin, line=k, line_b=j, interleaving="two-switches", clock=[5]), detail=None))
                    stop = True
                    break
            if stop:
                break
        res.note_case(("two-switches", origin), True)
    res.extra["two_switch_schedules"] = n2
    res.extra["line_interleavings"] = n
    res.extra["lines_of_generate_reached"] = lines


class ReleaseHook:
    def __init__(self, gen, inner):
        self.gen, self.inner, self.depth, self.busy, self.other = gen, inner, 0, False, []

    def acquire(self, *a, **k):
        r = self.inner.acquire(*a, **k)
        self.depth += 1
        return r

    def release(self):
        self.depth -= 1
        self.inner.release()
        if self.depth == 0 and not self.busy:
            self.busy = True
            try:
                self.other.append(self.gen.generate())     # "thread B" runs here
            finally:
                self.busy = False

    def __enter__(self):
        self.acquire()
        return self

    def __exit__(self, *a):
        self.release()


def setup_case(urns):
    """one engine per URN from BoboSetupSimple, clock pinned, each fed the same two data: the run ids the deciders
    draw and the event ids the receivers draw"""
    import bobocep.cep.gen.event_id as m
    from bobocep.setup.simple import BoboSetupSimple
    from bobocep.cep.phenom.phenom import BoboPhenomenon
    from bobocep.cep.phenom.pattern.builder import BoboPatternBuilder
    from bobocep.cep.action.handler import BoboActionHandlerBlocking
    old = m.time
    m.time = lambda: 1700000000
    out = {}
    try:
        for u in urns:
            pat = BoboPatternBuilder("p").followed_by(lambda e, h: e.data == "a").followed_by(lambda e, h: e.data == "z").generate()
            eng = BoboSetupSimple(phenomena=[BoboPhenomenon(name="ph", patterns=[pat], action=None)],
                                  handler=BoboActionHandlerBlocking(), urn=u).generate()
            for d in ("a", "a"):
                eng.receiver.add_data(d)
                eng.update()
            runs = list(eng.decider.all_runs())
            out[u] = dict(run_ids=sorted(r.run_id for r in runs),
                          event_ids=sorted(e.event_id for r in runs for e in r.history().all_events()))
    finally:
        m.time = old
    return out


def hook_case(seq):
    """ids of caller A and of a caller B scheduled at every lock release of A; None if the generator has no _lock"""
    import bobocep.cep.gen.event_id as m
    it = iter([c for c in seq for _ in (0, 1)])
    old = m.time
    m.time = lambda: next(it)
    try:
        g2 = m.BoboGenEventIDUnique("h")
        if not all(hasattr(getattr(g2, "_lock", None), a) for a in ("acquire", "release", "__enter__", "__exit__")):
            return None      # no lock object to hook (the line-level oracles below do not need one)
        hook = ReleaseHook(g2, g2._lock)
        g2._lock = hook
        mine = [g2.generate() for _ in seq]
    finally:
        m.time = old
    return mine, hook.other


def replay(obj):
    case = obj.get("case") or {}
    if not case and obj.get("mismatches") and (obj["mismatches"][0].get("case") or {}).get("two_generators"):
        import bobocep.cep.gen.event_id as m2
        calls = [(bool(w), c) for w, c in obj["mismatches"][0]["case"]["calls"]]
        gens = {True: m2.BoboGenEventIDUnique(None), False: m2.BoboGenEventIDUnique(None)}
        got = {True: [], False: []}
        old = m2.time
        try:
            for who, c in calls:
                m2.time = lambda c=c: c
                got[who].append(gens[who].generate())
        finally:
            m2.time = old
        print("calls (generator A?, clock):", calls)
        print("implementation: A", got[True], " B", got[False])
        sched = "; ".join("(%s, %d)" % ("true" if w else "false", c) for w, c in calls for _ in (0, 1))
        model, _ = common.coq_eval("C16W", "Model.IdGenTwo", "run_C16_two (false, [%s])" % sched)
        print("model         :", model)
        try:
            flat = [int(v) for i in got[True] for v in i.split("_")] + [-1] + [int(v) for i in got[False] for v in i.split("_")]
        except ValueError:
            flat = [-2]
        print("model and implementation agree" if flat == model else "model and implementation differ")
        return 0 if flat == model else 1
    if case.get("setup"):
        r = setup_case(["dev:1", "dev:2", "dev:10", "Dev:1", "urn:x:A7", "urn:x:a7"])
        print("engines from BoboSetupSimple, clock pinned:", json.dumps(r, indent=1))
        bad = any(len(set(x for u in r for x in r[u][k])) != sum(len(r[u][k]) for u in r) for k in ("run_ids", "event_ids"))
        print("identifiers of different devices coincide" if bad else "identifiers of different devices are distinct")
        return 1 if bad else 0
    if "prefixes" in case:
        pa, pb = case["prefixes"]
        ca, cb = case["clocks"] if "clocks" in case else (case["clock"], case["clock"])
        ia, ib = impl_ids(pa, ca), impl_ids(pb, cb)
        print("generator with prefix %r, clock seconds %r: %s" % (pa, ca, ia))
        print("generator with prefix %r, clock seconds %r: %s" % (pb, cb, ib))
        both = sorted(set(ia) & set(ib))
        print("the same identifier from both: %r" % both if both else "no identifier in common")
        return 1 if both else 0
    if "bursts" in case:
        ids = impl_ids(case.get("urn"), expand(case["bursts"]))
        dup = len(set(ids)) != len(ids)
        print("%d requests, %d distinct identifiers" % (len(ids), len(set(ids))))
        print("duplicate identifiers" if dup else "identifiers pairwise distinct")
        return 1 if dup else 0
    if "clock" not in case:
        print(obj)
        return 0
    if case.get("interleaving") == "two-switches":
        a, b, _, excs = two_switch_case(case["origin"], case["line"], case["line_b"])
        print("caller A (paused at its line %d):" % case["line"], a)
        print("caller B (paused at its line %d):" % case["line_b"], b, excs or "")
        dup = len(set(a + b)) != len(a + b) or bool(excs) or len(a + b) != 4
        print("duplicate identifiers" if dup else "identifiers pairwise distinct")
        return 1 if dup else 0
    if case.get("interleaving") == "two-generators":
        import bobocep.cep.gen.event_id as m
        gens = [m.BoboGenEventIDUnique("u"), m.BoboGenEventIDUnique("v")] if case["origin"] == "direct" else generators_of_setup("u")
        a, b, _ = line_interleave(gens[0], case["clock"], case["line"], gen_b=gens[1], b_ahead=case.get("ahead", 0))
        print("thread A, generator 1:", a)
        print("thread B, generator 2 (asking when A is at line %d, clock %d s later):" % (case["line"], case.get("ahead", 0)), b)
        dup = len(set(a)) != len(a) or len(set(b)) != len(b) or len(a) != len(case["clock"])
        print("a generator repeated an identifier" if dup else "identifiers of each generator pairwise distinct")
        return 1 if dup else 0
    if case.get("interleaving") == "line":
        import bobocep.cep.gen.event_id as m
        gens = [m.BoboGenEventIDUnique("u")] if case["origin"] == "direct" else generators_of_setup("u")
        a, b, _ = line_interleave(gens[min(case.get("gen_index", 0), len(gens) - 1)], case["clock"], case["line"])
        print("caller A:", a)
        print("caller B (asking when A's generate() is at line %d):" % case["line"], b)
        dup = len(set(a + b)) != len(a + b)
        print("duplicate identifiers" if dup else "identifiers pairwise distinct")
        return 1 if dup else 0
    if "interleaving" in case:
        mine, other = hook_case(case["clock"])
        print("caller A:", mine)
        print("caller B (scheduled at each lock release of A):", other)
        dup = len(set(mine + other)) != len(mine + other)
        print("duplicate identifiers" if dup else "identifiers pairwise distinct")
        return 1 if dup else 0
    urn, clock = case.get("urn"), case["clock"]
    ids = impl_ids(urn, clock)
    print("implementation:", ids)
    model, _ = common.coq_eval("C16", "Model.IdGen", "run_C16 %s" % coq_input(urn, clock))
    print("model         :", "".join(chr(x) for x in (model or [])).split("\n")[:-1])
    dup = len(set(ids)) != len(ids)
    print("duplicate identifiers" if dup else "identifiers pairwise distinct")
    return 1 if dup else 0
